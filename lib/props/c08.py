"""C08 - fast fields return exactly the values that were indexed.
M: Columns.tla (column = row -> values; flat representation; cardinality rule; bounds; RowsInRange;
   numerical coercion; dictionary ordinals; stack / shuffle merges) model checked by TLC on a small
   two-writer machine; negative configuration: merged minimum claimed tight after deletes.
R: TLC enumerates column shapes (type x content pattern aimed at one codec x cardinality x position of
   the values relative to the 64 / 512 / 65,536-row blocks) and merge shapes (inputs, stack / shuffle,
   alive fraction, permutation); columns_driver builds them through ColumnarWriter -> ColumnarReader ->
   merge_columnar and through IndexWriter -> SegmentReader::fast_fields() (+ deletes and merge).
T: every column is read back completely (values_for_doc, first, min / max, cardinality, value-range
   lookups, dictionary + ordinals); values travel as ranks in the sorted list of distinct values;
   ColumnsTrace compares them with the input rows the merge order / stored id designates."""
import json
import os
import random

import vlib
from vlib import log
from props import _fid

LEVEL = "model_checking"
MOD, CFG = "ColumnsTrace", "ColumnsTrace.cfg"
KF_IMAX = ("a numerical column holding the u64 value 9223372036854775807 (= i64::MAX) and a negative i64 is coerced to f64 "
           "instead of i64: the values are not returned exactly (off by one in CompatibleNumericalTypes::accept_value)")

SAFE_SHARED = {"const", "linear", "linear_noise", "blockwise", "small", "gcd", "sorted", "if", "all3", "above32", "gcd32", "wide31"}   # values below 2^53 in magnitude
KF_BELOW_MIN = ("Column::get_docids_for_value_range with a value range entirely below the column's minimum returns the rows holding the minimum "
                "instead of nothing (bit-packed codec: transform_range_before_linear_transformation saturates both bounds to 0)")
INDEX_NAME = {"u64": ["u"], "i64": ["i"], "f64": ["f"], "bool": ["b", "j.o.b"], "date": ["d", "j.o.d"], "ip": ["ip"], "str": ["s", "j.s", "tkr"], "tok": ["tk"],
              "bytes": ["y"], "mixed": ["j.a"]}


def model_checking(ctx):
    vlib.mc_check(ctx, "MC_Columns", "MC_Columns_neg.cfg", expect_violation="MergedBounds", timeout=300, workers=4)
    r = vlib.mc_check(ctx, "MC_Columns", "MC_Columns.cfg", coverage=True, timeout=600, workers=6)
    zero = r.coverage_zero_actions()
    if zero:
        raise vlib.ToolError(f"MC_Columns: actions never taken: {zero}")
    vlib.mc_check(ctx, "MC_Columns", "MC_Columns_v3.cfg", timeout=600, workers=6)


def build_cases(ctx, gen, n_col_cases, n_index_cases, n_big, rng):
    cols = [c for c in gen if c["what"] == "col"]
    bigcols = [c for c in gen if c["what"] == "bigcol"]
    merges = [c for c in gen if c["what"] == "merge"]
    bigmerges = [c for c in gen if c["what"] == "bigmerge"]
    rng.shuffle(cols)
    rng.shuffle(merges)
    rng.shuffle(bigcols)
    rng.shuffle(bigmerges)
    cases, ci = [], 0

    def colspec(c, name):
        return {"name": name, "kind": c["kind"], "pattern": c["pattern"], "card": c["card"], "present": c["present"], "density": c["density"],
                "expect_type": c["expect_type"]}
    # columnar path: every case takes the next merge shape and 3 column shapes per table (names shared
    # between the tables so that columns meet columns of another type / are missing in some inputs)
    for i in range(n_col_cases):
        m = merges[i % len(merges)]
        tables = []
        for ti, n in enumerate(m["sizes"]):
            tcols = []
            for k in range(3):
                c = cols[ci % len(cols)]
                ci += 1
                # same name only for columns of the same category, or numerical ones (coerced)
                # (numerical columns of different types under one name are coerced, possibly to f64: only patterns
                # whose values f64 holds exactly may share a name)
                safe = c["kind"] not in ("u64", "i64", "f64", "mixed") or c["pattern"] in SAFE_SHARED
                name = f"c{k}" if (ti + k) % 3 and safe else f"c{k}_{ti}"
                tcols.append(colspec(c, f"{name}_{'n' if c['kind'] in ('u64', 'i64', 'f64', 'mixed') else c['kind']}"))
            tables.append({"nrows": n, "cols": tcols})
        cases.append({"id": len(cases), "path": "columnar", "seed": rng.randrange(1 << 30), "tables": tables, "merge": m["merge"]})
    for i in range(n_index_cases):
        m = merges[(i * 7 + 3) % len(merges)]
        tables = []
        for ti, n in enumerate(m["sizes"]):
            tcols, used = [], set()
            for k in range(4):
                c = cols[ci % len(cols)]
                ci += 1
                if c["kind"] == "mixed" and c["pattern"] not in SAFE_SHARED and len(m["sizes"]) > 1:
                    continue        # all mixed columns of the index path share the name j.a (see SAFE_SHARED)
                names = [x for x in INDEX_NAME[c["kind"]] if x not in used]
                if not names:
                    continue
                used.add(names[0])
                tcols.append(colspec(c, names[0]))
            tables.append({"nrows": min(n, 2000), "cols": tcols})
        mm = dict(m["merge"])
        if mm["order"] == "shuffle" and mm["keep"] < 100:
            mm["keep"] = 300
        cases.append({"id": len(cases), "path": "index", "seed": rng.randrange(1 << 30), "tables": tables, "merge": mm})
    for i in range(n_big):
        m = bigmerges[i % len(bigmerges)]
        tables = []
        for ti, n in enumerate(m["sizes"]):
            tcols = []
            for k in range(2):
                c = bigcols[(2 * i + k + ti) % len(bigcols)]
                tcols.append(colspec(c, f"b{k}_{c['kind']}"))
            tables.append({"nrows": n, "cols": tcols})
        cases.append({"id": len(cases), "path": "columnar" if i % 3 else "index", "seed": rng.randrange(1 << 30), "tables": tables, "merge": m["merge"]})
        if cases[-1]["path"] == "index":
            for t in cases[-1]["tables"]:
                t["cols"] = [dict(c, name=INDEX_NAME[c["kind"]][0]) for c in t["cols"]]
                seen = set()
                t["cols"] = [c for c in t["cols"] if not (c["name"] in seen or seen.add(c["name"]))]
    return cases


def threshold_cases(gen, first_id, rng, quick):
    """boundary values of the writer / reader switches named in Columns.tla (TLC prints them): exactly n rows
    with a value inside one 65,536-row block of the optional index, n around DenseBlockThreshold; merges that
    produce such a block; through the columnar crate and through IndexWriter"""
    def col(name, kind, card, count, block, pattern="small"):
        return {"name": name, "kind": kind, "pattern": pattern, "card": card, "present": "exact", "density": count, "block": block,
                "expect_type": {"u64": "i64"}.get(kind, kind)}
    cases = []

    def add(path, tables, merge, gen_case):
        cases.append({"id": first_id + len(cases), "path": path, "seed": rng.randrange(1 << 30), "tables": tables, "merge": merge, "threshold": gen_case})
    for t in [c for c in gen if c["what"] == "thr"]:
        n, b = t["count"], t["block"]
        kinds = [("u64", "optional"), ("str", "multi")] if b == 0 else [("i64", "optional"), ("ip", "multi"), ("bool", "optional")]
        add("columnar", [{"nrows": t["nrows"], "cols": [col(f"t{i}_{'n' if k in ('u64', 'i64') else k}", k, c, n, b) for i, (k, c) in enumerate(kinds)]}],
            {"order": "none"}, t)
        if b == 0:
            add("index", [{"nrows": t["nrows"], "cols": [col("u", "u64", "optional", n, 0, "linear"), col("s", "str", "optional", n, 0)]}], {"order": "none"}, t)
    # tokenized text fast fields (index path): every token occurrence, in order
    toks = [c for c in gen if c["what"] == "tokcol"]
    for k, t in enumerate(toks):
        if quick and k % 3:
            continue
        def tc(name, kind, pattern, card):
            return {"name": name, "kind": kind, "pattern": pattern, "card": card, "present": "rand", "density": 700, "expect_type": "str"}
        tables = [{"nrows": nr, "cols": [tc("tk", "tok", t["pattern"], t["card"]), tc("tkr", "str", "small", "optional"), tc("s", "str", "small", "multi")]}
                  for nr in (40, 25)]
        add("index", tables, t["merge"], t)
    # huge sparse tables (more than 16 blocks, whole blocks empty): direct read, select, range lookups, stack merge
    huge = [c for c in gen if c["what"] == "huge"]
    rng.shuffle(huge)
    picked = [c for c in huge if c["a"] != c["b"]]
    for k, h in enumerate(picked[:(3 if quick else 14)]):
        kinds = [("u64", "optional"), ("str", "multi")] if k % 2 == 0 else [("i64", "multi"), ("ip", "optional")]
        def hc(i, kind, card, rows):
            return {"name": f"h{i}_{'n' if kind in ('u64', 'i64') else kind}", "kind": kind, "pattern": "linear" if kind in ("u64", "i64") else "small",
                    "card": card, "present": "none", "density": 0, "rows": sorted(rows), "expect_type": {"u64": "i64"}.get(kind, kind)}
        tables = [{"nrows": h["nrows"], "cols": [hc(i, kd, cd, h["rows_a"]) for i, (kd, cd) in enumerate(kinds)]},
                  {"nrows": h["nrows"], "cols": [hc(i, kd, cd, h["rows_b"]) for i, (kd, cd) in enumerate(kinds)]}]
        add("columnar", tables, {"order": "stack", "keep": 1000, "perm": "identity"}, h)
    # a completely filled 65,536-row block (and one row short of it), directly and after a stacked merge
    for t in [c for c in gen if c["what"] == "fullblock"]:
        n, b = t["count"], t["block"]
        if quick and n != 65536 and b == 1:
            continue
        tables = [{"nrows": t["nrows"], "cols": [col("f0_n", "u64", "optional" if b == 0 else "multi", n, b, "linear")]},
                  {"nrows": t["merge_with"], "cols": [col("f0_n", "u64", "optional", 40, 0, "linear")]}]
        add("columnar", tables, t["merge"], t)
        if n == 65536 and (b == 0 or not quick):
            tables = [{"nrows": t["nrows"], "cols": [col("u", "u64", "optional", n, b, "linear")]},
                      {"nrows": t["merge_with"], "cols": [col("u", "u64", "optional", 40, 0, "linear")]}]
            add("index", tables, t["merge"], t)
    for t in [c for c in gen if c["what"] == "thrmerge"]:
        n = sum(t["counts"])
        exact = t["variants"][2] == "dense" and n == min(sum(x["counts"]) for x in gen if x["what"] == "thrmerge" and x["variants"][2] == "dense")
        if quick and not exact and t["merge"]["order"] != "stack":
            continue
        tables = [{"nrows": sz, "cols": [col("m0_n", "u64", "optional", cnt, 0, "linear"), col("m1_str", "str", "optional", cnt, 0)]}
                  for sz, cnt in zip(t["sizes"], t["counts"])]
        add("columnar", tables, t["merge"], t)
        if t["merge"]["order"] == "stack" and (exact or not quick):
            tables = [{"nrows": sz, "cols": [col("u", "u64", "optional", cnt, 0, "linear"), col("ip", "ip", "multi", cnt, 0)]}
                      for sz, cnt in zip(t["sizes"], t["counts"])]
            add("index", tables, t["merge"], t)
    return cases


def pinpoint(ctx, unit, k):
    """which columns of a rejected read event are unexplained: judge them one by one"""
    e = unit[k - 1]
    head = [x for x in unit[:k - 1] if x.get("ev") in ("case", "table")]
    bad = []
    for c in e.get("cols", []):
        p = ctx.path("pinpoint.ndjson")
        ev1 = dict(e, cols=[c], only_listed_columns=True)
        if "queries" in e:          # only the queries on this column
            ev1["queries"] = [q for q in e["queries"] if q.get("key") == c.get("key")]
        vlib.write_ndjson(p, head + [ev1])
        r = vlib.run_tlc(MOD, CFG, workers=1, timeout=300, trace=p, deque=True, heap="6g")
        if not r.ok:
            bad.append(c)
    return bad


def describe(ctx, cases):
    by_id = {c["id"]: c for c in cases}

    def d(unit, k, text):
        e = unit[k - 1]
        case = by_id.get(unit[0].get("case"), {})
        specs = {f"{c['name']}": c for t in case.get("tables", []) for c in t["cols"]}
        if e.get("ev") == "panic":
            return f"panic in {e.get('in')} ({unit[0].get('path')} path)", json.dumps({"event": e, "case": case})[:4000]
        if e.get("ev") == "read":
            bad = pinpoint(ctx, unit, k)
            where = "merged" if "merge" in e or e.get("phase") == "merge" else "fresh"
            if bad:
                c = bad[0]
                name = c["key"].split("|")[0]
                sp = specs.get(name, {})
                if c.get("panic") or c.get("error"):
                    return (f"panic / error while reading a fast field column back ({unit[0].get('path')} path, {where} columnar, {e.get('nrows')} rows): column kind "
                            f"{sp.get('kind')} pattern {sp.get('pattern')} cardinality {sp.get('card')}: {c.get('error', 'panic in the columnar reader')}",
                            json.dumps({"column": c, "spec": {k: v for k, v in sp.items() if k != 'rows'}, "rows_with_values": sp.get("rows"), "merge": case.get("merge")})[:3000])
                if case.get("below_min"):
                    return KF_BELOW_MIN, json.dumps({"column": {x: c[x] for x in c if x not in ("off",)}})[:3000]
                if sp.get("pattern") == "imax_neg":
                    return KF_IMAX, json.dumps({"column": {x: c[x] for x in c if x not in ("off", "flat", "ranges")}, "unknown": e.get("unknown")})[:3000]
                small = {x: (v if not isinstance(v, list) or len(v) < 60 else v[:60] + ["..."]) for x, v in c.items()}
                return (f"fast field column not returned as written ({unit[0].get('path')} path, {where} columnar): column kind {sp.get('kind')} "
                        f"pattern {sp.get('pattern')} cardinality {sp.get('card')} read as {c.get('type')}/{c.get('card')}: ColumnsTrace rejects it",
                        json.dumps({"column": small, "spec": sp, "merge": case.get("merge"), "unknown_values": e.get("unknown")})[:4000])
            return (f"fast field columnar read back ({unit[0].get('path')} path, {where}): a column with values is missing or the row count is wrong",
                    json.dumps({"keys": [c.get("key") for c in e.get("cols", [])], "nrows": e.get("nrows"), "merge": case.get("merge")})[:3000])
        return f"ColumnsTrace rejects event {e.get('ev')}: {json.dumps(e)[:300]}", json.dumps(e)[:2000]
    return d


def run_cases(ctx, cases, label):
    cp = ctx.path(f"{label}_cases.ndjson")
    vlib.write_ndjson(cp, cases)
    tp = ctx.path(f"{label}_trace.ndjson")
    vlib.run_bin("columns_driver", ["run", "--in", cp, "--out", tp], timeout=900, mem_gb=12)
    ev = _fid.clean(vlib.read_ndjson(tp))
    units = _fid.split_units(ev, lambda e: e.get("ev") == "case")
    by_id = {c["id"]: c for c in cases}
    stats = ctx.cov.setdefault("columns", {"columns_read": 0, "values_compared": 0, "types": {}, "cardinalities": {}, "type_as_generated": 0,
                                           "type_not_as_generated": 0, "merged_columnars": 0})

    def acc(u):
        case = by_id.get(u[0]["case"], {})
        specs = {c["name"]: c for t in case.get("tables", []) for c in t["cols"]}
        for e in u:
            if e.get("ev") != "read":
                continue
            if "rows" in e:
                stats["merged_columnars"] += 1
            for c in e["cols"]:
                stats["columns_read"] += 1
                stats["values_compared"] += len(c.get("flat", c.get("ords", [])))
                stats["types"][c["type"]] = stats["types"].get(c["type"], 0) + 1
                stats["cardinalities"][c["card"]] = stats["cardinalities"].get(c["card"], 0) + 1
                sp = specs.get(c["key"].split("|")[0])
                # the type TLC printed with the generated column, for fresh columnar-path columns whose name is not shared
                if sp and "rows" not in e and u[0]["path"] == "columnar" and sum(1 for t in case["tables"] for x in t["cols"] if x["name"] == sp["name"]) == 1:
                    if sp["expect_type"] == c["type"]:
                        stats["type_as_generated"] += 1
                    else:
                        stats["type_not_as_generated"] += 1
                        stats.setdefault("type_diff_examples", [])
                        if len(stats["type_diff_examples"]) < 12:
                            stats["type_diff_examples"].append([sp["kind"], sp["pattern"], sp["expect_type"], c["type"], len(c.get("flat", []))])
        ctx.distinct((label, u[0]["case"]), True)
    n_ok = _fid.judge_units(ctx, MOD, CFG, units, label, describe=describe(ctx, cases), on_accept=acc, timeout=900, heap="10g")
    return units, n_ok


def known_finding_run(ctx):
    """the recorded off-by-one of the numerical coercion still reproduces"""
    case = {"id": 0, "path": "columnar", "seed": 3, "merge": {"order": "none"},
            "tables": [{"nrows": 4, "cols": [{"name": "x", "kind": "mixed", "pattern": "imax_neg", "card": "full", "present": "all", "density": 0, "expect_type": "i64"}]}]}
    n_before = len(ctx.violations)
    units, n_ok = run_cases(ctx, [case], "kf_imax")
    if n_ok == 1 and len(ctx.violations) == n_before and "F28" not in ctx.kf_seen:
        log("[C08] note: the recorded finding (u64 == i64::MAX with a negative value) did not reproduce")
        ctx.cov["kf_imax_reproduced"] = False
    else:
        ctx.cov["kf_imax_reproduced"] = True


def known_finding_below_min(ctx):
    """the recorded defect of range lookups entirely below the minimum still reproduces"""
    case = {"id": 0, "path": "columnar", "seed": 4, "merge": {"order": "none"}, "below_min": True,
            "tables": [{"nrows": 12, "cols": [{"name": "x", "kind": "u64", "pattern": "gcd", "card": "full", "present": "all", "density": 0, "expect_type": "i64"}]}]}
    n_before, kf_before = len(ctx.violations), len(ctx.kf_seen)
    units, n_ok = run_cases(ctx, [case], "kf_below_min")
    ctx.cov["kf_below_min_reproduced"] = not (n_ok == 1 and len(ctx.violations) == n_before and len(ctx.kf_seen) == kf_before)
    if not ctx.cov["kf_below_min_reproduced"]:
        log("[C08] note: the recorded finding (value range entirely below the minimum) did not reproduce")


def selftest(ctx, units):
    u = next((x for x in units if any(e.get("ev") == "read" and "rows" in e and any(len(c.get("flat", [])) > 3 for c in e["cols"]) for e in x)), None)
    if not u:
        return
    for name in ("merged_value_changed", "merged_rows_swapped_in_mapping", "range_lookup_row_dropped", "dictionary_unsorted"):
        t = json.loads(json.dumps(u))
        e = next(e for e in t if e.get("ev") == "read" and "rows" in e and any(len(c.get("flat", [])) > 3 for c in e["cols"]))
        c = next(c for c in e["cols"] if len(c.get("flat", [])) > 3)
        if name == "merged_value_changed":
            c["flat"][0] = c["flat"][0] + 1 if c["flat"][0] + 1 < c["max_upto"] else c["flat"][0] - 1
            c["ranges"] = []
            if len(set(c["flat"])) == 1:
                continue
        elif name == "merged_rows_swapped_in_mapping":
            # find two rows with different content
            rows = [c["flat"][c["off"][i]:c["off"][i + 1]] for i in range(len(c["off"]) - 1)]
            j = next((j for j in range(1, len(rows)) if rows[j] != rows[0]), None)
            if j is None:
                continue
            e["rows"][0], e["rows"][j] = e["rows"][j], e["rows"][0]
        elif name == "range_lookup_row_dropped":
            rg = next((r for r in c.get("ranges", []) if r["rows"]), None)
            if not rg:
                continue
            rg["rows"].pop()
        else:
            dc = next((x for x in e["cols"] if len(x.get("dict", [])) >= 2), None)
            if not dc:
                continue
            dc["dict"][0], dc["dict"][1] = dc["dict"][1], dc["dict"][0]
        _fid.must_reject(ctx, MOD, CFG, t, name, timeout=300)


def run(ctx):
    ctx.cov["rule"] = ("a case is one set of tables (rows x columns generated from TLC-enumerated column shapes) written through the columnar "
                       "crate or through IndexWriter, read back completely, merged (stack / shuffle with deletes) and read back again; "
                       "distinct = distinct case (column shapes x merge shape x seed)")
    ctx.assumptions += ["TLC and the Json community module are trusted",
                        "values reach TLC as ranks in the sorted list of distinct values of the column (the harness sorts; TLC checks the list is duplicate free)",
                        "numerical columns of mixed types only hold values that f64 represents exactly whenever the coerced type is f64 (the documented coercion is lossy otherwise)",
                        "in the index path the input row of a document is taken from the stored `id` field (independent of the columnar file)",
                        "the reported cardinality / minimum / maximum are only required to be consistent bounds, the numerical type only for freshly written columnars"]
    model_checking(ctx)
    rng = random.Random(ctx.seed)
    gen = _fid.tlc_cases(ctx, "Gen_Columns", "Gen_Columns.cfg", timeout=300)
    if len(gen) < 1500:
        raise vlib.ToolError("Gen_Columns produced too few cases")
    ctx.cov["generated_shapes"] = len(gen)
    cases = build_cases(ctx, gen, 110 if ctx.quick else 1100, 40 if ctx.quick else 400, 2 if ctx.quick else 12, rng)
    thr = threshold_cases(gen, len(cases), rng, ctx.quick)
    if len(thr) < 10:
        raise vlib.ToolError("Gen_Columns produced no threshold cases")
    ctx.cov["threshold_cases"] = len(thr)
    cases += thr
    units, n_ok = run_cases(ctx, cases, "columns")
    log(f"[R/T] {len(cases)} cases from {len(gen)} TLC-generated column / merge shapes, {n_ok} accepted; {ctx.cov['columns']}")
    known_finding_run(ctx)
    known_finding_below_min(ctx)
    selftest(ctx, units)
    ctx.sample({"kind": "case (column shapes from TLC, concretised)", "case": cases[0]})
    e = next((e for u in units for e in u if e.get("ev") == "read" and "rows" in e), None)
    e = next((e for u in units for e in u if e.get("ev") == "read" and "rows" in e and e["cols"]), None)
    if e:
        c = e["cols"][0]
        ctx.sample({"kind": "a column of a merged columnar as read back (ranks)", "rows_map_head": e["rows"][:8],
                    "column": {k: (v if not isinstance(v, list) or len(v) <= 16 else v[:16] + ["..."]) for k, v in c.items()}})


def replay(ctx, path):
    files = [os.path.join(path, f) for f in sorted(os.listdir(path)) if f.endswith(".ndjson")] if os.path.isdir(path) else [path]
    for f in files:
        ev = _fid.clean(vlib.read_ndjson(f))
        _fid.judge_units(ctx, MOD, CFG, [ev], "replay")
