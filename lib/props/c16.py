"""C16 - the query parser is total and implements its documented grammar.
M: MC_Grammar - lemmas of the meaning part of spec/Grammar.tla (AND tighter than OR, + / -, default
   modes, groups, neutral parentheses / boosts, all-negative queries) and of its printer, on every
   query a small machine builds; the opposite precedence (negative configuration) must fail.
R (totality): TLC enumerates every token string up to length 4 (quick) / 5 (thorough) over the 26
   lexical classes of Grammar!Alphabet (minus the shapes of the recorded findings), random longer
   token strings and repetitions (nesting to depth 500, 20,000-fold flat repetition); the harness
   gives each to parse_query, parse_query_lenient, QueryParser::parse_query(_lenient) in a child
   process under a 2 s / memory watchdog.  Panic, time-out, memory blow-up and crash are events no
   action of spec/GrammarTrace.tla accepts.
R (meaning): TLC generates abstract queries (depth <= 3) and prints each in three ways; the harness
   parses the texts in default-OR and conjunction mode and searches a corpus the specification
   defines; TLC recomputes the match sets.  Field groups `f:( ... )` carry every decoration on their
   members (markers, boosts ^2 ^2.5 ^0.5, parentheses, nested boosts, chains, phrases with slop, inner
   groups): the group's field must reach every word below it - also judged through a QueryParser
   WITHOUT default field (a fully scoped query means the same, any other is refused).  Phrases keep the
   positions the analyzer gives their words: phrases with an over-long word (45 letters, dropped by the
   `default` analyzer) in the middle / in front / at the end / twice, on a corpus holding the literal phrase,
   the remaining words adjacent, and with another word between.  Marker x operator interaction: every chain of 2..3
   operands joined by AND / OR / juxtaposition with each operand bare or marked + / - / NOT
   (624 shapes, exhaustive), and random such chains inside the generated queries.
Recorded findings are reproduced by small dedicated runs."""
import json
import os
import re

import vlib
from vlib import log
from props import enginelib as el

LEVEL = "model_checking"
MODULE, CFG = "GrammarTrace", "GrammarTrace.cfg"
JOBS = 6


def fixed_ids():
    """findings of C16 repaired in /repo (`fixed:` lines of known_findings.json, or C16_ASSUME_FIXED=C16-e for a
    trial against a patched tree): no longer steered around, their reproductions become regression cases"""
    ids = set(x for x in os.environ.get("C16_ASSUME_FIXED", "").split(",") if x)
    for line in vlib.load_known().get("fixed", []):
        if "property=C16" in line:
            ids.update(re.findall(r"\b(?:C16-[a-z]|F\d+)\b", line))
    return ids


def gen_raw(ctx, mode, simulate=None, seed=None, maxlen=4, timeout=600, workers=1):
    # C16-e (unbounded recursion) repaired by a nesting limit: nests around the limit and far beyond it
    depths = "{10, 62, 63, 64, 65, 1000, 100000}" if "C16-e" in fixed_ids() else "{10, 100, 500}"
    cfg = el.cfg_with("Gen_Grammar.cfg", Mode=f'"{mode}"', MaxLen=maxlen, NestedDepths=depths)
    cfgname = f"Gen_Grammar_{ctx.prop}_{os.getpid()}.cfg"
    path = os.path.join(vlib.SPEC, cfgname)
    open(path, "w").write(cfg)
    try:
        r = vlib.run_tlc("Gen_Grammar", cfgname, workers=workers, timeout=timeout, simulate=simulate, depth=3 if simulate else None,
                         extra=["-seed", str(seed)] if seed is not None else None, heap="8g")
    finally:
        os.remove(path)
    ctx.add_tlc(f"Gen_Grammar[{mode}]", r, kind="generator")
    if r.tool_error or r.violated or r.rc != 0:
        log(r.out[-3000:])
        raise vlib.ToolError(f"generator Gen_Grammar ({mode}) failed")
    return r


def tagged(out, tag):
    m = re.search(r'^<<\s*"%s",\s*"(.*)"\s*>>$' % tag, out, re.M)
    return json.loads(el.tla_unescape(m.group(1))) if m else None


def drive(ctx, header, lines, label, batch=2000, timeout=900, jobs=JOBS):
    """write the input file, run the supervised driver, return the cleaned events"""
    ip = ctx.path(f"{label}_inputs.ndjson")
    with open(ip, "w") as f:
        f.write(json.dumps(header) + "\n")
        for ln in lines:
            f.write(ln if isinstance(ln, str) else json.dumps(ln, separators=(",", ":")))
            f.write("\n")
    tp = ctx.path(f"{label}_trace.ndjson")
    vlib.run_bin("qparse_driver", ["run", "--in", ip, "--out", tp, "--jobs", jobs, "--batch", batch], timeout=timeout, mem_gb=16)
    ev = el.clean(vlib.read_ndjson(tp))
    for e in ev:
        if e["ev"] == "reset":
            e.pop("corpus", None)
            e.pop("alphabet", None)
        if e["ev"] == "tool_error":
            raise vlib.ToolError(f"qparse_driver: {e.get('why')}")
    return ev, ip


def per_event_runs(ev):
    """every observation is judged on its own: a `reset` in front of each event"""
    out = []
    for e in ev:
        if e["ev"] != "reset":
            out.append({"ev": "reset"})
            out.append(e)
    return out


def annotate(ev, ip):
    """crash events only carry the index of the input: add the input itself (for the report)"""
    idx = {e["i"] for e in ev if e["ev"] == "crash"}
    if idx:
        with open(ip) as f:
            for n, line in enumerate(f):
                if n in idx:
                    for e in ev:
                        if e["ev"] == "crash" and e["i"] == n:
                            e["input"] = line.strip()[:400]


def totality_key(run):
    return json.dumps(run[-1].get("inputs") or run[-1], sort_keys=True)[:2000]


def totality(ctx, label, lines, header, kf_tag=None, batch=2000, jobs=JOBS, max_findings=5):
    ev, ip = drive(ctx, header, lines, label, batch=batch, jobs=jobs)
    annotate(ev, ip)
    n_inputs = sum(len(e["inputs"]) for e in ev if e["ev"] == "batch")
    other = [e for e in ev if e["ev"] not in ("batch", "reset")]
    ok, bad = el.judge(ctx, MODULE, CFG, per_event_runs(ev), label, key=totality_key, nontrivial=lambda r: False, kf_tag=kf_tag, timeout=900, heap="8g", max_findings=max_findings)
    ctx.cov["totality_inputs"] = ctx.cov.get("totality_inputs", 0) + n_inputs
    ctx.cov["timeouts_crashes"] = ctx.cov.get("timeouts_crashes", 0) + len(other)
    return ev, n_inputs, bad


def strings_from(out):
    return ["[" + re.sub(r"\s+", "", m.group(1)) + "]" for m in re.finditer(r'<<\s*"S",\s*<<([\d,\s]*)>>\s*>>', out)]


def totality_enumeration(ctx):
    maxlen = 4 if ctx.quick else 5
    r = gen_raw(ctx, "strings", maxlen=maxlen, timeout=900, workers=6)
    alphabet = tagged(r.out, "ALPHABET")
    lines = strings_from(r.out)
    if not alphabet or len(lines) < 1000:
        raise vlib.ToolError("Gen_Grammar (strings) produced no input")
    header = {"kind": "totality", "alphabet": alphabet}
    ev, n, bad = totality(ctx, "tot", lines, header, batch=2000 if ctx.quick else 20000)
    ctx.cov["totality_enumeration"] = {"max_tokens": maxlen, "alphabet_size": len(alphabet), "strings": n, "rejected_batches": bad}
    ctx.sample({"kind": "token strings enumerated by TLC (first of %d), each given to the four parsers" % n,
                "strings": ["".join("".join(chr(c) for c in alphabet[t - 1]) for t in json.loads(x)) for x in lines[1000:1012]]})
    log(f"[R] totality: {n} strings up to {maxlen} tokens over {len(alphabet)} lexical classes, {bad} batches rejected")
    return header, n, ev


def totality_long(ctx, header, n):
    r = gen_raw(ctx, "long", simulate=n, seed=ctx.seed, timeout=600)
    lines = strings_from(r.out)
    reps, seen = [], set()
    for m in re.finditer(r'^<<\s*"REP",\s*"(.*)"\s*>>$', r.out, re.M):
        if m.group(1) not in seen:
            seen.add(m.group(1))
            reps.append({"rep": json.loads(el.tla_unescape(m.group(1)))})
    # The enumeration above is strict about every clause.  On random long strings the clause "lenient =
    # strict whenever strict succeeds" is the recorded finding F11 (its shapes cannot be listed
    # exhaustively: e.g. clauses juxtaposed without a blank, `a b(c)`): a batch whose only failures are
    # such disagreements is reported under that finding; panics, lenient failures, time-outs are not.
    def only_disagreements(run):
        obs = [o for e in run if e["ev"] == "batch" for o in e["obs"]]
        others = [e for e in run if e["ev"] not in ("batch", "reset")]
        clean = all(o[0] in (0, 1) and o[4] in (0, 1) and o[1] == 0 and o[5] == 0 for o in obs)
        return "lenient-disagrees-with-strict" if clean and not others else None
    ev, k, bad = totality(ctx, "long", lines + reps, header, batch=50, kf_tag=only_disagreements, max_findings=80)
    ctx.cov["totality_long"] = {"random_strings_6_to_30_tokens": len(lines), "repetition_inputs": len(reps), "rejected_batches": bad}
    if reps:
        ctx.sample({"kind": "repetition input pre^n mid post^n (token indices)", "input": reps[0]})
    log(f"[R] totality: {len(lines)} random long strings, {len(reps)} repetition inputs, {bad} batches rejected")
    return len(lines) + len(reps)


def meaning_key(run):
    e = run[-1]
    return json.dumps([e.get("q"), [o.get("text") for o in e.get("obs", [])]])


def meaning_nontrivial(run):
    q = run[-1].get("q")
    return bool(q) and q[0] in ("bool", "bin", "chain", "grp", "boost", "rng", "in", "ph")


def meaning(ctx, n):
    r = gen_raw(ctx, "queries", simulate=n, seed=ctx.seed, timeout=600)
    corpus = tagged(r.out, "CORPUS")
    cases, seen = [], set()
    for m in re.finditer(r'^<<\s*"CASE",\s*"(.*)"\s*>>$', r.out, re.M):
        if m.group(1) not in seen:
            seen.add(m.group(1))
            cases.append(json.loads(el.tla_unescape(m.group(1))))
    if not corpus or not cases:
        raise vlib.ToolError("Gen_Grammar (queries) produced no case")
    ev, _ = drive(ctx, {"kind": "meaning", "corpus": corpus}, cases, "meaning")
    ok, bad = el.judge(ctx, MODULE, CFG, per_event_runs(ev), "meaning", key=meaning_key, nontrivial=meaning_nontrivial, timeout=900)
    c = cases[min(3, len(cases) - 1)]
    ctx.sample({"kind": "abstract query generated by TLC and the texts it was printed as", "q": c["q"], "texts": ["".join(map(chr, t)) for t in c["texts"]]})
    ctx.cov["meaning"] = {"abstract_queries": len(cases), "texts_parsed": sum(len(c["texts"]) for c in cases), "modes": 3, "accepted": ok, "rejected": bad,
                          "corpus_docs": len(corpus["docs"])}
    log(f"[R] meaning: {len(cases)} abstract queries x 3 texts x 3 parsers (default OR, conjunction, no default field) x (strict, lenient): {ok} accepted, {bad} rejected")
    return ev, corpus


def chains(ctx, corpus):
    """every chain of 2..3 words over AND / OR / juxtaposition with each operand bare or marked + / - / NOT"""
    r = gen_raw(ctx, "chains", timeout=300)
    cases = [json.loads(el.tla_unescape(m.group(1))) for m in re.finditer(r'^<<\s*"CASE",\s*"(.*)"\s*>>$', r.out, re.M)]
    if len(cases) < 600:
        raise vlib.ToolError("Gen_Grammar (chains) produced too few cases")
    ev, _ = drive(ctx, {"kind": "meaning", "corpus": corpus}, cases, "chains")
    ok, bad = el.judge(ctx, MODULE, CFG, per_event_runs(ev), "chains", key=meaning_key, nontrivial=meaning_nontrivial, timeout=600)
    c = next(c for c in cases if c["q"][2] == ["OR", "AND"] and [i[0] for i in c["q"][1]] == ["", "-", ""])
    ctx.sample({"kind": "marker x operator chain (exhaustive family)", "q": c["q"], "texts": ["".join(map(chr, t)) for t in c["texts"]]})
    ctx.cov["marker_operator_chains"] = {"shapes": len(cases), "texts_parsed": 3 * len(cases), "modes": 2, "accepted": ok, "rejected": bad, "exhaustive": True}
    log(f"[R] chains: all {len(cases)} marker x operator shapes (2..3 operands; AND, OR, juxtaposition; bare, +, -, NOT) x 3 texts x 2 modes: {ok} accepted, {bad} rejected")


def T(s):
    return {"text": [ord(c) for c in s]}


KF_STRICT_PANIC = ["+ *", "- *", "*\u3000", "(*\u3000"]
KF_LENIENT = ["a:<", "a <", "a:/",                      # F11 as recorded in the design round
              "b:[1 TO 2 ]", "b:{1 TO * }",              # blank before the closing range bracket
              "b:>=-5^3",                                # negative bound followed by a boost
              "a:IN [ 'b' a]",                           # blank after `[` in front of a quoted element
              "a:-1*", "a:-1~2",                         # negative number with a prefix / slop mark
              'a a""', 'a ""a', "IN [ ]"]                # empty quotes next to a word; blank in an empty set
KF_DEEP = [{"rep": {"pre": [10], "n": 20000, "mid": [1], "post": [11]}},       # ((( ... a ... )))
           {"rep": {"pre": [19, 24], "n": 100000, "mid": [1], "post": []}}]    # NOT NOT ... a


def known_finding_runs(ctx, header, corpus):
    res = ctx.cov.setdefault("known_finding_runs", {})
    # F9: the strict parser panics on a bare `*` reached through its `exists` rule
    ev, _, bad = totality(ctx, "kf_f9", [T(s) for s in KF_STRICT_PANIC], header, kf_tag="strict-parser-panics-on-bare-star", batch=100, jobs=1)
    rep = [s for e in ev if e["ev"] == "batch" for s, o in zip(KF_STRICT_PANIC, e["obs"]) if 2 in (o[0], o[4])]
    res["F9 strict parser panic"] = {"reproduced": rep, "not_reproduced": [s for s in KF_STRICT_PANIC if s not in rep]}
    # F11 family: strict succeeds, lenient reports an error or builds another query
    ev, _, bad = totality(ctx, "kf_f11", [T(s) for s in KF_LENIENT], header, kf_tag="lenient-disagrees-with-strict", batch=100, jobs=1)
    rep = [s for e in ev if e["ev"] == "batch" for s, o in zip(KF_LENIENT, e["obs"]) if (o[0] == 0 and (o[2] != 0 or not o[3])) or (o[4] == 0 and (o[6] != 0 or not o[7]))]
    res["F11 lenient disagrees with strict"] = {"reproduced": rep, "not_reproduced": [s for s in KF_LENIENT if s not in rep]}
    # F51: a parenthesised group is one operand of its parent; when the parser removes a repeated clause from it
    # (`(ab AND ab)`: +ab +ab -> +ab) the group is left with one clause and dissolves into the parent TOGETHER WITH
    # that clause's marker: `ba (ab AND ab)` is read `ba +ab` (default OR mode), `ba (ab OR ab)` as `ba` with ab
    # optional (conjunction mode).  The texts are written so that the two clauses are equal for the parser.
    W = lambda t: [ord(c) for c in t]
    ab, ba = ["w", "title", 1], ["w", "title", 3]
    cases = [{"q": ["bool", [["", ba], ["", ["paren", ["bin", [ab, ab], ["AND"]]]]]], "texts": [W("title:ba (title:ab AND title:ab)"), W('title:ba ( title:"ab" AND title:"ab" )')]},
             {"q": ["bool", [["", ba], ["", ["paren", ["bin", [ab, ab], ["OR"]]]]]], "texts": [W("title:ba (title:ab OR title:ab)")]},
             {"q": ["bool", [["", ba], ["", ["paren", ["bool", [["+", ab], ["+", ab]]]]]]], "texts": [W("title:ba (+title:ab +title:ab)")]},
             {"q": ["grp", "title", [["", ba], ["", ["paren", ["bin", [["w", "", 1], ab], ["AND"]]]]]], "texts": [W("title:(ba (ab AND title:ab))")]}]
    ev, _ = drive(ctx, {"kind": "meaning", "corpus": corpus}, cases, "kf_f51", jobs=1)
    ok, bad = el.judge(ctx, MODULE, CFG, per_event_runs(ev), "kf_f51", key=meaning_key, nontrivial=meaning_nontrivial, kf_tag="repeated-clause-group-dissolves")
    res["F51 group left with one clause dissolves with its marker"] = {"cases": len(cases), "reproduced": bad}
    if "C16-e" in fixed_ids():
        deep_nesting(ctx, header)
    else:
        # unbounded recursion: deep nesting aborts the process (stack overflow)
        ev, _, bad = totality(ctx, "kf_deep", KF_DEEP, header, kf_tag="deep-nesting-stack-overflow", batch=1, jobs=1)
        res["deep nesting stack overflow"] = {"crash_events": sum(1 for e in ev if e["ev"] == "crash"), "inputs": len(KF_DEEP)}


NEST_FORMS = [([10], [1], [11]), ([12, 10], [1], [11]), ([2, 10], [1], [11]), ([19, 24], [1], []), ([10], [], [])]   # (((a)))  +(+(a))  a:(a:(a))  NOT NOT a  ((((


def deep_nesting(ctx, header):
    """after the repair of C16-e (nesting limit): nests on both sides of Grammar!NestingLimit and far beyond it come back
    as a query (within the limit) or as an error / a query with an error (beyond) - never as a crash.  One input per
    batch; the batch is handed to the judge as a `nested` event with its depth."""
    cases = [{"rep": {"pre": pre, "n": n, "mid": mid, "post": post}} for pre, mid, post in NEST_FORMS for n in (1, 10, 62, 63, 64, 65, 200, 3000, 100000)]
    ev, _ = drive(ctx, header, cases, "deep", batch=1, jobs=2)
    out = []
    for e in ev:
        if e["ev"] == "batch" and len(e["inputs"]) == 1 and isinstance(e["inputs"][0], dict):
            r = e["inputs"][0]["rep"]
            out.append({"ev": "nested", "n": r["n"], "closed": bool(r["mid"]) and (bool(r["post"]) or r["pre"] == [19, 24]), "pre": r["pre"], "obs": e["obs"][0]})
        else:
            out.append(e)
    ok, bad = el.judge(ctx, MODULE, CFG, per_event_runs(out), "deep", key=totality_key, nontrivial=lambda r: True, timeout=300)
    ctx.cov["totality_inputs"] = ctx.cov.get("totality_inputs", 0) + len(cases)
    ctx.cov.setdefault("known_finding_runs", {})["C16-e deep nesting (repaired: nesting limit)"] = {"nests": len(cases), "accepted": ok, "rejected": bad}
    log(f"[R] nesting limit: {len(cases)} nests of 1..100,000 levels: {ok} accepted, {bad} rejected")


def binding_selftest(ctx, tot_ev, mean_ev):
    b = next((e for e in tot_ev if e["ev"] == "batch" and len(e["obs"]) > 3), None)
    if b:
        for name, (pos, val) in {"totality_panic_code": (0, 2), "totality_lenient_error_after_strict_ok": (None, None), "totality_lenient_failed": (1, 1)}.items():
            c = json.loads(json.dumps(b))
            if pos is None:
                j = next((k for k, o in enumerate(c["obs"]) if o[0] == 0), None)
                if j is None:
                    continue
                c["obs"][j][2] = 1
            else:
                c["obs"][2][pos] = val
            el.must_reject(ctx, MODULE, CFG, [{"ev": "reset"}, c], name)
        el.must_reject(ctx, MODULE, CFG, [{"ev": "reset"}, {"ev": "timeout", "i": 1, "stage": "grammar_lenient"}], "timeout_event")
    m = next((e for e in mean_ev if e["ev"] == "meaning" and e["obs"][0]["or"].get("docs")), None)
    if m:
        c = json.loads(json.dumps(m))
        c["obs"][0]["or"]["docs"].pop()
        c["obs"][0]["or"]["ldocs"] = list(c["obs"][0]["or"]["docs"])
        el.must_reject(ctx, MODULE, CFG, [{"ev": "reset"}, c], "meaning_doc_removed")
        c = json.loads(json.dumps(m))
        c["obs"][-1]["and"]["lerrs"] = ["SyntaxError"]
        el.must_reject(ctx, MODULE, CFG, [{"ev": "reset"}, c], "meaning_lenient_error_added")


def run(ctx):
    ctx.cov["rule"] = ("totality: a case is one string given to the four parsers; distinct strings are counted by TLC (distinct states of the enumeration) "
                       "and every enumerated string of two or more tokens is non-trivial; meaning: a case is one abstract query with its printed texts; "
                       "distinct = distinct (query, texts); non-trivial = a composite query, a phrase, a range or a set")
    ctx.assumptions += ["TLC and the Json community module are trusted",
                        "the printer Grammar!PrintQ (blanks, redundant parentheses, quoting, escapes, elastic / bracket ranges) writes documented syntax only",
                        "two parses are 'the same' when the serialised UserInputAst (resp. the Debug form of the Query) are equal",
                        "`field:*` (exists) is accepted by the grammar and refused by QueryParser as an unsupported query: the specification follows the code there",
                        "text fields of the corpus are not fast fields (a range over a fast text field compares whole values, not words)"]
    vlib.mc_check(ctx, "MC_Grammar", "MC_Grammar_neg.cfg", expect_violation="OrBindsTighter", timeout=120, workers=2)
    vlib.mc_check(ctx, "MC_Grammar", "MC_Grammar_neg2.cfg", expect_violation="ExclusionIgnored", timeout=120, workers=2)
    vlib.mc_check(ctx, "MC_Grammar", "MC_Grammar.cfg", timeout=600, workers=6)
    header, n_enum, tot_ev = totality_enumeration(ctx)
    n_long = totality_long(ctx, header, 1500 if ctx.quick else 30000)
    mean_ev, corpus = meaning(ctx, 1500 if ctx.quick else 25000)
    chains(ctx, corpus)
    known_finding_runs(ctx, header, corpus)
    binding_selftest(ctx, tot_ev, mean_ev)
    # distinct strings of the enumeration are distinct states of TLC's enumeration (measured there)
    ctx.cov["evaluations"] += n_enum + n_long
    ctx.cov["distinct_nontrivial"] = len(ctx._distinct) + max(0, n_enum - len(header["alphabet"]))
    ctx.cov["exhaustive"] = False


def replay(ctx, path):
    files = [os.path.join(path, f) for f in sorted(os.listdir(path)) if f.endswith(".ndjson")] if os.path.isdir(path) else [path]
    for f in files:
        el.judge(ctx, MODULE, CFG, vlib.read_ndjson(f), "replay", key=totality_key)
