"""Helpers shared by the data-plane engines (C15, C16, C19): TLC as case generator, the harness as
executor, TLC as judge of the recorded observations.  Not a property by itself."""
import json
import os
import re

import vlib
from vlib import log


def tlc_cases(ctx, module, cfg_text, tags=("CASE",), simulate=None, depth=None, seed=None, timeout=300, workers=1, name=None):
    """Run a generator specification with the given configuration text; return {tag: [json, ...]}
    for every `PrintT(<<tag, ToJson(x)>>)` line (duplicates removed, order kept)."""
    cfgname = f"{module}_{ctx.prop}_{os.getpid()}.cfg"
    path = os.path.join(vlib.SPEC, cfgname)
    with open(path, "w") as f:
        f.write(cfg_text)
    try:
        extra = ["-seed", str(seed)] if seed is not None else None
        r = vlib.run_tlc(module, cfgname, workers=workers, timeout=timeout, simulate=simulate, depth=depth, extra=extra, heap="6g")
    finally:
        os.remove(path)
    ctx.add_tlc(name or module, r, kind="generator")
    if r.tool_error or r.violated or r.rc != 0:
        out = ctx.path(f"{module}.gen.tlc.out")
        open(out, "w").write(r.out)
        log(r.out[-3000:])
        raise vlib.ToolError(f"generator {module} failed")
    res = {t: [] for t in tags}
    seen = set()
    # (TLC wraps a printed tuple of medium length over several lines; the JSON string itself never is)
    for m in re.finditer(r'^<<\s*"(\w+)",\s*"(.*)"\s*>>$', r.out, re.M):
        tag, s = m.group(1), m.group(2)
        if tag not in res or (tag, s) in seen:
            continue
        seen.add((tag, s))
        res[tag].append(json.loads(tla_unescape(s)))
    return res


def tla_unescape(s):
    """undo the escaping of a TLA+ string literal as printed by TLC (\\" and \\\\ only; the payload
    is JSON whose own escapes must survive)"""
    out, i = [], 0
    while i < len(s):
        c = s[i]
        if c == "\\" and i + 1 < len(s) and s[i + 1] in '"\\':
            out.append(s[i + 1])
            i += 2
        else:
            out.append(c)
            i += 1
    return "".join(out)


def cfg_with(cfg_file, **consts):
    """text of spec/<cfg_file> with `Name = value` constants replaced"""
    text = open(os.path.join(vlib.SPEC, cfg_file)).read()
    for k, v in consts.items():
        text, n = re.subn(rf"^(\s*){k} = .*$", lambda m: f"{m.group(1)}{k} = {v}", text, flags=re.M)
        if n != 1:
            raise vlib.ToolError(f"{cfg_file}: constant {k} not found")
    return text


def clean(events, drop=("seq", "th")):
    out = []
    for e in events:
        e = vlib.strip_nulls(e)
        for k in drop:
            e.pop(k, None)
        out.append(e)
    return out


def judge(ctx, module, cfg, events, label, key=None, nontrivial=None, kf_tag=None, timeout=300, heap="4g", max_findings=5):
    """Validate a concatenated trace (runs start at `reset` events).  A rejected run is isolated,
    reported through ctx.violation (known findings are recognised there) and validation goes on
    with the remaining runs.  Returns (#runs accepted, #runs rejected)."""
    runs = vlib.split_runs(events)
    accepted, rejected, rounds = 0, 0, 0
    pending = runs
    while pending:
        rounds += 1
        flat = [e for r in pending for e in r]
        path = ctx.path(f"{label}.{rounds}.ndjson")
        vlib.write_ndjson(path, flat)
        ok, r = vlib.validate_trace(ctx, module, cfg, path, name=f"{label}.{rounds}", timeout=timeout, heap=heap)
        if ok:
            accepted += len(pending)
            for run in pending:
                ctx.distinct(key(run) if key else json.dumps(run, sort_keys=True), nontrivial(run) if nontrivial else True)
            break
        if r.rejected:
            line = int(r.rejected[0][0])
            why = f"trace rejected by {module}: no action of the specification explains event {line}: {r.rejected[0][1][:1200]}"
        else:
            m = re.findall(r"/\\ l = (\d+)\s*$", r.out, re.M)
            line = max(int(m[-1]) - 1 if m else 1, r.generated - 1, 1)
            why = f"{module}: {', '.join(r.violated) or 'error'} at trace line {line}"
        pos, bad = 0, len(pending) - 1
        for i, run in enumerate(pending):
            if pos < line <= pos + len(run):
                bad = i
                break
            pos += len(run)
        badrun = pending[bad]
        rp = ctx.path(f"{label}.rejected.{rounds}.ndjson")
        vlib.write_ndjson(rp, badrun)
        outp = ctx.path(f"{label}.rejected.{rounds}.tlc.out")
        open(outp, "w").write(r.out)
        first = json.dumps(badrun[min(len(badrun) - 1, max(0, line - pos - 1))])[:2500]
        tag = kf_tag(badrun) if callable(kf_tag) else kf_tag
        if tag:
            why = f"[kf:{tag}] " + why
        ctx.violation(why, [rp, outp], "run header: " + json.dumps(badrun[0])[:600] + "\nunexplained event: " + first)
        rejected += 1
        accepted += bad
        for run in pending[:bad]:
            ctx.distinct(key(run) if key else json.dumps(run, sort_keys=True), nontrivial(run) if nontrivial else True)
        pending = pending[bad + 1:]
        if rejected >= max_findings and pending:
            log(f"[judge] {label}: {rejected} rejected runs reported, {len(pending)} runs left unjudged")
            break
    ctx.cov["traces_validated_against_impl"] += accepted
    return accepted, rejected


def must_reject(ctx, module, cfg, events, name, timeout=120):
    """binding self-test: a corrupted copy of an accepted trace has to be rejected"""
    p = ctx.path(f"selftest_{name}.ndjson")
    vlib.write_ndjson(p, events)
    r = vlib.run_tlc(module, cfg, workers=1, timeout=timeout, trace=p, deque=True, heap="2g")
    res = "rejected" if not r.ok else "ACCEPTED"
    ctx.cov["binding_selftest"][name] = res
    if res == "ACCEPTED":
        raise vlib.ToolError(f"binding self-test: corrupted trace ({name}) was accepted by {module}")
    return res
