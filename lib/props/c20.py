"""C20 - checksum validation detects any corruption of a segment file.
M: Footer.tla (write pipeline BufWriter -> FooterProxy -> underlying writer with short writes; file
   layout; OpenRead / Validate; damage lemmas with the real CRC-32) model checked by TLC, with a
   negative configuration (the proxy hashes what it offered instead of what was accepted).
R: TLC enumerates write programs (sizes around the 8 KiB buffer x short-write limits x flushes)
   and footer version values; footer_driver runs them through ManagedDirectory::open_write over a
   SimDir; FooterTrace recomputes the CRC-32 and judges every recorded call.
T: every file of generated indexes is damaged (every bit of small files, stratified bits of large
   ones, every truncation length, extensions, insertions, deletions, multi-byte damage);
   Index::validate_checksum / ManagedDirectory::validate_checksum are run on each damaged copy,
   the reported sets are judged by FooterTrace."""
import json
import os
import random

import vlib
from vlib import log
from props import _fid

LEVEL = "model_checking"
MOD, CFG = "FooterTrace", "FooterTrace.cfg"
CAP = 8192


def model_checking(ctx):
    vlib.mc_check(ctx, "MC_Footer", "MC_Footer_neg.cfg", expect_violation="HashedIsAccepted", timeout=300, workers=4)
    r = vlib.mc_check(ctx, "MC_Footer", "MC_Footer.cfg", coverage=True, timeout=300, workers=4)
    zero = [a for a in r.coverage_zero_actions()]
    if zero:
        raise vlib.ToolError(f"MC_Footer: actions never taken: {zero}")
    vlib.mc_check(ctx, "MC_Footer", "MC_Footer_full.cfg", timeout=300, workers=4)
    if not ctx.quick:
        vlib.mc_check(ctx, "MC_Footer", "MC_Footer_big.cfg", timeout=900, workers=6)


# ------------------------------------------------------------------ R: programs and versions
def describe_prog(unit, k, text):
    e = unit[k - 1]
    head = unit[0]
    small = {x: (v if not isinstance(v, list) or len(v) < 40 else f"<{len(v)} bytes>") for x, v in e.items()}
    prog = [[x.get("ev"), x.get("n")] for x in unit[1:k]]
    if e.get("ev") == "panic":
        what = f"panic in the write pipeline ({e.get('in')}): {e.get('msg')}"
    else:
        what = (f"FooterTrace rejects the {e.get('ev')} step of a write program (max_write={head.get('max_write')}): "
                f"the file is not data ++ footer(version, crc32(data)) / not a prefix of the data")
    return what, json.dumps({"program": prog, "event": small})[:4000]


def describe_ver(unit, k, text):
    e = unit[k - 1]
    small = {x: v for x, v in e.items() if x != "read_bytes"}
    return (f"footer version {e.get('v')} ({e.get('ev')}, file kind {e.get('f', 'plain').split('.')[-1]}): "
            f"read={e.get('read')} after={e.get('after', {}).get('st')} - not what the supported range prescribes"), json.dumps(small)[:3000]


def replay_generated(ctx):
    rng = random.Random(ctx.seed)
    cases = _fid.tlc_cases(ctx, "Gen_Footer", "Gen_Footer.cfg", timeout=300)
    progs = [c for c in cases if c["kind"] == "program"]
    vers = [c for c in cases if c["kind"] != "program"]
    if len(progs) < 1000 or len(vers) < 50:
        raise vlib.ToolError("Gen_Footer produced too few cases")
    ctx.cov["generated_programs"] = len(progs)
    # quick: all one-op programs of moderate size + a seeded sample; thorough: a large sample
    budget = 700_000 if ctx.quick else 9_000_000     # bytes whose CRC-32 TLC recomputes
    rng.shuffle(progs)
    progs.sort(key=lambda c: len(c["ops"]) > 1)       # one-op programs first (stable sort)
    chosen, tot = [], 0
    for c in progs:
        if tot + c["total"] > budget:
            continue
        chosen.append(c)
        tot += c["total"]
    for i, c in enumerate(chosen):
        c["id"] = i
    cp = ctx.path("programs.ndjson")
    vlib.write_ndjson(cp, chosen)
    tp = ctx.path("programs_trace.ndjson")
    vlib.run_bin("footer_driver", ["programs", "--in", cp, "--out", tp], timeout=600)
    ev = _fid.clean(vlib.read_ndjson(tp))
    units = _fid.split_units(ev, lambda e: e.get("ev") == "open")

    def acc(u):
        ops = [(e["ev"], e.get("n")) for e in u[1:-1]]
        tot_n = sum(n or 0 for _, n in ops)
        ctx.distinct(("prog", u[0].get("max_write"), json.dumps(ops)), tot_n >= CAP - 1 or u[0].get("max_write", 0) > 0)
    n_ok = _fid.judge_units(ctx, MOD, CFG, units, "programs", describe=describe_prog, on_accept=acc, timeout=600)
    log(f"[R] {len(chosen)} of {len(progs)} TLC-generated write programs ({tot} bytes) run through open_write over SimDir, {n_ok} accepted")
    si = next((i for i, c in enumerate(chosen) if c["total"] > CAP and c["max_write"] > 0 and len(c["ops"]) > 1 and i < len(units)), 0)
    ctx.sample({"kind": "TLC-generated write program (R)", "case": {k: v for k, v in chosen[si].items()},
                "recorded": [{k: (v if not isinstance(v, list) or len(v) < 20 else f"<{len(v)} bytes>") for k, v in e.items()} for e in units[si]]})
    # versions
    for i, c in enumerate(vers):
        c["id"] = i
    vp = ctx.path("versions.ndjson")
    vlib.write_ndjson(vp, vers)
    vt = ctx.path("versions_trace.ndjson")
    vlib.run_bin("footer_driver", ["versions", "--in", vp, "--out", vt, "--seed", ctx.seed], timeout=600)
    vev = _fid.clean(vlib.read_ndjson(vt))
    # the expectation TLC printed with the case is compared with what was observed, too
    by_id = {c["id"]: c for c in vers}
    for e in vev:
        c = by_id.get(e.get("case"))
        if c and c["expect"] != e.get("read"):
            ctx.violation(f"footer version {c['v']} ({e['ev']}, file kind {e.get('f', 'plain').split('.')[-1]}): read={e.get('read')}, "
                          f"the generator expected {c['expect']}", [vt], json.dumps(e)[:2000])
    vunits = [[e] for e in vev]
    n_ok = _fid.judge_units(ctx, MOD, CFG, vunits, "versions", describe=describe_ver,
                            on_accept=lambda u: ctx.distinct(("ver", u[0]["ev"], u[0]["v"], u[0].get("f", "").split(".")[-1]), True))
    log(f"[R] {len(vev)} footer-version cases ({len(vers)} generated; index-level ones need a file of that kind), {n_ok} accepted")
    ctx.sample({"kind": "footer version case (R)", "case": vers[-1], "recorded": {k: v for k, v in vev[-1].items() if k != "read_bytes"}})
    return units


# ------------------------------------------------------------------ T: damage
def pinpoint(ctx, index_ev, dmg_ev):
    """which observation of a grouped damage event is unexplained: re-judge them one by one"""
    single = [index_ev] + [dict(dmg_ev, obs=[o]) for o in dmg_ev["obs"]]
    p = ctx.path("pinpoint.ndjson")
    vlib.write_ndjson(p, single)
    r = vlib.run_tlc(MOD, CFG, workers=1, timeout=300, trace=p, deque=True, heap="4g")
    if r.ok:
        return None
    line, _ = _fid.rejected_line(r)
    return dmg_ev["obs"][max(0, min(line - 2, len(dmg_ev["obs"]) - 1))]


def describe_dmg(ctx):
    def d(unit, k, text):
        e = unit[k - 1]
        ext = e.get("f", "?").split(".")[-1]
        if e.get("ev") == "panic":
            return (f"panic while validating a damaged copy (.{ext} file, damage {e.get('k')} a={e.get('a')}): {e.get('msg')}",
                    json.dumps({"index": unit[0], "event": e})[:4000])
        if e.get("ev") == "dmg":
            o = pinpoint(ctx, unit[0], e)
            fi = [x for x in unit[0]["files"] if x["f"] == e["f"]]
            return (f"validate_checksum on a damaged copy (.{ext} file, damage {e['k']}): reported set does not match the damage: "
                    f"[a, b, c, err, reported, file-level] = {json.dumps(o)}", json.dumps({"file": fi, "obs": o, "index": unit[0]})[:4000])
        return (f"validate_checksum: {e.get('ev')} event not accepted (something reported on an intact index?): {json.dumps(e)[:500]}",
                json.dumps(unit[0])[:3000])
    return d


def damage(ctx, indexes, seed, label, extra=None):
    tp = ctx.path(f"{label}_trace.ndjson")
    vlib.run_bin("footer_driver", ["damage", "--seed", seed, "--indexes", indexes, "--out", tp] + (extra or []), timeout=900)
    ev = _fid.clean(vlib.read_ndjson(tp))
    units = _fid.split_units(ev, lambda e: e.get("ev") == "index")
    n_obs = 0

    def acc(u):
        nonlocal n_obs
        for e in u:
            if e.get("ev") == "dmg":
                for o in e["obs"]:
                    n_obs += 1
                    ctx.distinct((label, u[0]["id"], e["f"], e["k"], json.dumps(o[:3])), True)
    n_ok = _fid.judge_units(ctx, MOD, CFG, units, label, describe=describe_dmg(ctx), on_accept=acc, timeout=600)
    ctx.cov["damaged_copies"] = ctx.cov.get("damaged_copies", 0) + n_obs
    log(f"[T] {label}: {len(units)} generated indexes, {n_obs} damaged copies judged, {n_ok} indexes accepted")
    return units


def selftest(ctx, dmg_units, prog_units):
    """corrupted traces must be rejected"""
    u = json.loads(json.dumps(dmg_units[0]))
    # (a) a bit flip of the body reported as clean
    a = json.loads(json.dumps(u[:2]))
    a[1]["obs"] = a[1]["obs"][:3]
    a[1]["obs"][1][4] = []
    a[1]["obs"][1][5] = 0
    _fid.must_reject(ctx, MOD, CFG, a, "body_bitflip_not_reported")
    # (b) another file reported
    b = json.loads(json.dumps(u[:2]))
    b[1]["obs"] = b[1]["obs"][:3]
    b[1]["obs"][2][4] = ["s9.other"]
    _fid.must_reject(ctx, MOD, CFG, b, "other_file_reported")
    # (c) something reported on the intact index
    c = json.loads(json.dumps(u[:1]))
    c[0]["clean"]["rep"] = [c[0]["files"][0]["f"]]
    _fid.must_reject(ctx, MOD, CFG, c, "intact_index_reported")
    # (d) a write program whose footer carries another crc / whose file lost a byte
    p = json.loads(json.dumps(prog_units[0]))
    p[-1]["footer"]["crc16"][1] = (p[-1]["footer"]["crc16"][1] + 1) % 65536
    _fid.must_reject(ctx, MOD, CFG, p, "footer_crc_changed")
    big = [x for x in prog_units if x[-1].get("ev") == "close" and len(x[-1].get("file", [])) > 200]
    if big:
        p = json.loads(json.dumps(big[0]))
        p[-1]["file"][3] = (p[-1]["file"][3] + 1) % 256
        _fid.must_reject(ctx, MOD, CFG, p, "file_byte_changed")


def run(ctx):
    ctx.cov["rule"] = ("a case is one write program run through ManagedDirectory::open_write (distinct = distinct (max_write, op sequence); "
                       "non-trivial = at least buffer-size bytes or a short-write limit), one footer version value per file kind, or one "
                       "damaged copy of a segment file (distinct = (index, file, damage kind, position/argument)); all judged by TLC")
    ctx.assumptions += ["TLC and the Json community module are trusted; CRC-32 is computed in TLA+ (Footer!Crc32, check value CBF43926 asserted)",
                        "the payload of a footer is read with serde_json by the harness (as tantivy does); TLC checks the 8 trailing bytes, the lengths and the CRC itself",
                        "multi-byte damage longer than 32 bits, truncations, extensions, insertions, deletions are detected up to CRC-32 / magic-number collisions (2^-32)",
                        "a validate_checksum Err counts as detection"]
    model_checking(ctx)
    prog_units = replay_generated(ctx)
    if ctx.quick:
        du = damage(ctx, 3, ctx.seed, "damage_small")
        damage(ctx, 1, ctx.seed + 500, "damage_big", ["--big", "--full", 300, "--sample", 150])
    else:
        du = damage(ctx, 24, ctx.seed, "damage_small", ["--full", 2000])
        damage(ctx, 6, ctx.seed + 500, "damage_big", ["--big", "--full", 1200, "--sample", 1200])
    if du and prog_units:
        selftest(ctx, du, prog_units)
    if du:
        u = du[0]
        ctx.sample({"kind": "damaged copies of one file of a generated index (T): [a, b, c, err, reported, file-level]",
                    "index_files": u[0]["files"], "file": u[1]["f"], "damage": u[1]["k"], "observations": u[1]["obs"][:6]})


def replay(ctx, path):
    files = [os.path.join(path, f) for f in sorted(os.listdir(path)) if f.endswith(".ndjson")] if os.path.isdir(path) else [path]
    for f in files:
        ev = _fid.clean(vlib.read_ndjson(f))
        _fid.judge_units(ctx, MOD, CFG, [ev], "replay")
