"""C19 - tokens and snippets always point inside the text, on character boundaries.
M: MC_Tokens - on every text up to 4 code points (9 classes) the token sequences that
   spec/Tokens.tla prescribes for every exact chain satisfy the property's invariants, plus lemmas
   (offsets, n-gram counts, coverage of the simple / white-space tokenizers, range collapsing,
   HTML rendering); a byte-granular n-gram cutter (negative configuration) must fail.
R: Gen_Tokens - TLC enumerates every text up to 3 (quick) / 4 (thorough) code points over 15
   code-point classes (1..4-byte, a combining mark, upper-case letters whose lower case changes the
   byte length, blanks in and outside ASCII, NUL, HTML-special characters) and the harness runs 40
   analyzer chains on each: raw, white-space, simple, n-gram (min/max/prefix-only), facet
   tokenizers with lower-caser, ASCII folding, remove-long, alphanumeric-only, stop-word filters
   (exact token sequences), the regex tokenizer with nullable patterns \\w* [a-z]* [0-9]+| x* (exact: the
   maximal class run at the start of the text, the stream ends at the first empty match) and stemmer,
   compound splitter, non-nullable regex tokenizer (offset invariants);
   chains 23.. put the compound splitter (and stemmer, alphanumeric-only, stop words, remove-long)
   BEHIND the filters that change the byte length of a token (lower-caser, ASCII folding) and
   behind a stemmer, and filters behind the splitter;
   snippet cases (text x chain x terms x max_num_chars) through the real SnippetGenerator, also
   through the splitter chains (terms = pieces of the normalised words);
   compound cases: word-rich texts over characters whose folded / lower-cased form has another
   byte length, splitter dictionary cut by TLC out of the normalised words of that very text,
   splitter behind lower-caser / ASCII folding / stemmer: token run + snippet per case.
T: random texts of 6..40 and 150..400 code points; run-length texts up to a million bytes.
Every observation is judged by TLC against spec/TokensTrace.tla."""
import json
import os
import re

import vlib
from vlib import log
from props import enginelib as el

LEVEL = "model_checking"
MODULE, CFG = "TokensTrace", "TokensTrace.cfg"


def gen(ctx, mode, simulate=None, maxlen=3, na=15, seed=None, timeout=600, workers=1):
    # C19-a repaired (fixed: line of known_findings.json, or C19_ASSUME_FIXED=C19-a): the overlapping snippet chains are
    # steered like the others (by characters), no longer by bytes
    fixed = "C19-a" in os.environ.get("C19_ASSUME_FIXED", "") or any("C19-a" in x for x in vlib.load_known().get("fixed", []))
    cfg = el.cfg_with("Gen_Tokens.cfg", Mode=f'"{mode}"', MaxLen=maxlen, NA=na, SteerOverlapBytes="FALSE" if fixed else "TRUE")
    name = f"Gen_Tokens_{ctx.prop}_{os.getpid()}.cfg"
    path = os.path.join(vlib.SPEC, name)
    open(path, "w").write(cfg)
    try:
        r = vlib.run_tlc("Gen_Tokens", name, workers=workers, timeout=timeout, simulate=simulate, depth=3 if simulate else None,
                         extra=["-seed", str(seed)] if seed is not None else None, heap="6g")
    finally:
        os.remove(path)
    ctx.add_tlc(f"Gen_Tokens[{mode}]", r, kind="generator")
    if r.tool_error or r.violated or r.rc != 0:
        log(r.out[-3000:])
        raise vlib.ToolError(f"generator Gen_Tokens ({mode}) failed")
    return r.out


def tagged_all(out, tag):
    res, seen = [], set()
    for m in re.finditer(r'^<<\s*"%s",\s*"(.*)"\s*>>$' % tag, out, re.M):
        if m.group(1) not in seen:
            seen.add(m.group(1))
            res.append(json.loads(el.tla_unescape(m.group(1))))
    return res


def texts_of(out):
    seen, res = set(), []
    for m in re.finditer(r'<<\s*"T",\s*<<([\d,\s]*)>>\s*>>', out):
        t = "[" + re.sub(r"\s+", "", m.group(1)) + "]"
        if t not in seen:
            seen.add(t)
            res.append(t)
    return res


def drive(ctx, chains, lines, label, timeout=900):
    ip = ctx.path(f"{label}_inputs.ndjson")
    with open(ip, "w") as f:
        f.write(json.dumps({"chains": chains}) + "\n")
        for ln in lines:
            f.write((ln if isinstance(ln, str) else json.dumps(ln, separators=(",", ":"))) + "\n")
    tp = ctx.path(f"{label}_trace.ndjson")
    vlib.run_bin("tokens_driver", ["run", "--in", ip, "--out", tp], timeout=timeout)
    return el.clean(vlib.read_ndjson(tp))


def per_event_runs(ev, chains):
    out = []
    for e in ev:
        if e["ev"] != "reset":
            out.append({"ev": "reset", "chains": chains})
            out.append(e)
    return out


def key(run):
    e = run[-1]
    return json.dumps([e.get("ev"), e.get("text"), e.get("runs"), e.get("chain"), e.get("terms"), e.get("max")])


def nontrivial(run):
    e = run[-1]
    if e["ev"] in ("tok", "tok1"):
        return len(e["text"]) >= 2 and any(c >= 128 for c in e["text"])
    if e["ev"] == "snip":
        return bool(e["highlighted"])
    return True


def judge(ctx, ev, chains, label, kf_tag=None):
    ctx.cov["events"] = ctx.cov.get("events", 0) + len(ev)
    ctx.cov["panics"] = ctx.cov.get("panics", 0) + sum(1 for e in ev if e["ev"] == "panic") + \
        sum(1 for e in ev if e["ev"] == "tok" for o in e["obs"] if len(o) != 2)
    ctx.cov["token_sequences"] = ctx.cov.get("token_sequences", 0) + sum(len(e["obs"]) for e in ev if e["ev"] == "tok") + \
        sum(1 for e in ev if e["ev"] == "tok1")
    return el.judge(ctx, MODULE, CFG, per_event_runs(ev, chains), label, key=key, nontrivial=nontrivial, kf_tag=kf_tag, timeout=900, heap="6g")


def enumeration(ctx):
    maxlen = 3 if ctx.quick else 4
    out = gen(ctx, "texts", maxlen=maxlen, workers=4)
    chains = tagged_all(out, "CHAINS")[0]
    texts = ["[]"] + texts_of(out)
    if len(texts) < 100:
        raise vlib.ToolError("Gen_Tokens (texts) produced no text")
    ev = drive(ctx, chains, texts, "enum")
    ok, bad = judge(ctx, ev, chains, "enum")
    ctx.cov["enumeration"] = {"max_code_points": maxlen, "classes": 15, "texts": len(texts), "chains": len(chains), "accepted": ok, "rejected": bad}
    ctx.sample({"kind": "analyzer chains (tokenizer, filters, exact = token texts specified)", "chains": chains[:6] + chains[18:21]})
    t = next(e for e in ev if e["ev"] == "tok" and len(e["text"]) == 3 and any(c > 127 for c in e["text"]))
    ctx.sample({"kind": "one enumerated text with the tokens two chains emitted [from, to, position, text]", "text": t["text"],
                "simple+lower": t["obs"][5], "ngram(2,3)": t["obs"][12]})
    log(f"[R] {len(texts)} texts up to {maxlen} code points x {len(chains)} chains: {ok} accepted, {bad} rejected")
    return chains, ev


def sampled(ctx, chains, mode, n, label):
    out = gen(ctx, mode, simulate=n, seed=ctx.seed)
    texts = texts_of(out)
    if not texts:
        raise vlib.ToolError(f"Gen_Tokens ({mode}) produced no text")
    ev = drive(ctx, chains, texts, label)
    ok, bad = judge(ctx, ev, chains, label)
    log(f"[T] {len(texts)} random texts ({mode}) x {len(chains)} chains: {ok} accepted, {bad} rejected")
    return len(texts)


def snippets(ctx, chains, n):
    out = gen(ctx, "snippets", simulate=n, seed=ctx.seed + 1)
    cases = [{"sn": c} for c in tagged_all(out, "SN")]
    if not cases:
        raise vlib.ToolError("Gen_Tokens (snippets) produced no case")
    ev = drive(ctx, chains, cases, "snip")
    ok, bad = judge(ctx, ev, chains, "snip")
    hl = [e for e in ev if e["ev"] == "snip" and e["highlighted"]]
    ctx.cov["snippets"] = {"cases": len(cases), "with_highlights": len(hl), "accepted": ok, "rejected": bad}
    if hl:
        e = hl[min(5, len(hl) - 1)]
        ctx.sample({"kind": "snippet observation", "text": "".join(map(chr, e["text"])), "terms": ["".join(map(chr, t)) for t in e["terms"]], "max_num_chars": e["max"],
                    "fragment": "".join(map(chr, e["fragment"])), "highlighted": e["highlighted"], "html": "".join(map(chr, e["html"]))})
    log(f"[R] {len(cases)} snippet cases ({len(hl)} with highlights): {ok} accepted, {bad} rejected")
    return ev


LENGTH_CHANGING = {233, 201, 304, 570, 223}      # e-acute, E-acute, I-dot, A-stroke, sharp s


def was_split(tokens):
    """coverage only: two consecutive tokens with one position = parts of one compound (simple / white-space tokenizers)"""
    return any(a[2] == b[2] for a, b in zip(tokens, tokens[1:]))


def compounds(ctx, chains, n):
    """splitter with a dictionary cut out of the words of the text, behind byte-length-changing filters"""
    out = gen(ctx, "compound", simulate=n, seed=ctx.seed + 2)
    cases = tagged_all(out, "CP")
    if not cases:
        raise vlib.ToolError("Gen_Tokens (compound) produced no case")
    lines = []
    for c in cases:
        lines.append({"tk": {"text": c["text"], "chain": c["chain"]}})
        lines.append({"sn": c})
    ev = drive(ctx, chains, lines, "compound")
    ok, bad = judge(ctx, ev, chains, "compound")
    toks = [e for e in ev if e["ev"] == "tok1"]
    hl = [e for e in ev if e["ev"] == "snip" and e["highlighted"]]
    split = [e for e in toks if e["chain"]["tok"][0] in ("simple", "whitespace") and was_split(e["tokens"])]
    ctx.cov["compound_splitter_cases"] = {
        "cases": len(cases), "token_runs": len(toks), "token_runs_with_a_split_word": len(split),
        "of_these_with_a_byte_length_changing_character": sum(1 for e in split if LENGTH_CHANGING & set(e["text"])),
        "splitter_behind_a_stemmer": sum(1 for c in cases if ["stemmer"] in c["chain"]["filters"][:[f[0] for f in c["chain"]["filters"]].index("splitcompound")]),
        "snippets_with_highlights": len(hl), "accepted": ok, "rejected": bad}
    if split:
        e = next((x for x in split if LENGTH_CHANGING & set(x["text"])), split[0])
        ctx.sample({"kind": "compound case: text, chain (dictionary cut out of the normalised words), tokens [from, to, position, text]",
                    "text": "".join(map(chr, e["text"])), "tokenizer": e["chain"]["tok"],
                    "filters": [[f[0], ["".join(map(chr, w)) for w in f[1]]] if f[0] == "splitcompound" else f for f in e["chain"]["filters"]],
                    "tokens": [[t[0], t[1], t[2], "".join(map(chr, t[3]))] for t in e["tokens"][:12]]})
    log(f"[R] {len(cases)} compound cases ({len(split)} token runs with a split word, {len(hl)} snippets with highlights): {ok} accepted, {bad} rejected")
    return ev


def big(ctx, chains):
    out = gen(ctx, "big")
    cases = [{"big": c} for c in tagged_all(out, "BIG")]
    ev = drive(ctx, chains, cases, "big")
    ok, bad = judge(ctx, ev, chains, "big")
    ctx.cov["huge_texts"] = {"cases": len(cases), "max_bytes": max((e.get("bytes", 0) for e in ev), default=0), "accepted": ok, "rejected": bad}
    log(f"[T] {len(cases)} run-length texts up to {ctx.cov['huge_texts']['max_bytes']} bytes: {ok} accepted, {bad} rejected")


def known_finding_runs(ctx, chains):
    """F12: a token longer than max_num_chars comes back as a fragment longer than the limit.
    C19-a: with overlapping tokens (n-grams 1..3: a, ab, abc, b, ...) the end of the fragment moves BACK after such a
    token (FragmentCandidate::try_add_token sets stop_offset = token.offset_to): the highlighted range of the long token
    lies outside the fragment and Snippet::to_html panics.  Same precondition as F12 (a matched token longer than
    max_num_chars); once stop_offset is kept monotonic these cases are plain F12 cases."""
    cases = [{"sn": {"text": [97, 98, 128512], "chain": 6, "terms": [[97, 98]], "max": 1}},
             {"sn": {"text": [97, 32, 20013, 20013, 20013, 32, 97], "chain": 18, "terms": [[20013, 20013, 20013]], "max": 2}}]
    ev = drive(ctx, chains, cases, "kf_f12")
    ok, bad = judge(ctx, ev, chains, "kf_f12", kf_tag="snippet-longer-than-max-num-chars")
    ctx.cov.setdefault("known_finding_runs", {})["F12 snippet longer than max_num_chars"] = {"reproduced": bad, "cases": len(cases)}
    overlap = [{"sn": {"text": [97, 98, 99, 100], "chain": 41, "terms": [[97, 98, 99]], "max": 2}},
               {"sn": {"text": [97, 98, 99, 100, 101, 102], "chain": 42, "terms": [[97, 98, 99, 100]], "max": 3}},
               # (no more characters than max_num_chars, but more bytes: not an F12 case)
               {"sn": {"text": [304, 304, 769, 60, 128512], "chain": 41, "terms": [[769, 60, 128512]], "max": 5}},
               {"sn": {"text": [233, 66, 304, 233], "chain": 43, "terms": [[101, 98, 105, 775, 101]], "max": 5}}]
    known = vlib.load_known()
    if not (any(k.get("id") == "C19-a" for k in known.get("known", [])) or any("C19-a" in x for x in known.get("fixed", []))
            or os.environ.get("C19_RUN_OVERLAP")):
        # proposed finding, not recorded yet: the reproduction would be an unlisted violation
        ctx.cov["known_finding_runs"]["C19-a highlight outside the fragment (overlapping tokens)"] = "skipped: C19-a neither recorded nor fixed in known_findings.json"
        log("[kf] C19-a reproduction skipped (C19-a is neither a known nor a fixed finding in known_findings.json)")
        return
    ev = drive(ctx, chains, overlap, "kf_overlap")
    tag = lambda run: "snippet-highlight-outside-fragment" if run[-1]["ev"] == "panic" else "snippet-longer-than-max-num-chars"
    ok, bad = judge(ctx, ev, chains, "kf_overlap", kf_tag=tag)
    ctx.cov["known_finding_runs"]["C19-a highlight outside the fragment (overlapping tokens)"] = {
        "panics": sum(1 for e in ev if e["ev"] == "panic"), "rejected": bad, "cases": len(overlap)}


def binding_selftest(ctx, chains, enum_ev, snip_ev, comp_ev):
    t = next(e for e in enum_ev if e["ev"] == "tok" and len(e["text"]) == 3 and e["text"][0] > 127 and len(e["obs"][4][1]) > 0)

    def mut(fn, name):
        c = json.loads(json.dumps(t))
        fn(c)
        el.must_reject(ctx, MODULE, CFG, [{"ev": "reset", "chains": chains}, c], name)
    mut(lambda c: c["obs"][4][1][0].__setitem__(0, c["obs"][4][1][0][0] + 1), "token_offset_off_boundary")
    mut(lambda c: c["obs"][10][1].pop(), "ngram_token_dropped")
    mut(lambda c: c["obs"][5][1][0].__setitem__(3, c["obs"][5][1][0][3] + [97]), "token_text_changed")
    mut(lambda c: c["obs"][18][1][0].__setitem__(1, c["obs"][18][1][0][1] + 100), "inexact_chain_offset_outside_text")
    s = next((e for e in snip_ev if e["ev"] == "snip" and e["highlighted"]), None)
    if s:
        c = json.loads(json.dumps(s))
        c["fragment"] = c["fragment"] + [122, 122]
        el.must_reject(ctx, MODULE, CFG, [{"ev": "reset", "chains": chains}, c], "snippet_fragment_not_substring")
        c = json.loads(json.dumps(s))
        c["html"] = c["html"][:-1]
        el.must_reject(ctx, MODULE, CFG, [{"ev": "reset", "chains": chains}, c], "snippet_html_changed")
        c = json.loads(json.dumps(s))
        c["highlighted"][0][1] += 1
        el.must_reject(ctx, MODULE, CFG, [{"ev": "reset", "chains": chains}, c], "snippet_range_moved")
    el.must_reject(ctx, MODULE, CFG, [{"ev": "reset", "chains": chains}, {"ev": "panic", "op": "snippet", "msg": "byte index 1 is not a char boundary"}], "panic_event")
    # a part of a compound that ends inside a multi-byte character / behind the text
    t = next(e for e in enum_ev if e["ev"] == "tok" and e["text"] == [233, 97, 233])
    mut(lambda c: c["obs"][22][1][0].__setitem__(1, c["obs"][22][1][0][1] - 1), "compound_part_ends_inside_a_character")
    c1 = next((e for e in comp_ev if e["ev"] == "tok1" and e["tokens"]), None)
    if c1:
        c = json.loads(json.dumps(c1))
        c["tokens"][-1][1] = sum(len(chr(x).encode()) for x in c["text"]) + 1
        el.must_reject(ctx, MODULE, CFG, [{"ev": "reset", "chains": chains}, c], "compound_part_past_the_end")


def run(ctx):
    ctx.cov["rule"] = ("a case is one text with the token sequences of all analyzer chains, one token run of one chain with a dictionary of its own, "
                       "one snippet request, or one huge run-length text with one chain; distinct = distinct (text, chain, terms, max); non-trivial = a text of two or more code points with a multi-byte one, or a "
                       "snippet with at least one highlighted range")
    ctx.assumptions += ["TLC and the Json community module are trusted",
                        "code-point classes (alphanumeric, ASCII white space, lower case, ASCII folding) are specified for the code points of the check's alphabet",
                        "token texts of the stemmer, the compound splitter and the regex tokenizer with a non-nullable pattern are not specified (offset / position invariants only)",
                        "regex tokenizer with a nullable pattern: as the unchanged code does (and documents: empty tokens are not emitted) the stream ends at the first empty match",
                        "the facet tokenizer does not set offsets (0, 0): its token texts are specified, the slice clause does not apply to it",
                        "highlighted() may overlap for overlapping tokenizers (n-grams): sortedness is demanded of it, disjointness of collapse_overlapped_ranges",
                        "the snippet generator looks a token up by its lower-cased text (token.text.to_lowercase()): a highlighted range owes a token whose lower-cased text is a term",
                        "the compound splitter's parts may carry any offsets that satisfy the invariants (the unchanged tree gives every part the span of the whole compound)",
                        "snippet requests keep max_num_chars >= the longest token (the other case is the recorded finding F12)"]
    vlib.mc_check(ctx, "MC_Tokens", "MC_Tokens_neg.cfg", expect_violation="ByteGramsOk", timeout=120, workers=2)
    vlib.mc_check(ctx, "MC_Tokens", "MC_Tokens.cfg", timeout=600, workers=6)
    chains, enum_ev = enumeration(ctx)
    sampled(ctx, chains, "random", 400 if ctx.quick else 6000, "rand")
    sampled(ctx, chains, "long", 6 if ctx.quick else 120, "long")
    snip_ev = snippets(ctx, chains, 4500 if ctx.quick else 80000)
    comp_ev = compounds(ctx, chains, 1200 if ctx.quick else 20000)
    big(ctx, chains)
    known_finding_runs(ctx, chains)
    binding_selftest(ctx, chains, enum_ev, snip_ev, comp_ev)
    ctx.cov["exhaustive"] = False


def replay(ctx, path):
    files = [os.path.join(path, f) for f in sorted(os.listdir(path)) if f.endswith(".ndjson")] if os.path.isdir(path) else [path]
    for f in files:
        el.judge(ctx, MODULE, CFG, vlib.read_ndjson(f), "replay", key=key, nontrivial=nontrivial)
