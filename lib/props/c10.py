"""C10 - garbage collection never removes a needed file and leaves no orphan.
M: GcProto: GC against workers creating files, commits, merges, rollback and reloading readers
   (same Index object and a second Index instance), one step per critical section; negative
   configurations (reader or GC without the meta lock, segment meta not tracked from creation)
   must fail.  MC_Storage: crash images and the managed list (F4 class), lemma.
T: every `delete` of real runs is checked against Needed (meta.json, registers, live writers);
   explicit GC and the quiescent end of every run: listing = committed files = managed list.
R: crash images recovered by the real code, then commit + GC: orphans (recorded finding F4)."""
import json

import storage_common as sc
import tracecheck
import vlib
from vlib import log
from props import c02

LEVEL = "model_checking"


def run(ctx):
    ctx.cov["rule"] = ("a case is one recorded run of the real writer on SimDirectory (every delete, every explicit GC and the quiescent end are "
                       "judged by StorageTrace.tla) or one model state of GcProto; distinct = distinct sequence of (meta.json write, delete, "
                       "register change); non-trivial = the run deletes at least one file and ends quiescent")
    ctx.assumptions += ["Needed(file) = referenced by the newest meta.json, or its segment is in the writer's registers (hook), or a writer object of the segment is alive",
                        "lock files and .managed.json / meta.json themselves are not counted as orphans"]
    vlib.mc_check(ctx, "GcProto", "GcProto_remote.cfg", timeout=300, workers=6, coverage=True)
    if not ctx.quick:
        # five segments (712,620 states, depth 40) and the negative twin (the reader does not take the meta lock)
        vlib.mc_check(ctx, "GcProto", "GcProto_remote_deep.cfg", timeout=900, workers=6)
        vlib.mc_check(ctx, "GcProto", "GcProto_remote_deep_neg.cfg", expect_violation="GcNeverDeletesNeeded", timeout=300, workers=4)
    vlib.mc_check(ctx, "GcProto", "GcProto_local.cfg", timeout=300, workers=6)
    vlib.mc_check(ctx, "GcProto", "GcProto_local_nolock.cfg", timeout=300, workers=6)
    vlib.mc_check(ctx, "GcProto", "GcProto_neg_reader.cfg", expect_violation="GcNeverDeletesNeeded", timeout=300, workers=4)
    vlib.mc_check(ctx, "GcProto", "GcProto_neg_gc.cfg", expect_violation="GcNeverDeletesNeeded", timeout=300, workers=4)
    vlib.mc_check(ctx, "GcProto", "GcProto_neg_track.cfg", expect_violation="GcNeverDeletesNeeded", timeout=300, workers=4)
    vlib.mc_check(ctx, "ManagedProto", "ManagedProto.cfg", timeout=120, workers=2)
    vlib.mc_check(ctx, "ManagedProto", "ManagedProto_negF50.cfg", expect_violation="NoUnmanagedFile", timeout=120, workers=2)
    vlib.mc_check(ctx, "ManagedProto", "ManagedProto_negF50b.cfg", expect_violation="NoUnmanagedFile", timeout=120, workers=2)
    vlib.mc_check(ctx, "ManagedProto", "ManagedProto_negS22.cfg", expect_violation="NoUnmanagedFile", timeout=120, workers=2)
    if not ctx.quick:
        # three instances, six files, two zombie registrations per writer generation (about a million states)
        vlib.mc_check(ctx, "ManagedProto", "ManagedProto_deep.cfg", timeout=600, workers=4)
        vlib.mc_check(ctx, "ManagedProto", "ManagedProto_deep_negF50.cfg", expect_violation="NoUnmanagedFile", timeout=120, workers=2)
    vlib.mc_check(ctx, "MC_Storage", "MC_Storage.cfg", timeout=120, workers=2)
    vlib.mc_check(ctx, "MC_Storage", "MC_Storage_negF4.cfg", expect_violation="CrashNoOrphan", timeout=120, workers=2)
    # interleaved builder / updater / GC: GcTight, NeverDeletesNeeded, NeverDeletesBuilding, OrphanIsF4Class
    vlib.mc_check(ctx, "StorageProto", "StorageProto_code.cfg" if ctx.quick else "StorageProto_deep.cfg", timeout=900, workers=4 if ctx.quick else 8)
    vlib.mc_check(ctx, "StorageProto", "StorageProto_negF4.cfg", expect_violation="CrashNoOrphan", timeout=120, workers=2)
    vlib.mc_check(ctx, "StorageProto", "StorageProto_negS8.cfg", expect_violation="OrphanIsF4Class", timeout=120, workers=2)
    vlib.mc_check(ctx, "StorageProto", "StorageProto_negInv.cfg", expect_violation="NeverDeletesBuilding", timeout=120, workers=2)
    vlib.mc_check(ctx, "StorageProto", "StorageProto_negS11.cfg", expect_violation="NeverDeletesNeeded", timeout=300, workers=4)
    # the living set forgets the older metas a running merge holds (seeded C10-s19): the merge cannot open its sources
    vlib.mc_check(ctx, "StorageProto", "StorageProto_negS19.cfg", expect_violation="MergeSourcesReadable", timeout=300, workers=4)

    ev = sc.record_histories(ctx, "fixed", sc.fixed_histories())
    ev += sc.record_random(ctx, "rand", 50 if ctx.quick else 500, 30, ctx.seed + 11)
    ev += sc.record_random(ctx, "rand_da", 10 if ctx.quick else 100, 30, ctx.seed + 12, extra=["--delete-all"])
    # writers alternating between TWO Index instances on the directory (the second one opened before anything was written):
    # each instance has its own in-memory copy of the managed list (ManagedProto; finding F50, repaired)
    ev += sc.record_random(ctx, "rand_two", 12 if ctx.quick else 120, 30, ctx.seed + 13, extra=["--two"])
    runs = sc.storage_runs(ev)
    ndel = sum(1 for r in runs for e in r if e["e"] == "delete")
    n = tracecheck.validate_runs(ctx, runs, "storage", "StorageTrace", "StorageTrace.cfg", owns=sc.owns_c10, key=sc.storage_key,
                                 nontrivial=lambda r: any(e["e"] == "delete" for e in r), timeout=300)
    ctx.cov["traces_validated_against_impl"] += n
    ctx.cov["deletes_checked"] = ndel
    log(f"[T] {len(runs)} storage traces, {ndel} deletes checked against Needed, {n} runs accepted")

    # R: explicit GC while a worker / merge thread is parked right after its k-th file creation
    gp = ctx.path("gcrace.ndjson")
    vlib.run_bin("core_driver", ["gcrace", "--seed", ctx.seed, "--runs", 16 if ctx.quick else 80, "--out", gp], timeout=900)
    gev = vlib.read_ndjson(gp)
    realised = sum(1 for e in gev if e.get("ev") == "schedule" and e.get("realised"))
    gruns = sc.storage_runs(gev)
    n3 = tracecheck.validate_runs(ctx, gruns, "gcrace", "StorageTrace", "StorageTrace.cfg", key=sc.storage_key, timeout=300)
    n4 = c02.validate_runs(ctx, [e for e in gev if e.get("ev") != "schedule"], "gcrace_api")
    ctx.cov["traces_validated_against_impl"] += n3
    ctx.cov["gated_gc_races"] = {"runs": len(gruns), "realised": realised, "accepted_storage": n3, "accepted_api": n4}
    nho = sum(1 for e in gev if e.get("ev") == "schedule" and "refused_first" in e and e.get("realised"))
    ctx.cov["gated_gc_races"]["writer_handovers_between_instances"] = nho
    log(f"[R] GC forced while a worker / merge thread is parked after file creation #k; two workers registering at once; writer handed over to a second instance that asked while the first held the lock ({nho}): {realised}/{len(gruns)} realised, {n3} + {n4} accepted")
    if realised == 0:
        raise vlib.ToolError("the gated GC race was never realised")

    # R: a merge parked BEFORE it opens its sources, which already have delete files, while a commit gives a
    # source a newer delete file and collects: the older delete file belongs to the segment metas the merge
    # holds (the living set is every live SegmentMeta, not the newest one per segment) - the merge must succeed
    from props import c04
    mp = ctx.path("merge_predeleted.ndjson")
    vlib.run_bin("merge_driver", ["gated", "--seed", ctx.seed + 9, "--runs", 6 if ctx.quick else 60, "--only", "predeleted_delete_commit", "--out", mp], timeout=900)
    mev = vlib.read_ndjson(mp)
    mruns = c04.prep(mev)
    mreal = sum(1 for e in mev if e.get("ev") == "schedule" and e.get("realised"))
    n6 = tracecheck.validate_runs(ctx, mruns, "merge_predeleted", "MergeTrace", "MergeTrace.cfg", key=lambda r: json.dumps(r[0].get("tag")), timeout=300)
    ctx.cov["traces_validated_against_impl"] += n6
    ctx.cov["gated_merge_before_open_vs_gc"] = {"runs": len(mruns), "realised": mreal, "accepted": n6}
    log(f"[R] merge parked before it opens sources that have delete files, while a commit rewrites one and collects: {mreal}/{len(mruns)} realised, {n6} accepted")
    if mreal == 0:
        raise vlib.ToolError("the gated merge-before-open schedule was never realised")

    # R: the writer is dropped while its merge thread is parked; the NEW writer is parked right after it read
    # .managed.json (ManagedProto: Acquire / Install) while the old merge thread registers the files of its merged
    # segment: at the end every file in the directory is in the persisted managed list (F50b)
    zp = ctx.path("merge_zombie.ndjson")
    vlib.run_bin("merge_driver", ["gated", "--seed", ctx.seed + 10, "--runs", 4 if ctx.quick else 40, "--only", "drop_during_merge_reload", "--out", zp], timeout=900)
    zev = vlib.read_ndjson(zp)
    zruns = [[vlib.strip_nulls(e) for e in r if e.get("ev") in c04.EVS] for r in vlib.split_runs(zev)]
    zreal = sum(1 for e in zev if e.get("ev") == "schedule" and e.get("realised") and "zombie_files_created_by_the_end" in e)
    n8 = tracecheck.validate_runs(ctx, zruns, "merge_zombie", "MergeTrace", "MergeTrace.cfg", key=lambda r: json.dumps(r[0].get("tag")), timeout=300)
    ctx.cov["traces_validated_against_impl"] += n8
    ctx.cov["gated_zombie_merge_vs_new_writer"] = {"runs": len(zruns), "realised": zreal, "accepted": n8}
    log(f"[R] new writer parked after reading the managed list while the dropped writer's merge thread registers files: {zreal}/{len(zruns)} realised, {n8} accepted")
    if zreal == 0:
        raise vlib.ToolError("the zombie-merge schedule was never realised")

    # R: a reader of a second Index instance parked in the middle of loading (after it read meta.json /
    # before its first open of a segment file) while the writer commits, merges and collects:
    # the GC must not remove a file the reader still has to open (judged by ReaderTrace: no failing open)
    from props import c05
    rp = ctx.path("reader_gated.ndjson")
    vlib.run_bin("reader_driver", ["gated", "--seed", ctx.seed + 5, "--runs", 8 if ctx.quick else 80, "--out", rp], timeout=900)
    rev = vlib.read_ndjson(rp)
    rruns = c05.prepare(rev)
    rreal = sum(1 for e in rev if e.get("ev") == "schedule" and e.get("realised"))
    n5 = tracecheck.validate_runs(ctx, rruns, "reader_gated", "ReaderTrace", "ReaderTrace.cfg", key=c05.key, nontrivial=lambda r: True, timeout=300)
    ctx.cov["traces_validated_against_impl"] += n5
    ctx.cov["gated_reader_vs_gc"] = {"runs": len(rruns), "realised": rreal, "accepted": n5}
    log(f"[R] reader parked in the middle of loading while the writer commits, merges and collects: {rreal}/{len(rruns)} realised, {n5} accepted")

    evc = sc.record_histories(ctx, "crash_fixed", sc.fixed_histories()[:2], crash_images=3 if ctx.quick else 8, stride=6 if ctx.quick else 1)
    if not ctx.quick:
        evc += sc.record_random(ctx, "crash_rand", 40, 18, ctx.seed + 17, crash_images=4, stride=2)
    cruns = sc.api_crash_runs(evc)
    nimg = sum(1 for r in cruns for e in r if e["ev"] == "crash_image")
    n2 = tracecheck.validate_runs(ctx, cruns, "crash", "CoreTrace", "CoreTrace.cfg", key=c02.history_key,
                                  nontrivial=lambda r: any(e["ev"] == "crash_image" for e in r), timeout=300, heap="6g")
    ctx.cov["traces_validated_against_impl"] += n2
    ctx.cov["crash_images_recovered_then_commit_and_gc"] = nimg
    log(f"[R] {nimg} crash images recovered + commit + gc, {n2}/{len(cruns)} runs accepted")
    ctx.sample({"kind": "storage trace (compacted), deletes and register changes",
                "events": [e for e in runs[0] if e["e"] in ("delete", "regs", "meta", "gc", "end", "fresh")][:20]})


def replay(ctx, path):
    import os
    for f in sorted(os.listdir(path)):
        if f.endswith(".ndjson"):
            evs = vlib.read_ndjson(os.path.join(path, f))
            mod = ("StorageTrace", "StorageTrace.cfg") if evs and "e" in evs[0] else ("CoreTrace", "CoreTrace.cfg")
            tracecheck.validate_runs(ctx, [evs], "replay", mod[0], mod[1])
