"""C02 - a commit publishes exactly the sequential effect of the operations before it.
M: IndexCore model checked by TLC (several bounded configurations + a negative one).
R: TLC-generated histories (Gen_Core) replayed on the real IndexWriter.
T: seeded random histories on the real IndexWriter (threads, flush-after-N, merge policies).
Every recorded run is judged by TLC against spec/CoreTrace.tla (sequential oracle)."""
import json
import os
import random
import re

import vlib
from vlib import log

LEVEL = "model_checking"

API_EVS = {"reset", "new_writer", "drop_writer", "open_second", "switch_index", "add", "del", "run", "delete_all", "commit", "prepare_commit",
           "prepare_abort", "rollback", "merge", "wait_merges", "gc", "observe", "end", "merge_uncommitted", "wait_uncommitted"}


def api_events(events):
    return [vlib.strip_nulls(e) for e in events if e.get("ev") in API_EVS]


def history_key(run):
    return json.dumps([[e.get("ev"), e.get("t"), e.get("pred"), e.get("ops")] for e in run if e["ev"] not in ("reset", "end", "observe")])


def nontrivial(run):
    evs = [e["ev"] for e in run]
    return "commit" in evs and ("del" in evs or "run" in evs or "rollback" in evs) and "add" in evs


def validate_runs(ctx, events, label, module="CoreTrace", cfg="CoreTrace.cfg"):
    """Validate a concatenated trace; on a rejection isolate the offending run, report it and go on
    with the others (so that one finding does not hide the rest of the trace)."""
    runs = vlib.split_runs(api_events(events))
    accepted = 0
    rounds = 0
    pending = runs
    while pending and rounds < 12:
        rounds += 1
        flat = [e for r in pending for e in r]
        path = ctx.path(f"{label}.{rounds}.ndjson")
        vlib.write_ndjson(path, flat)
        ok, r = vlib.validate_trace(ctx, module, cfg, path, name=f"{label}.{rounds}")
        if ok:
            accepted += len(pending)
            for run in pending:
                ctx.distinct(history_key(run), nontrivial(run))
            break
        # locate the run containing the first unexplained line
        if r.rejected:
            line = int(r.rejected[0][0])
            why = f"trace rejected by {module}: first unexplained event (line {line}): {r.rejected[0][1][:1500]}"
        else:
            import tracecheck
            line, why0 = tracecheck.violated_line(r)
            why = f"{module}: {why0}"
        pos, bad = 0, None
        for i, run in enumerate(pending):
            if pos < line <= pos + len(run):
                bad = i
                break
            pos += len(run)
        if bad is None:
            bad = len(pending) - 1
        badrun = pending[bad]
        rp = ctx.path(f"{label}.rejected.{rounds}.ndjson")
        vlib.write_ndjson(rp, badrun)
        outp = ctx.path(f"{label}.rejected.{rounds}.tlc.out")
        open(outp, "w").write(r.out)
        ctx.violation(why, [rp, outp], json.dumps(badrun[max(0, line - pos - 6):line - pos], indent=0)[:4000])
        accepted += bad
        for run in pending[:bad]:
            ctx.distinct(history_key(run), nontrivial(run))
        pending = pending[bad + 1:]
    ctx.cov["traces_validated_against_impl"] += accepted
    return accepted


def gen_histories(ctx, n, depth, seed, maxops=7, extra_consts=None):
    """Histories from TLC (simulation of Gen_Core): lists of user-level operations."""
    cfg = open(os.path.join(vlib.SPEC, "Gen_Core.cfg")).read().replace("MaxOps = 7", f"MaxOps = {maxops}")
    for k, v in (extra_consts or {}).items():
        cfg = re.sub(rf"{k} = \w+", f"{k} = {v}", cfg)
    cfgname = f"Gen_Core_{ctx.prop}_{os.getpid()}.cfg"
    open(os.path.join(vlib.SPEC, cfgname), "w").write(cfg)
    try:
        r = vlib.run_tlc("Gen_Core", cfgname, workers=1, timeout=300, simulate=n, depth=depth, extra=["-seed", str(seed)])
    finally:
        os.remove(os.path.join(vlib.SPEC, cfgname))
    ctx.add_tlc("Gen_Core", r, kind="generator")
    if r.violated:
        out = ctx.path("gen.tlc.out")
        open(out, "w").write(r.out)
        ctx.violation("Gen_Core: " + ", ".join(r.violated), [out], r.out[-3000:])
    hs, seen = [], set()
    for m in re.finditer(r'<<"HISTORY", "(.*)">>', r.out):
        s = m.group(1).encode().decode("unicode_escape")
        if s in seen:
            continue
        seen.add(s)
        hs.append(json.loads(s))
    return hs


def concretise(h, rng, cfgs):
    """abstract history -> harness history (ids in order of appearance, v drawn from the id)"""
    ops, nid = [], 1
    for o in h:
        k = o["op"]
        if k == "add":
            ops.append({"op": "add", "id": nid, "t": o["t"], "v": (nid * 7) % 5 - 1})
            nid += 1
        elif k == "del":
            ops.append({"op": "del", "pred": {"k": "term", "t": o["t"]}})
        elif k == "run":
            d = {"k": "del", "t": o["t1"] if o["delFirst"] else o["t2"]}
            a = {"k": "add", "id": nid, "t": o["t2"] if o["delFirst"] else o["t1"], "v": (nid * 7) % 5 - 1}
            nid += 1
            ops.append({"op": "run", "ops": [d, a] if o["delFirst"] else [a, d]})
        elif k == "prepare_commit":
            ops.append({"op": "prepare_commit", "abort": o["abort"], "payload": "p"})
        else:
            ops.append({"op": k})
    if ops and ops[-1]["op"] == "drop_writer":
        ops.append({"op": "new_writer"})
    ops.append({"op": "commit"})
    return {"cfg": rng.choice(cfgs), "ops": ops}


CFGS = [
    {"threads": 1, "flush_after": 1, "merge": "none"},
    {"threads": 1, "flush_after": 1, "merge": "any2"},
    {"threads": 1, "flush_after": 2, "merge": "log"},
    {"threads": 2, "flush_after": 1, "merge": "any2"},
    {"threads": 3, "flush_after": 0, "merge": "none"},
    {"threads": 1, "flush_after": 0, "merge": "none"},
]


def model_checking(ctx):
    vlib.mc_check(ctx, "MC_Core", "MC_Core_neg.cfg", expect_violation="PublishedIsSequential", timeout=300)
    vlib.mc_check(ctx, "MC_Core", "MC_Core_feat3.cfg", coverage=True, timeout=600)
    r = vlib.mc_check(ctx, "MC_Core", "MC_Core_base.cfg", timeout=900)
    if not ctx.quick:
        vlib.mc_check(ctx, "MC_Core", "MC_Core_feat4.cfg", timeout=1800)
        vlib.mc_check(ctx, "MC_Core", "MC_Core_nw2.cfg", timeout=1800)
        vlib.mc_check(ctx, "MC_Core", "MC_Core_da.cfg", timeout=1800)
    return r


def replay_generated(ctx, n, depth):
    rng = random.Random(ctx.seed)
    hs = gen_histories(ctx, n, depth, ctx.seed)
    if not hs:
        raise vlib.ToolError("Gen_Core produced no history")
    hp = ctx.path("gen_histories.ndjson")
    vlib.write_ndjson(hp, [dict(concretise(h, rng, CFGS), tag=i) for i, h in enumerate(hs)])
    tp = ctx.path("gen_trace.ndjson")
    vlib.run_bin("core_driver", ["replay", "--in", hp, "--out", tp, "--no-storage"], timeout=600)
    ev = vlib.read_ndjson(tp)
    n_ok = validate_runs(ctx, ev, "gen")
    ctx.sample({"kind": "TLC-generated history replayed on the real writer", "history": hs[0]})
    log(f"[R] {len(hs)} TLC-generated histories replayed, {n_ok} accepted")
    return ev


def random_histories(ctx, runs, ops, seed, extra=None, label="rand"):
    tp = ctx.path(f"{label}_trace.ndjson")
    args = ["random", "--seed", seed, "--runs", runs, "--ops", ops, "--flush", "mix", "--threads", "mix",
            "--merge", "mix", "--sorted", "mix", "--no-storage", "--out", tp] + (extra or [])
    vlib.run_bin("core_driver", args, timeout=900)
    ev = vlib.read_ndjson(tp)
    n_ok = validate_runs(ctx, ev, label)
    log(f"[T] {runs} random histories ({label}), {n_ok} accepted")
    return ev


def binding_selftest(ctx, events):
    """corrupt one observed field / drop one event of an accepted trace: TLC must reject."""
    runs = vlib.split_runs(api_events(events))
    runs = [r for r in runs if nontrivial(r)][:3]
    flat = [json.loads(json.dumps(e)) for r in runs for e in r]
    results = {}
    # (a) remove a document from an observed commit content
    a = json.loads(json.dumps(flat))
    done = False
    for e in a:
        if e["ev"] == "commit" and e.get("ok") and e["obs"]["segs"] and e["obs"]["segs"][0]["docs"]:
            e["obs"]["segs"][0]["docs"].pop()
            done = True
            break
    # (b) drop one delete event
    b = [e for e in flat]
    for i, e in enumerate(b):
        if e["ev"] == "del":
            b = b[:i] + b[i + 1:]
            break
    # (c) change the opstamp reported by a commit
    c = json.loads(json.dumps(flat))
    for e in c:
        if e["ev"] == "commit" and e.get("ok"):
            e["obs"]["metaop"] += 1
            break
    for name, tr, applicable in (("content_doc_removed", a, done), ("delete_event_dropped", b, len(b) < len(flat)), ("meta_opstamp_changed", c, True)):
        if not applicable:
            continue
        p = ctx.path(f"selftest_{name}.ndjson")
        vlib.write_ndjson(p, tr)
        r = vlib.run_tlc("CoreTrace", "CoreTrace.cfg", workers=1, timeout=120, trace=p, deque=True, heap="2g")
        results[name] = "rejected" if not r.ok else "ACCEPTED"
    ctx.cov.setdefault("binding_selftest", {}).update(results)
    # dropping a delete is only detectable when that delete mattered; the two others must always be rejected
    for k in ("content_doc_removed", "meta_opstamp_changed"):
        if results.get(k) == "ACCEPTED":
            raise vlib.ToolError(f"binding self-test: corrupted trace ({k}) was accepted by CoreTrace")


def impl_traces(ctx, runs, ops, seed):
    """hook-level conformance: the IndexCore model itself (delete queue, cursors, registers, merges) is
    stepped along real runs and must agree with the registers observed inside the critical sections"""
    import impl_events
    import tracecheck
    tp = ctx.path("impl_trace.ndjson")
    vlib.run_bin("core_driver", ["random", "--seed", seed, "--runs", runs, "--ops", ops, "--flush", "mix", "--threads", "mix",
                                 "--merge", "mix", "--no-storage", "--term-deletes", "--out", tp], timeout=900)
    raw = vlib.split_runs(vlib.read_ndjson(tp))
    cr = [c for c in (impl_events.compact(r) for r in raw) if c]
    n = tracecheck.validate_runs(ctx, cr, "impl", "ImplTrace", "ImplTrace.cfg",
                                 key=lambda r: json.dumps([[e["e"], e.get("after"), e.get("t")] for e in r])[:3000],
                                 nontrivial=lambda r: any(e["e"] == "regs" and e["after"] == "end_merge" for e in r) or any(e["e"] == "del" for e in r), timeout=300)
    ctx.cov["traces_validated_against_impl"] += n
    ctx.cov["hook_level_runs"] = len(cr)
    log(f"[T] hook-level conformance of the IndexCore model: {n}/{len(cr)} runs accepted")
    # binding self-test: without one hook's events the model cannot follow the run
    if cr:
        res = {}
        for name, drop in (("no_segment_finalized_hook", lambda e: e["e"] == "seg_final"), ("no_registers_after_commit_hook", lambda e: e["e"] == "regs" and e["after"] == "commit")):
            flat = [e for r in cr[:6] for e in r if not drop(e)]
            p = ctx.path(f"selftest_{name}.ndjson")
            vlib.write_ndjson(p, flat)
            t = vlib.run_tlc("ImplTrace", "ImplTrace.cfg", workers=1, timeout=120, trace=p, deque=True, heap="2g")
            res[name] = "rejected" if not t.ok else "ACCEPTED"
        ctx.cov.setdefault("binding_selftest", {}).update(res)
        if "ACCEPTED" in res.values():
            raise vlib.ToolError(f"binding self-test: trace without a hook was accepted by ImplTrace: {res}")


def producers(ctx, runs, seed):
    """concurrent producer threads on a shared writer: the next commit must be linearizable"""
    import tracecheck
    tp = ctx.path("producers.ndjson")
    vlib.run_bin("core_driver", ["producers", "--seed", seed, "--runs", runs, "--out", tp], timeout=900)
    keep = ("reset", "pcall", "pret", "commit", "rollback", "new_writer", "wait_merges", "end", "call")
    pr = [[vlib.strip_nulls(e) for e in r if e.get("ev") in keep] for r in vlib.split_runs(vlib.read_ndjson(tp))]
    # how many (add, matching delete) pairs really overlapped in time (measured, for the evidence)
    overlap = forced = 0
    for r in pr:
        epoch = []
        for e in r:
            if e["ev"] == "pret":
                epoch.append(e)
            elif e["ev"] in ("commit", "rollback"):
                for a in (x for x in epoch if x["k"] == "add"):
                    for q in (x for x in epoch if x["k"] == "del" and x["t"] == a["t"]):
                        if q["seq"] < a["call"] or a["seq"] < q["call"]:
                            forced += 1
                        else:
                            overlap += 1
                epoch = []
    n = tracecheck.validate_runs(ctx, pr, "producers", "ProducerTrace", "ProducerTrace.cfg",
                                 key=lambda r: json.dumps([[e.get("k"), e.get("t"), e.get("p")] for e in r if e["ev"] == "pret"])[:3000],
                                 nontrivial=lambda r: any(e["ev"] == "pret" and e["k"] == "del" for e in r), timeout=300)
    ctx.cov["traces_validated_against_impl"] += n
    ctx.cov["producer_runs"] = {"runs": len(pr), "calls": sum(1 for r in pr for e in r if e["ev"] == "pret"),
                                "add_delete_pairs_ordered_by_real_time": forced, "add_delete_pairs_overlapping": overlap}
    log(f"[T] concurrent producers: {n}/{len(pr)} runs linearizable ({forced} ordered add/delete pairs, {overlap} overlapping)")


def budget_runs(ctx):
    """segments cut by the MEMORY BUDGET in the middle of `run` batches (large documents)"""
    hs = []
    for variant, (nb, per, pad, threads) in enumerate([(24, 60, 1500, 1), (10, 150, 700, 2)]):
        ops, nid = [], 1
        for b in range(nb):
            batch = []
            for _ in range(per):
                batch.append({"k": "add", "id": nid, "t": "abc"[nid % 3], "v": nid % 7, "pad": pad})
                nid += 1
            if b % 5 == 4:
                batch.append({"k": "del", "t": "abc"[b % 3]})
            ops.append({"op": "run", "ops": batch})
            if b % 8 == 7:
                ops.append({"op": "commit"})
        ops.append({"op": "commit"})
        hs.append({"cfg": {"threads": threads, "flush_after": 0, "merge": "none"}, "tag": f"budget{variant}", "ops": ops})
    hp = ctx.path("budget_hist.ndjson")
    vlib.write_ndjson(hp, hs)
    tp = ctx.path("budget_trace.ndjson")
    vlib.run_bin("core_driver", ["replay", "--in", hp, "--out", tp, "--no-storage"], timeout=600)
    ev = vlib.read_ndjson(tp)
    cuts = sum(1 for e in ev if e.get("ev") == "hook" and e.get("name") == "segment_finalized")
    n = validate_runs(ctx, ev, "budget")
    ctx.cov["memory_budget_runs"] = {"runs": len(hs), "segments_cut": cuts, "accepted": n}
    log(f"[T] large batches cut by the memory budget: {cuts} segments, {n}/{len(hs)} runs accepted")


def known_finding_runs(ctx):
    """dedicated small runs that confirm the recorded findings still reproduce"""
    tp = ctx.path("kf_trace.ndjson")
    hs = [
        # F-B: add; delete_all; commit keeps the document
        {"cfg": CFGS[0], "ops": [{"op": "add", "id": 1, "t": "a", "v": 0}, {"op": "delete_all"}, {"op": "commit"}], "tag": "F-B"},
        # F-C: stamper reverted under a pending delete
        {"cfg": CFGS[0], "ops": [{"op": "add", "id": 1, "t": "a", "v": 0}, {"op": "commit"}, {"op": "del", "pred": {"k": "term", "t": "a"}},
                                 {"op": "delete_all"}, {"op": "add", "id": 2, "t": "a", "v": 0}, {"op": "commit"},
                                 {"op": "add", "id": 3, "t": "b", "v": 0}, {"op": "commit"}], "tag": "F-C"},
        # F52: nothing pending at delete_all, but the writer has COMMITTED a delete with a larger opstamp than the one
        # the stamper is reverted to: the re-added document is deleted by it
        {"cfg": CFGS[0], "ops": [{"op": "add", "id": 1, "t": "a", "v": 0}, {"op": "commit"}, {"op": "add", "id": 2, "t": "b", "v": 0},
                                 {"op": "add", "id": 3, "t": "b", "v": 0}, {"op": "del", "pred": {"k": "term", "t": "c"}}, {"op": "commit"},
                                 {"op": "delete_all"}, {"op": "add", "id": 4, "t": "c", "v": 0}, {"op": "commit"}], "tag": "F52"},
    ]
    hp = ctx.path("kf_histories.ndjson")
    vlib.write_ndjson(hp, hs)
    vlib.run_bin("core_driver", ["replay", "--in", hp, "--out", tp, "--no-storage"], timeout=120)
    validate_runs(ctx, vlib.read_ndjson(tp), "kf")


def delete_all_flushed(ctx):
    """delete_all_documents when the pending operations are plain adds that are all KNOWN to sit in
    uncommitted segments (the harness waits for the `registers` hook to show them): outside the
    recorded finding F-B/F-C (documents still in the pipeline), the outcome is determined - the
    uncommitted register is cleared - and CoreTrace judges it strictly"""
    A = lambda i, t: {"op": "add", "id": i, "t": t, "v": 0}
    C = {"op": "commit"}
    W = lambda n, d: {"op": "wait_uncommitted", "n": n, "docs": d}
    DA = {"op": "delete_all"}
    hs = []
    for fl in (1, 2):
        cfg = {"threads": 1, "flush_after": fl, "merge": "none"}
        k = 2 * fl
        adds = [A(10 + i, "abc"[i % 3]) for i in range(k)]
        hs.append({"cfg": cfg, "ops": adds + [W(2, k), DA, A(3, "a"), C], "tag": f"da-flushed-{fl}-a"})
        hs.append({"cfg": cfg, "ops": [A(1, "a"), C] + adds + [W(2, k), DA, C], "tag": f"da-flushed-{fl}-b"})
        hs.append({"cfg": cfg, "ops": [A(1, "a"), C] + adds + [W(2, k), DA, {"op": "rollback"}, A(4, "b"), C], "tag": f"da-flushed-{fl}-c"})
        hs.append({"cfg": cfg, "ops": [A(1, "a"), C] + adds + [W(2, k), DA, A(5, "c"), C, A(6, "a"), C], "tag": f"da-flushed-{fl}-d"})
    hp, tp = ctx.path("da_flushed_histories.ndjson"), ctx.path("da_flushed_trace.ndjson")
    vlib.write_ndjson(hp, hs)
    vlib.run_bin("core_driver", ["replay", "--in", hp, "--out", tp, "--no-storage"], timeout=300)
    ev = vlib.read_ndjson(tp)
    waited = sum(1 for e in ev if e.get("ev") == "wait_uncommitted" and e.get("ok"))
    n = validate_runs(ctx, ev, "da_flushed")
    ctx.cov["delete_all_over_flushed_segments"] = {"histories": len(hs), "waits_satisfied": waited, "accepted": n}
    log(f"[R] delete_all over flushed uncommitted segments: {n}/{len(hs)} histories accepted ({waited} waits satisfied)")
    if waited < len(hs):
        raise vlib.ToolError("delete_all_flushed: the uncommitted segments never showed up in the registers hook")


def delete_file_chain(ctx):
    """one long-lived segment (no forced flush, no merge): every placement of one delete inside the
    first transaction (applied in memory when the segment is finalised) x every ordered choice of
    two / three later delete-commits (each writes a delete file on top of the previous one), also
    across a rollback and a re-opened writer.  IndexCore models exactly this (alive, delop, fdel)."""
    import itertools
    A = lambda i, t: {"op": "add", "id": i, "t": t, "v": 0}
    D = lambda t: {"op": "del", "pred": {"k": "term", "t": t}}
    C = {"op": "commit"}
    terms = ["a", "b", "c", "d", "e"]
    hs = []
    for pos in (1, 2, 3, 4):
        for later in itertools.permutations(terms, 3):
            for t1 in terms[:pos]:
                if t1 in later:
                    continue
                first = [A(i + 1, terms[i]) for i in range(5)]
                first.insert(pos, D(t1))
                for variant in ("plain", "rollback", "reopen"):
                    ops = first + [D(later[0]), C, D(later[1]), C]
                    if variant == "rollback":
                        ops += [D(later[2]), {"op": "rollback"}, D(later[2]), C]
                    elif variant == "reopen":
                        ops += [{"op": "drop_writer"}, {"op": "new_writer"}, D(later[2]), C]
                    else:
                        ops += [D(later[2]), C]
                    hs.append({"cfg": {"threads": 1, "flush_after": 0, "merge": "none"}, "ops": ops, "tag": f"chain-{pos}-{t1}-{''.join(later)}-{variant}"})
    if ctx.quick:
        random.Random(ctx.seed).shuffle(hs)
        hs = hs[:90]
    hp, tp = ctx.path("chain_histories.ndjson"), ctx.path("chain_trace.ndjson")
    vlib.write_ndjson(hp, hs)
    vlib.run_bin("core_driver", ["replay", "--in", hp, "--out", tp, "--no-storage"], timeout=900)
    n = validate_runs(ctx, vlib.read_ndjson(tp), "chain")
    ctx.cov["delete_file_chains"] = {"histories": len(hs), "accepted": n}
    log(f"[R] delete-file chains on one long-lived segment: {n}/{len(hs)} histories accepted")


def delete_queue(ctx):
    """the delete queue by itself: the code-shaped model under every interleaving (DeleteQueueImpl),
    TLC-generated operation sequences replayed on the real DeleteQueue / DeleteCursor, and a pusher
    thread against consumer threads; DeleteQueueTrace judges what the real queue returned"""
    from props import enginelib
    import tracecheck
    vlib.mc_check(ctx, "DeleteQueueImpl", "DeleteQueueImpl.cfg" if ctx.quick else "DeleteQueueImpl_deep.cfg", timeout=600, workers=4)
    vlib.mc_check(ctx, "DeleteQueueImpl", "DeleteQueueImpl_neg.cfg", expect_violation="NoLostDelete", timeout=120, workers=2)
    cfg = open(os.path.join(vlib.SPEC, "Gen_DeleteQueue.cfg")).read()
    cases = enginelib.tlc_cases(ctx, "Gen_DeleteQueue", cfg, simulate=300 if ctx.quick else 4000, depth=30, seed=ctx.seed)["CASE"]
    cp, tp, hp = ctx.path("delq_cases.json"), ctx.path("delq_replay.ndjson"), ctx.path("delq_threads.ndjson")
    json.dump(cases, open(cp, "w"))
    vlib.run_bin("delq_driver", ["replay", "--in", cp, "--out", tp], timeout=300)
    vlib.run_bin("delq_driver", ["threads", "--runs", 60 if ctx.quick else 1500, "--seed", ctx.seed, "--out", hp], timeout=900)
    ev = [{k: v for k, v in e.items() if k not in ("seq", "th")} for e in vlib.read_ndjson(tp) + vlib.read_ndjson(hp)]
    runs = vlib.split_runs(ev)
    n = tracecheck.validate_runs(ctx, runs, "delq", "DeleteQueueTrace", "DeleteQueueTrace.cfg",
                                 key=lambda r: json.dumps([[e["ev"], e.get("c"), e.get("o"), e.get("t"), len(e.get("seen", []))] for e in r])[:3000],
                                 nontrivial=lambda r: any(e["ev"] in ("skip_to", "drain") for e in r), timeout=300)
    ctx.cov["traces_validated_against_impl"] += n
    ctx.cov["delete_queue"] = {"tlc_generated_sequences": len(cases), "concurrent_runs": sum(1 for r in runs if any(e["ev"] == "drain" for e in r)), "accepted": n}
    log(f"[R/T] delete queue: {len(cases)} TLC-generated sequences + concurrent pusher/consumer runs, {n}/{len(runs)} accepted by DeleteQueueTrace")
    # binding self-test: one corrupted get result must be rejected
    bad = None
    for r in runs:
        for i, e in enumerate(r):
            if e["ev"] == "get" and e["r"] > 0:
                bad = [dict(x) for x in r[:i + 1]]
                bad[i]["r"] = e["r"] + 1
                break
        if bad:
            break
    if bad:
        bp = ctx.path("delq_selftest.ndjson")
        vlib.write_ndjson(bp, bad)
        ok, _ = vlib.validate_trace(ctx, "DeleteQueueTrace", "DeleteQueueTrace.cfg", bp, name="delq-selftest")
        if ok:
            raise vlib.ToolError("binding self-test: DeleteQueueTrace accepted a corrupted get result")
        ctx.cov.setdefault("binding_selftests", []).append("DeleteQueueTrace rejects a trace with one corrupted get result")


def run(ctx):
    ctx.cov["rule"] = ("a case is one operation history executed on the real IndexWriter (or one TLC state for the model); distinct = distinct "
                       "sequence of (operation, term/predicate); non-trivial = contains an add, a commit and a delete/batch/rollback")
    ctx.assumptions += ["TLC (model checker) and the Json community module are trusted",
                        "the harness reads content back through a fresh Index::open (stored fields, fast fields, term queries)",
                        "opstamps are bound from the trace, never predicted (consider_merge_options consumes stamps)"]
    model_checking(ctx)
    ev = replay_generated(ctx, 150 if ctx.quick else 1500, 70)
    ev2 = random_histories(ctx, 60 if ctx.quick else 600, 25, ctx.seed)
    random_histories(ctx, 20 if ctx.quick else 200, 30, ctx.seed + 1000, extra=["--delete-all"], label="rand_da")
    # writers alternating between two Index instances on the same directory: an index is its directory
    random_histories(ctx, 10 if ctx.quick else 100, 30, ctx.seed + 1200, extra=["--two"], label="rand_two")
    # long-lived segments: no forced flush, no merge policy - a segment collects deletes at its creation
    # (in-memory bitset) and then one delete file per commit (advance_deletes on top of the previous file)
    random_histories(ctx, 30 if ctx.quick else 300, 30, ctx.seed + 1500, extra=["--flush", "0", "--merge", "none", "--term-deletes"], label="rand_longseg")
    if not ctx.quick:
        random_histories(ctx, 200, 60, ctx.seed + 2000, label="rand_long")
    known_finding_runs(ctx)
    binding_selftest(ctx, ev2)
    impl_traces(ctx, 60 if ctx.quick else 600, 25, ctx.seed + 3000)
    producers(ctx, 40 if ctx.quick else 500, ctx.seed + 4000)
    budget_runs(ctx)
    delete_file_chain(ctx)
    delete_all_flushed(ctx)
    delete_queue(ctx)
    runs = vlib.split_runs(api_events(ev2))
    if runs:
        ctx.sample({"kind": "random history executed on the real writer (API events)", "events": [
            {k: v for k, v in e.items() if k not in ("obs", "seq", "th")} for e in runs[0][:14]]})


def replay(ctx, path):
    """re-validate a stored rejected trace (the verdict is a property of the trace)"""
    files = [os.path.join(path, f) for f in os.listdir(path) if f.endswith(".ndjson")] if os.path.isdir(path) else [path]
    for f in files:
        validate_runs(ctx, vlib.read_ndjson(f), "replay")
