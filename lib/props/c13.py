"""C13 - every DocSet is one sorted sequence under any mix of advance and seek.
M: spec/DocSet.tla model checked (the set meaning of the calls vs. the judge's index arithmetic,
   the property clauses on all programs over all subsets; negative configuration = defect F8).
R: TLC (Gen_DocSet) enumerates call programs over all subsets of a small universe; they are
   concretised on a stripe index (r real documents per abstract one) and run by
   harness/docset_driver on every scorer type that real queries produce.
T: random long programs on scorers of random query trees over a multi-segment index.
Judge: spec/DocSetTrace.tla - the oracle sequence is what a fresh scorer yields by plain advance()."""
import json
import os
import random
import re

import vlib
from vlib import log

LEVEL = "model_checking"
TERMINATED = 2147483647
UIDX = 5  # abstract documents of the stripe index (set to the universe of the generated programs)

# texts of the defects F29-F33, all repaired in /repo by fix commits: kept so that a regression is reported in the same words
# (the generators do not steer around them any more; regression_cases() keeps one small case per class in every run)
KF_BITSET = "BitSetDocSet: advance() after a seek past the last document resumes the iteration instead of staying TERMINATED"
KF_INTERCOUNT = "Intersection::count_including_deleted (dense path) consumes the set but leaves doc() on a stale document of its first leg (score() there can panic)"
KF_UNIONDANGER = ("BufferedUnionScorer::seek_danger with a target before its buffered window ignores the buffered documents: the lower "
                  "bound it returns lies beyond the next document of the set")
KF_UNIONMEMBER = ("BufferedUnionScorer::seek_danger leaves a member that missed in the danger zone; when the same or a later seek_danger "
                  "succeeds through another member, the stale member's position (a document with the terms of a phrase but not the phrase, "
                  "or the lead document of an intersection) is emitted as a document of the union, with a wrong score")
KF_UNIONFILL = "BufferedUnionScorer::fill_buffer leaves score() stale and does not clear the score combiners (scores of later documents are wrong)"


# ------------------------------------------------------------------ recipes (R direction)
def T(mask, opt="freq"):
    return {"k": "term", "f": "m", "t": "s%02d" % mask, "opt": opt}


def B(cl, msm=None):
    if msm is None:
        only_should = all(c["o"] == "should" for c in cl)
        return {"k": "bool", "cl": cl, "msm": 1 if only_should else 0, "explicit": False}
    return {"k": "bool", "cl": cl, "msm": msm, "explicit": True}


def must(q):
    return {"o": "must", "q": q}


def should(q):
    return {"o": "should", "q": q}


def mustnot(q):
    return {"o": "mustnot", "q": q}


def irange(mask, f="n"):
    return {"k": "range", "f": f, "lo": {"b": "in", "v": 4 * mask}, "hi": {"b": "in", "v": 4 * mask + 3}}


def recipes(S):
    """queries whose scorer enumerates exactly the stripes of the abstract set S (bit mask)"""
    full = (1 << UIDX) - 1
    C = full & ~S
    A, Bm = S & 0b10101, S & 0b01110
    C1, C2 = C & 0b10101, C & 0b01010
    X = C & 0b10110
    out = []

    def add(name, q, scoring=(True, False)):
        for sc in scoring:
            out.append((name, q, sc))

    add("term_freq", T(S))
    add("term_basic", T(S, "basic"))
    add("term_pos", T(S, "pos"), (True,))
    if S == full:
        add("all", {"k": "all"})
        add("union_with_all", B([should(T(A)), should({"k": "all"})]))
        add("must_all", B([must({"k": "all"}), must({"k": "all"})]), (False,))
    if S == 0:
        add("empty", {"k": "empty"}, (False,))
    mm = "%02d" % S
    add("phrase", {"k": "phrase", "f": "ph", "ts": ["a" + mm, "b" + mm], "slop": 0})
    add("phrase_slop", {"k": "phrase", "f": "ph", "ts": ["a" + mm, "b" + mm], "slop": 1}, (True,))
    add("pprefix", {"k": "pprefix", "f": "ph", "ts": ["b" + mm, "p" + mm]})
    add("rphrase", {"k": "rphrase", "f": "ph", "ts": ["a" + mm, "b" + mm + "|zzz"]}, (True,))
    add("range_inverted", irange(S), (False, True))
    add("range_fast_multi", irange(S, "f"))
    bits = [i for i in range(UIDX) if S >> i & 1]
    if bits and bits == list(range(bits[0], bits[-1] + 1)):
        add("range_fast_full", {"k": "range", "f": "g", "lo": {"b": "in", "v": bits[0]}, "hi": {"b": "ex", "v": bits[-1] + 1}}, (False,))
    add("termset", {"k": "set", "f": "m", "ts": ["s%02d" % A, "s%02d" % Bm]}, (False,))
    add("regex", {"k": "regex", "f": "m", "pat": "s" + mm}, (False,))
    add("union2_terms", B([should(T(A)), should(T(Bm))]))
    add("union2_terms_basic", B([should(T(A, "basic")), should(T(Bm, "basic"))]), (True,))
    add("union3_terms", B([should(T(S & 0b00011)), should(T(S & 0b01110)), should(T(S & 0b11000))]))
    add("union_mixed", B([should(T(A)), should(irange(Bm))]))
    add("dismax", {"k": "dismax", "qs": [T(A), T(Bm)], "tie": 0.3}, (True,))
    add("inter2_terms", B([must(T(S | C1)), must(T(S | C2))]))
    add("inter3_terms", B([must(T(S | C1)), must(T(S | C2)), must(T(S | (C & 0b11100)))]))
    add("inter_mixed", B([must(T(S | C1)), must(irange(S | C2, "f"))]))
    add("inter_unions", B([must(B([should(T((S | C1) & 0b10011)), should(T((S | C1) & 0b11100))])),
                           must(B([should(T((S | C2) & 0b00111)), should(T((S | C2) & 0b11010))])),
                           must(B([should(T(S)), should(T(S & 0b01010))]))]))
    add("exclude_term", B([must(T(S | X)), mustnot(T(X))]))
    add("exclude_two", B([must(T(S | C)), mustnot(T(C1)), mustnot(T(C2))]))
    add("exclude_bitset", B([must(T(S | X)), mustnot(irange(X))]), (False,))
    add("exclude_union", B([should(T(A)), should(T(Bm | X)), mustnot(B([should(T(X & 0b00110)), should(T(X & 0b10000))]))]))
    add("reqopt", B([must(T(S)), should(T(0b01101))]))
    add("msm2of3", B([should(T(S | C1)), should(T(S | C2)), should(T(S))], 2))
    # documents of S match 2 * msm clauses or more (the Disjunction scorer must not emit them twice), the others at most one
    add("msm2of4", B([should(T(S | C1)), should(T(S | C2)), should(T(S)), should(T(S, "basic"))], 2))
    add("msm2of5", B([should(T(S | C1)), should(T(S | C2)), should(T(S)), should(irange(S)), should(T(S, "pos"))], 2))
    add("msm3of6", B([should(T(S | C1)), should(T(S | C2)), should(T(S)), should(irange(S, "f")), should(T(S, "pos")),
                      should(T(S, "basic")), should(T(S))], 3))
    add("msm2of2", B([should(T(S | C1)), should(T(S | C2))], 2))
    add("msm1_must", B([must(T(S | C1)), should(T(S | C2)), should(T(S & 0b00111))], 1))
    add("boost_union", {"k": "boost", "q": B([should(T(A)), should(T(Bm))]), "b": 2.0}, (True,))
    add("const_inter", {"k": "const", "q": B([must(T(S | C1)), must(T(S | C2))]), "s": 1.5}, (True,))
    add("union_of_inter", B([should(B([must(T(S | C1)), must(T(S | C2))])), should(T(S & 0b00101))]))
    add("inter_of_union", B([must(B([should(T(A)), should(T(Bm))])), must(T(S | C1))]))
    return out


def concretise(prog, r, rng):
    """abstract program (records of the DocSet machine) -> operations with concrete targets.
    Abstract document i is the stripe [i*r, (i+1)*r); the judge sees only what was really called."""
    max_doc = UIDX * r

    def tgt(t):
        if t >= 100:
            return rng.choice([TERMINATED, TERMINATED, max_doc, max_doc + 1])
        return min(t, UIDX) * r + rng.choice([0, 0, r // 2, r - 1])

    ops = []
    for c in prog:
        k = c["op"]
        if k == "advance":
            if r > 1 and c["pre"] < UIDX and rng.random() < 0.5:
                ops.append({"op": "seek", "t": c["pre"] * r + r - 1})  # hop to the end of the stripe first
            ops.append({"op": "advance"})
        elif k == "seek":
            ops.append({"op": "seek", "t": tgt(c["t"])})
        elif k == "seek_danger":
            ops.append({"op": "seek_danger", "t": tgt(c["t"])})
        elif k == "fill_buffer":
            ops.append({"op": "fill_buffer"})
        elif k == "fill_bitset_block":
            ops.append({"op": "fill_bitset_block", "min": tgt(c["min"])})
        elif k == "count":
            ops.append({"op": "count"})
    return ops


def gen_programs(ctx, U, depth):
    cfg = open(os.path.join(vlib.SPEC, "Gen_DocSet.cfg")).read()
    cfg = re.sub(r"U = \d+", f"U = {U}", cfg)
    cfg = re.sub(r"Depth = \d+", f"Depth = {depth}", cfg)
    name = f"Gen_DocSet_{os.getpid()}.cfg"
    open(os.path.join(vlib.SPEC, name), "w").write(cfg)
    try:
        r = vlib.run_tlc("Gen_DocSet", name, workers=4, timeout=300)
    finally:
        os.remove(os.path.join(vlib.SPEC, name))
    ctx.add_tlc(f"Gen_DocSet(U={U},Depth={depth})", r, kind="generator")
    if r.tool_error or r.violated:
        log(r.out[-3000:])
        raise vlib.ToolError("Gen_DocSet failed")
    cases = []
    for m in re.finditer(r'<<"CASE", "(.*)">>', r.out):
        cases.append(json.loads(m.group(1).encode().decode("unicode_escape")))
    if not cases:
        raise vlib.ToolError("Gen_DocSet printed no program")
    return cases


# ------------------------------------------------------------------ judging
def prog_key(q, prog):
    return json.dumps([q.get("k"), [[c.get("op"), c.get("t", c.get("min"))] for c in prog]])


def classify(d):
    """stable one-line text of a rejection (also what known_findings.json matches)"""
    if not isinstance(d, dict) or "call" not in d:
        return "C13 DocSet: " + (d.get("why", "trace rejected") if isinstance(d, dict) else str(d)[:200])
    c = d["call"]
    op = c.get("op")
    if op == "panic":
        msg = re.sub(r"\d+", "N", c.get("msg", ""))[:200]
        return f"C13 DocSet: panic in {c.get('in')}(): {msg}"
    prev = d["program"][: d["step"] - 1]
    if op == "advance" and d.get("pre") == TERMINATED and c.get("ret") != TERMINATED:
        how = next((p["op"] for p in reversed(prev) if p.get("doc_after") == TERMINATED and p["op"] not in ("advance", "fill_buffer", "count")), None)
        if how and any(p.get("op") in ("seek", "seek_danger", "fill_bitset_block") for p in prev):
            return "C13 DocSet: " + KF_BITSET + " [sticky end violated by advance() after " + how + "]"
        return "C13 DocSet: advance() on a terminated scorer returned a document (sticky end)"
    sd = [p for p in d["program"][: d["step"]] if p.get("op") == "seek_danger"]
    if union_has_danger_member(d.get("q", {})) and any(p.get("found") for p in sd) and op != "panic":
        return "C13 DocSet: " + KF_UNIONMEMBER
    if d.get("legal") and d.get("data_ok") and d.get("ret_ok") and not d.get("score_ok"):
        if any(p.get("op") == "fill_buffer" for p in prev) or op == "fill_buffer":
            return "C13 DocSet: " + KF_UNIONFILL + f" [score() after {op}]"
        return f"C13 DocSet: score() at a document depends on how it was reached (after {op})"
    if op == "count" and d.get("data_ok") and not d.get("ret_ok"):
        if may_be_intersection(d.get("q", {})):
            return "C13 DocSet: " + KF_INTERCOUNT
        return "C13 DocSet: count_including_deleted() consumed the set but left doc() on a document (later calls do not report the end)"
    if "score_panic" in c:
        return f"C13 DocSet: doc() names a document after {op}() but score() panics: " + re.sub(r"\d+", "N", c["score_panic"])[:160]
    if not d.get("legal"):
        return f"C13 DocSet: harness issued an illegal call {op} (tool problem)"
    if (op == "seek_danger" and not c.get("found") and prev and prev[-1].get("op") == "seek_danger" and not prev[-1].get("found")
            and prev[-1].get("lb", 0) > c.get("t", 0) and qkinds(d.get("q", {})) & {"bool", "dismax"}):
        return "C13 DocSet: " + KF_UNIONDANGER
    return f"C13 DocSet: {op}() returned a value the sorted-sequence contract does not explain (expected document {d.get('expected_doc')})"


def may_be_intersection(q):
    """mirror of qlib::may_be_intersection (only used to word a rejection)"""
    k = q.get("k")
    if k == "bool":
        cl = q.get("cl", [])
        return any(c["o"] == "must" for c in cl) or q.get("msm", 0) >= 2 or any(c["o"] != "mustnot" and may_be_intersection(c["q"]) for c in cl)
    if k == "boost":
        return may_be_intersection(q["q"])
    if k == "dismax":
        return any(may_be_intersection(x) for x in q.get("qs", []))
    return False


def is_phrase_like(q):
    return q.get("k") in ("phrase", "pprefix", "rphrase") or (q.get("k") in ("boost", "const") and is_phrase_like(q["q"]))


def union_has_danger_member(q):
    """mirror of qlib::union_has_danger_member (only used to word a rejection)"""
    k = q.get("k")
    if k == "bool":
        cl = q.get("cl", [])
        return (any(union_has_danger_member(c["q"]) for c in cl)
                or any(c["o"] == "should" and (is_phrase_like(c["q"]) or may_be_intersection(c["q"])) for c in cl))
    if k == "dismax":
        return any(union_has_danger_member(x) for x in q.get("qs", [])) or any(is_phrase_like(x) or may_be_intersection(x) for x in q.get("qs", []))
    if k in ("boost", "const"):
        return union_has_danger_member(q["q"])
    return False


def qkinds(q, acc=None):
    acc = set() if acc is None else acc
    if isinstance(q, dict):
        if "k" in q:
            acc.add(q["k"])
        for v in q.values():
            qkinds(v, acc)
    elif isinstance(q, list):
        for v in q:
            qkinds(v, acc)
    return acc


def validate(ctx, events, label, expect=None):
    """judge a concatenated trace with DocSetTrace; every line is independent, so on a rejection the
    line is reported and the rest is validated on its own.  Returns the number of programs accepted."""
    events = [vlib.strip_nulls(e) for e in events]
    pending = events
    accepted = 0
    rounds = 0
    while pending and rounds < 12:
        rounds += 1
        path = ctx.path(f"{label}.{rounds}.ndjson")
        vlib.write_ndjson(path, pending)
        ok, r = vlib.validate_trace(ctx, "DocSetTrace", "DocSetTrace.cfg", path, name=f"{label}.{rounds}", timeout=600, heap="8g")
        if ok:
            good = pending
            pending = []
        else:
            if not r.rejected:
                log(r.out[-3000:])
                raise vlib.ToolError(f"DocSetTrace failed on {path}")
            line = int(r.rejected[0][0])
            m = re.match(r'"(.*)"\s*$', r.rejected[0][1].strip())
            try:
                diag = json.loads(m.group(1).encode().decode("unicode_escape")) if m else {"why": r.rejected[0][1][:500]}
            except Exception:
                diag = {"why": r.rejected[0][1][:500]}
            good = pending[:line - 1]
            bad = pending[line - 1]
            what = classify(diag)
            rp = ctx.path(f"{label}.rejected.{rounds}.ndjson")
            keep = dict(bad)
            if isinstance(diag, dict) and diag.get("prog"):
                keep["progs"] = [bad["progs"][diag["prog"] - 1]]
            vlib.write_ndjson(rp, [{"ev": "reset"}, keep])
            detail = json.dumps({k: diag.get(k) for k in ("q", "seg", "lenS", "step", "call", "pre", "expected_doc", "legal", "data_ok", "ret_ok", "score_ok")}, indent=0)[:2500]
            if isinstance(diag, dict) and "program" in diag:
                detail += "\nprogram: " + json.dumps(diag["program"][: diag.get("step", 0)])[-2500:]
            seen_n = ctx.cov["rejections_by_class"].get(what, 0)
            ctx.cov["rejections_by_class"][what] = seen_n + 1
            # a dedicated reproduction reports each finding once; exploration at most 3 replays per class
            if (expect is None and seen_n < 3) or (expect is not None and what not in expect):
                ctx.violation(what, [rp], detail)
            if expect is not None:
                expect.append(what)
            pending = pending[line:]
        for e in good:
            if e.get("ev") == "scorer":
                for p in e["progs"]:
                    accepted += 1
                    ops = [c["op"] for c in p]
                    ctx.distinct(prog_key(e["q"], p), bool(e["S"]) and any(o in ("seek", "seek_danger", "fill_bitset_block") for o in ops))
                for k in qkinds(e["q"]):
                    ctx.cov["query_kinds"][k] = ctx.cov["query_kinds"].get(k, 0) + len(e["progs"])
                if e.get("recipe"):
                    ctx.cov["recipes"][e["recipe"]] = ctx.cov["recipes"].get(e["recipe"], 0) + len(e["progs"])
    ctx.cov["traces_validated_against_impl"] += accepted
    return accepted


# ------------------------------------------------------------------ the sub-runs
def model_checking(ctx):
    vlib.mc_check(ctx, "MC_DocSet", "MC_DocSet_neg.cfg", expect_violation="StickyEnd", timeout=300, workers=6)
    r = vlib.mc_check(ctx, "MC_DocSet", "MC_DocSet.cfg", coverage=True, timeout=300, workers=6)
    if "Next" in r.coverage_zero_actions():
        raise vlib.ToolError("MC_DocSet: Next never taken")
    if not ctx.quick:
        vlib.mc_check(ctx, "MC_DocSet", "MC_DocSet_big.cfg", timeout=900, workers=6)


def replay_generated(ctx):
    global UIDX
    rng = random.Random(ctx.seed)
    U, depth = (4, 3) if ctx.quick else (5, 4)
    UIDX = U
    cases = gen_programs(ctx, U, depth)
    ctx.cov["programs_enumerated_by_tlc"] = len(cases)
    rs = [1, 129, 1025, 4097]
    rweights = [3, 4, 2, 1] if ctx.quick else [2, 3, 3, 2]
    per_case = 1 if ctx.quick else 2
    groups = {}
    cache = {}
    for ci, c in enumerate(cases):
        S = sum(1 << d for d in c["s"])
        if S not in cache:
            cache[S] = recipes(S)
        rec = cache[S]
        for k in range(per_case):
            name, q, scoring = rec[(ci * per_case + k + rng.randrange(3)) % len(rec)]
            # one stripe width per (recipe, S) group keeps the number of large sequences small
            r = random.Random(f"{name}/{S}/{scoring}/{ctx.seed}/{k if not ctx.quick else 0}").choices(rs, rweights)[0]
            g = groups.setdefault((name, scoring, S, r), {"r": r, "u": U, "q": q, "scoring": scoring, "recipe": name,
                                                         "abs": {"s": c["s"], "r": r}, "progs": []})
            g["progs"].append(concretise(c["prog"], r, rng))
    cp = ctx.path("gen_cases.ndjson")
    vlib.write_ndjson(cp, list(groups.values()))
    tp = ctx.path("gen_trace.ndjson")
    vlib.run_bin("docset_driver", ["cases", "--in", cp, "--out", tp], timeout=900, mem_gb=12)
    ev = vlib.read_ndjson(tp)
    # judged in chunks (a thorough trace has ~3,000 scorer lines with sequences of up to 20,000 documents)
    n = 0
    for j in range(0, len(ev), 700):
        n += validate(ctx, ev[j:j + 700], f"gen{j // 700}")
    ctx.sample({"kind": "TLC-enumerated call program, concretised on the stripe index and run on a real scorer",
                "abstract": cases[len(cases) // 2], "scorer": next(e for e in ev if e.get("ev") == "scorer")["q"]})
    log(f"[R] {len(cases)} programs enumerated by TLC, {sum(len(g['progs']) for g in groups.values())} runs in {len(groups)} (recipe, scoring, S, r) groups, {n} accepted")
    return ev


def random_programs(ctx, seed, docs, queries, progs, maxlen, label, extra=None):
    tp = ctx.path(f"{label}_trace.ndjson")
    vlib.run_bin("docset_driver", ["random", "--seed", seed, "--docs", docs, "--queries", queries, "--progs", progs,
                                   "--maxlen", maxlen, "--out", tp] + (extra or []), timeout=900, mem_gb=12)
    ev = vlib.read_ndjson(tp)
    n = validate(ctx, ev, label)
    log(f"[T] {label}: {queries} random query trees x segments x {progs} random programs, {n} programs accepted")
    return ev


RICH = {"seed": 7, "docs": 6000, "bigseg": True}


def window_walks(S, rng, n):
    """programs over two consecutive 4096-document windows of a buffered union whose documents are S (sorted): leave the first
    bucket, seek inside the window over at least one bucket, cross the window by advance, visit the next window at the offsets
    of the skipped documents (score() there must be the plain-advance score).  Inputs only."""
    import bisect
    progs = []
    w0 = S[0]
    i1 = bisect.bisect_left(S, w0 + 4096)
    for _ in range(n):
        p = []
        lead = rng.randrange(3)
        if lead == 0:
            p += [{"op": "fill_buffer"}] * rng.randint(1, 3)
        elif lead == 1:
            p += [{"op": "advance"}] * rng.randint(3, 70)
        a = w0 + rng.randint(64, 1200)
        b = min(a + rng.randint(64, 1800), w0 + 4000)
        p += [{"op": "seek", "t": a}, {"op": "seek", "t": b}]
        p.append({"op": "seek", "t": w0 + 4096 - rng.randint(1, 40)})
        p += [{"op": "advance"}] * rng.randint(2, 45)
        if i1 < len(S):
            w1 = S[i1]
            t = w1 + (a - w0)
            for _ in range(rng.randint(4, 12)):
                p.append({"op": "seek", "t": min(t, w1 + 4090)})
                if rng.random() < 0.5:
                    p.append({"op": "advance"})
                t += rng.randint(1, max(2, (b - a) // 3))
        progs.append(p)
    return progs


def window_family(ctx):
    """scoring unions (also as the lead of an intersection / under reqopt, exclusion, boost) on the stripe index with 4097
    documents per stripe, driven by window walks; judged like everything else (the scores of the plain-advance pass)"""
    rng = random.Random(ctx.seed + 77)
    r, u = 4097, 5
    cases = []
    nprog = 6 if ctx.quick else 25
    for mask in ([31, 27, 13] if ctx.quick else [31, 27, 13, 30, 21, 7]):
        S = [i * r + j for i in range(u) if mask >> i & 1 for j in range(r)]
        A, Bm = mask & 0b10101, mask & 0b01110
        unions = {
            "win_union2": B([should(T(A)), should(T(Bm))]),
            "win_union3": B([should(T(mask & 0b00011)), should(T(mask & 0b01110)), should(T(mask & 0b11000))]),
            "win_dismax": {"k": "dismax", "qs": [T(A), T(Bm)], "tie": 0.3},
            "win_boost_union": {"k": "boost", "q": B([should(T(A)), should(T(Bm))]), "b": 2.0},
            "win_union_mixed": B([should(T(A)), should(irange(Bm, "f"))]),
            "win_reqopt_union_must": B([must(B([should(T(A)), should(T(Bm))])), should(T(0b01101))]),
            "win_exclude_union": B([should(T(A)), should(T(Bm)), mustnot(T(0))]),
        }
        for name, q in unions.items():
            cases.append({"r": r, "u": u, "q": q, "scoring": True, "recipe": name, "abs": {"s": [i for i in range(u) if mask >> i & 1], "r": r},
                          "progs": window_walks(S, rng, nprog)})
    cp = ctx.path("win_cases.ndjson")
    vlib.write_ndjson(cp, cases)
    tp = ctx.path("win_trace.ndjson")
    vlib.run_bin("docset_driver", ["cases", "--in", cp, "--out", tp], timeout=600, mem_gb=12)
    n = validate(ctx, vlib.read_ndjson(tp), "win")
    log(f"[R] window walks over scoring unions: {sum(len(c['progs']) for c in cases)} programs on {len(cases)} scorers, {n} accepted")


def regression_cases(ctx):
    """one small case per repaired defect class (F29 BitSetDocSet sticky end, F30 Intersection count, F32 / F33 union
    seek_danger, F31 union fill_buffer scores): they must be accepted like everything else"""
    t = lambda x: {"k": "term", "f": "title", "t": x, "opt": "freq"}
    cases = [
        # BitSetDocSet: seek past the end, then advance
        {"rich": RICH, "q": {"k": "set", "f": "title", "ts": ["t1", "t2"]}, "scoring": False,
         "progs": [[{"op": "seek", "t": TERMINATED}, {"op": "advance"}], [{"op": "advance"}, {"op": "seek", "t": 7000}, {"op": "advance"}]]},
        # Intersection::count_including_deleted, dense path (stripe index, 1025 documents per stripe)
        {"r": 1025, "u": 5, "q": B([must(T(0b10101)), must(irange(0b00100, "f"))]), "scoring": False, "progs": [[{"op": "fill_buffer"}, {"op": "count"}]]},
        # BufferedUnionScorer::seek_danger before the window (stripes {0,3,4} of 4097 documents)
        {"r": 4097, "u": 5, "q": B([should(T(0b10001)), should(irange(0b01000))]), "scoring": False,
         "progs": [[{"op": "seek", "t": 4096}, {"op": "seek_danger", "t": 4097}, {"op": "seek_danger", "t": 10242}]]},
        # a union member left in the danger zone (stripe index: the phrase s25 s27 matches stripe 0 only, its terms co-occur from 12291 on)
        {"r": 4097, "u": 5, "q": B([should({"k": "range", "f": "n", "lo": {"b": "in", "v": 18}, "hi": {"b": "in", "v": 18}}),
                                    should({"k": "phrase", "f": "m", "ts": ["s25", "s27"], "slop": 0})]), "scoring": False,
         "progs": [[{"op": "seek_danger", "t": 12289}, {"op": "seek_danger", "t": 12290}, {"op": "advance"}]]},
        # BufferedUnionScorer::fill_buffer and scores
        {"rich": RICH, "q": B([should(t("all")), should(t("t0"))]), "scoring": True,
         "progs": [[{"op": "fill_buffer"}, {"op": "advance"}], [{"op": "fill_buffer"}] * 70 + [{"op": "advance"}] * 3]},
    ]
    cp = ctx.path("kf_cases.ndjson")
    vlib.write_ndjson(cp, cases)
    tp = ctx.path("kf_trace.ndjson")
    vlib.run_bin("docset_driver", ["cases", "--in", cp, "--out", tp], timeout=300)
    seen = []
    n = validate(ctx, vlib.read_ndjson(tp), "regr", expect=seen)
    ctx.cov["repaired_findings_regressed"] = {"F29": any(KF_BITSET in s for s in seen), "F31": any(KF_UNIONFILL in s for s in seen),
                                              "F30": any(KF_INTERCOUNT in s for s in seen), "F32": any(KF_UNIONDANGER in s for s in seen),
                                              "F33": any(KF_UNIONMEMBER in s for s in seen)}
    log(f"[regr] {n} programs of the regression cases of F29-F33 accepted")


def binding_selftest(ctx, events):
    """corrupt one returned value of an accepted trace: the judge must reject"""
    lines = [e for e in events if e.get("ev") == "scorer" and len(e["S"]) >= 3 and e["progs"]][:40]
    results = {}

    def first(pred):
        for e in lines:
            for pi, p in enumerate(e["progs"]):
                for ci, c in enumerate(p):
                    if pred(e, c):
                        return e, pi, ci
        return None

    muts = {
        "seek_returns_next_document": (lambda e, c: c.get("op") == "seek" and c.get("ret") in e["S"][:-1],
                                        lambda e, c: c.update(ret=e["S"][e["S"].index(c["ret"]) + 1], doc_after=e["S"][e["S"].index(c["ret"]) + 1])),
        "fill_buffer_loses_a_document": (lambda e, c: c.get("op") == "fill_buffer" and len(c.get("ret", [])) >= 2,
                                         lambda e, c: c["ret"].pop(1)),
        "count_off_by_one": (lambda e, c: c.get("op") == "count", lambda e, c: c.update(ret=c["ret"] + 1)),
        "advance_after_end_returns_a_document": (lambda e, c: c.get("op") == "advance" and c.get("ret") == TERMINATED,
                                                 lambda e, c: c.update(ret=e["S"][0], doc_after=e["S"][0])),
        "score_changed": (lambda e, c: "score" in c, lambda e, c: c.update(score=c["score"] + 100000)),
        "seek_danger_lower_bound_skips_a_document": (lambda e, c: c.get("op") == "seek_danger" and not c.get("found") and c.get("lb", TERMINATED) < TERMINATED
                                                     and any(d > c["lb"] for d in e["S"]),
                                                     lambda e, c: c.update(lb=min(d for d in e["S"] if d > c["lb"]) + 1)),
    }
    for name, (pred, mut) in muts.items():
        hit = first(pred)
        if not hit:
            continue
        e, pi, ci = hit
        e2 = json.loads(json.dumps(e))
        e2["progs"] = [e2["progs"][pi]]
        mut(e2, e2["progs"][0][ci])
        p = ctx.path(f"selftest_{name}.ndjson")
        vlib.write_ndjson(p, [{"ev": "reset"}, vlib.strip_nulls(e2)])
        r = vlib.run_tlc("DocSetTrace", "DocSetTrace.cfg", workers=1, timeout=120, trace=p, deque=True, heap="2g")
        if r.tool_error and not r.rejected:
            raise vlib.ToolError(f"binding self-test {name}: TLC failed")
        results[name] = "rejected" if r.rejected else "ACCEPTED"
    ctx.cov["binding_selftest"] = results
    bad = [k for k, v in results.items() if v == "ACCEPTED"]
    if bad or len(results) < 4:
        raise vlib.ToolError(f"binding self-test: corrupted traces accepted or too few mutations applicable: {results}")


def run(ctx):
    ctx.cov["query_kinds"] = {}
    ctx.cov["recipes"] = {}
    ctx.cov["rejections_by_class"] = {}
    ctx.cov["rule"] = ("a case is one call program run on one fresh real scorer (query, segment); distinct = distinct (top-level query kind, "
                       "sequence of (operation, target)); non-trivial = the scorer is not empty and the program contains a seek, seek_danger or "
                       "fill_bitset_block; traces_validated_against_impl counts programs accepted by TLC")
    ctx.assumptions += ["TLC and the Json community module are trusted",
                        "the oracle sequence S is the plain-advance enumeration of a fresh scorer of the same weight (the property's own oracle); "
                        "in the R direction TLC also checks that S is exactly the stripes of the abstract set",
                        "scores of sums of more than two clauses are compared within 4n ulp (the order of summation is not fixed), all others bit for bit",
                        "the harness is a release build without debug assertions: only wrong values and release-build panics are observations",
                        "seek_danger chains follow the documented contract literally (strictly increasing targets, also below a returned lower bound)"]
    model_checking(ctx)
    ev = replay_generated(ctx)
    if ctx.quick:
        ev2 = random_programs(ctx, ctx.seed, 3000, 200, 6, 25, "rand")
        random_programs(ctx, ctx.seed + 1, 6000, 100, 6, 40, "rand_big", ["--bigseg"])
        random_programs(ctx, ctx.seed + 2, 1500, 100, 6, 30, "rand_deep", ["--depth", "3"])
    else:
        ev2 = random_programs(ctx, ctx.seed, 3000, 600, 8, 25, "rand")
        for i in range(4):
            random_programs(ctx, ctx.seed + 10 + i, 4000, 400, 8, 30, f"rand{i}")
        random_programs(ctx, ctx.seed + 1, 12000, 250, 8, 60, "rand_big", ["--bigseg"])
        random_programs(ctx, ctx.seed + 2, 12000, 250, 8, 60, "rand_big2", ["--bigseg", "--depth", "3"])
    window_family(ctx)
    regression_cases(ctx)
    binding_selftest(ctx, [e for e in ev2 if e.get("ev") == "scorer"] + [e for e in ev if e.get("ev") == "scorer"][:200])
    sc = next((e for e in ev2 if e.get("ev") == "scorer" and e["S"] and len(e["progs"][0]) > 3), None)
    if sc:
        ctx.sample({"kind": "random program recorded on a real scorer", "query": sc["q"], "segment": sc["seg"], "len_S": len(sc["S"]), "program": sc["progs"][0][:12]})


def replay(ctx, path):
    ctx.cov["query_kinds"] = {}
    ctx.cov["recipes"] = {}
    ctx.cov["rejections_by_class"] = {}
    files = [os.path.join(path, f) for f in sorted(os.listdir(path)) if f.endswith(".ndjson")] if os.path.isdir(path) else [path]
    for f in files:
        validate(ctx, vlib.read_ndjson(f), "replay")
