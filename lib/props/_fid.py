"""Shared helpers of the encode/decode fidelity engines (C07, C08, C09, C20): TLC case generators,
unit-wise trace judging (one rejected unit does not hide the others)."""
import json
import os
import re

import vlib
from vlib import log


def clean(events, drop=("seq", "th")):
    out = []
    for e in events:
        e = vlib.strip_nulls(e)
        for k in drop:
            e.pop(k, None)
        out.append(e)
    return out


def tlc_cases(ctx, module, cfg, consts=None, tag="CASE", timeout=300, simulate=None, depth=None, seed=None, workers=1):
    """Run a generator specification and return the JSON cases it printed with PrintT(<<tag, ToJson(x)>>)."""
    text = open(os.path.join(vlib.SPEC, cfg)).read()
    for k, v in (consts or {}).items():
        text, n = re.subn(rf"^(\s*){k} = .*$", rf"\g<1>{k} = {v}", text, flags=re.M)
        if n == 0:
            raise vlib.ToolError(f"{cfg}: no constant {k}")
    cfgname = f"{module}_{ctx.prop}_{os.getpid()}.cfg"
    open(os.path.join(vlib.SPEC, cfgname), "w").write(text)
    extra = ["-seed", str(seed)] if seed is not None else None
    try:
        r = vlib.run_tlc(module, cfgname, workers=workers, timeout=timeout, simulate=simulate, depth=depth, extra=extra)
    finally:
        os.remove(os.path.join(vlib.SPEC, cfgname))
    ctx.add_tlc(module, r, kind="generator")
    if r.violated or r.tool_error or (r.rc != 0 and not simulate):
        out = ctx.path(f"{module}.gen.tlc.out")
        open(out, "w").write(r.out)
        log(r.out[-3000:])
        raise vlib.ToolError(f"generator {module}/{cfg} failed")
    cases, seen = [], set()
    for m in re.finditer(r'<<"%s", "(.*)">>' % tag, r.out):
        s = m.group(1).encode().decode("unicode_escape")
        if s in seen:
            continue
        seen.add(s)
        cases.append(json.loads(s))
    return cases


def split_units(events, is_start):
    units, cur = [], []
    for e in events:
        if is_start(e) and cur:
            units.append(cur)
            cur = []
        cur.append(e)
    if cur:
        units.append(cur)
    return units


def rejected_line(r):
    """(line, text) of the first unexplained event of a rejected trace"""
    if r.rejected:
        return int(r.rejected[0][0]), r.rejected[0][1]
    # invariant violation: the violating state is the last one generated (a validated trace is linear;
    # TLC's printed error trace may be cut)
    m = re.findall(r"/\\ l = (\d+)\s*$", r.out, re.M)
    return max(int(m[-1]) - 1 if m else 1, r.generated - 1, 1), ""


def judge_units(ctx, module, cfg, units, label, describe=None, on_accept=None, max_rounds=8, timeout=300, heap="6g",
                count_traces=True, collect=None):
    """Validate the concatenation of `units` (lists of events) with the trace specification.  A
    rejected unit is reported as a violation (its events + TLC's output are the replay) and judging
    goes on with the remaining units.  describe(unit, line_in_unit, tlc_text) -> (what, detail)."""
    pending = list(units)
    accepted, rounds = 0, 0
    while pending and rounds < max_rounds:
        rounds += 1
        flat = [e for u in pending for e in u]
        path = ctx.path(f"{label}.{rounds}.ndjson")
        vlib.write_ndjson(path, flat)
        ok, r = vlib.validate_trace(ctx, module, cfg, path, name=f"{label}.{rounds}", timeout=timeout, heap=heap)
        if collect is not None:
            collect.append(r.out)
        if ok:
            accepted += len(pending)
            if on_accept:
                for u in pending:
                    on_accept(u)
            pending = []
            break
        line, text = rejected_line(r)
        pos, bad = 0, len(pending) - 1
        for i, u in enumerate(pending):
            if pos < line <= pos + len(u):
                bad = i
                break
            pos += len(u)
        unit = pending[bad]
        k = min(max(line - pos, 1), len(unit))
        if describe:
            what, detail = describe(unit, k, text)
        else:
            what = f"trace rejected by {module}: first unexplained event (line {k} of the unit): {json.dumps(unit[k - 1])[:600]}"
            detail = json.dumps(unit[max(0, k - 4):k])[:4000]
        rp = ctx.path(f"{label}.rejected.{rounds}.ndjson")
        vlib.write_ndjson(rp, unit)
        outp = ctx.path(f"{label}.rejected.{rounds}.tlc.out")
        open(outp, "w").write(r.out[-200000:])
        ctx.violation(what, [rp, outp], detail)
        accepted += bad
        if on_accept:
            for u in pending[:bad]:
                on_accept(u)
        pending = pending[bad + 1:]
    if pending:
        log(f"[{label}] {len(pending)} units not judged after {max_rounds} rejected units")
    if count_traces:
        ctx.cov["traces_validated_against_impl"] += accepted
    return accepted


def must_reject(ctx, module, cfg, events, name, timeout=120):
    """binding self-test: a corrupted trace must be rejected"""
    p = ctx.path(f"selftest_{name}.ndjson")
    vlib.write_ndjson(p, events)
    r = vlib.run_tlc(module, cfg, workers=1, timeout=timeout, trace=p, deque=True, heap="4g")
    if r.tool_error and not r.rejected and not r.violated:
        log(r.out[-3000:])
        raise vlib.ToolError(f"binding self-test {name}: TLC failed")
    res = "rejected" if not r.ok else "ACCEPTED"
    ctx.cov["binding_selftest"][name] = res
    if res == "ACCEPTED":
        raise vlib.ToolError(f"binding self-test: corrupted trace ({name}) was accepted by {module}")
    return res
