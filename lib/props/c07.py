"""C07 - the inverted index records exactly terms, documents, frequencies, positions.
M: InvertedIndex.tla (absolute positions with the gap between values, postings, field norm table,
   byte order, merge = concatenation lemmas, the advance / seek cursor machine) checked by TLC;
   negative configuration: a seek that skips the current document.
R: TLC enumerates seek programs (targets around the 128-posting block, between postings, past the
   end) and posting-list shapes (length 1 .. 20,000 around multiples of 128, a doc-id gap of b bits,
   term frequencies around 128, record options); invidx_driver builds the segments and runs the
   programs on the real SegmentPostings.
T: seeded document collections over every value type (pre-tokenized text with Basic / WithFreqs /
   WithFreqsAndPositions, field norms on / off, multi-valued with position gaps, raw strings, u64,
   i64, bool, date, bytes, ip, facets, JSON paths), empty / long / shared-prefix / unicode terms,
   before and after deletes + merge: the driver dumps the whole inverted index (terms().stream(),
   read_postings, doc_freq, field norms, total_num_tokens); InvertedIndexTrace recomputes it from the
   documents."""
import json
import os
import random

import vlib
from vlib import log
from props import _fid

LEVEL = "model_checking"
MOD, CFG = "InvertedIndexTrace", "InvertedIndexTrace.cfg"
WORDS = ["w0", "w1", "w2", "w3", "w4", "w5", "w6", "w7", "x", "yy", "zzz", "é", "日本", "😀", "a b", "", "T2"]


def model_checking(ctx):
    vlib.mc_check(ctx, "MC_InvertedIndex", "MC_InvertedIndex_neg.cfg", expect_violation="SeekSameStays", timeout=300, workers=4)
    r = vlib.mc_check(ctx, "MC_InvertedIndex", "MC_InvertedIndex.cfg", coverage=True, timeout=300, workers=4)
    zero = r.coverage_zero_actions()
    if zero:
        raise vlib.ToolError(f"MC_InvertedIndex: actions never taken: {zero}")
    vlib.mc_check(ctx, "MC_InvertedIndex", "MC_InvertedIndex_all.cfg", timeout=600, workers=6)


# ------------------------------------------------------------------ documents
def text_value(rng, words, n):
    """a value = tokens [key, relative position, position length]; positions never decrease"""
    toks, p = [], 0
    for _ in range(n):
        w = rng.choice(words)
        if isinstance(w, tuple):            # (key, bytes): a long run given as "long:<c>:<n>"
            toks.append([w[0], p, 1, w[1]])
        else:
            toks.append([w, p, rng.choice([1, 1, 1, 2])])
        p += rng.choice([1, 1, 1, 0, 2])
    return toks


def rich_doc(rng, words):
    d = {}
    for f in ("pos", "frq", "bas", "nn"):
        if rng.random() < 0.7:
            d[f] = [text_value(rng, words, rng.choice([0, 1, 2, 3, 6])) for _ in range(rng.choice([1, 1, 2, 3]))]
    if rng.random() < 0.4:
        d["raw"] = [rng.choice(["hello world", "x", "", "é", "Hello"]) for _ in range(rng.choice([1, 2]))]
    if rng.random() < 0.5:
        d["u"] = ["u:%d" % rng.choice([0, 1, 255, 256, 2 ** 32, 2 ** 63, 2 ** 64 - 1, rng.randrange(50)]) for _ in range(rng.choice([1, 1, 2]))]
    if rng.random() < 0.4:
        d["i"] = ["i:%d" % rng.choice([0, -1, 1, -2 ** 63, 2 ** 63 - 1, rng.randrange(-20, 20)]) for _ in range(rng.choice([1, 2]))]
    if rng.random() < 0.3:
        d["b"] = ["b:" + rng.choice(["true", "false"])]
    if rng.random() < 0.3:
        d["d"] = ["d:%d" % rng.choice([0, 1, -1, 1600000000, -5000000000, rng.randrange(10)])]
    if rng.random() < 0.3:
        d["y"] = ["y:" + rng.choice(["", "00", "00ff", "ff", "0000", "616263"])]
    if rng.random() < 0.3:
        d["ip"] = ["ip:%032x" % rng.choice([0, 2 ** 128 - 1, 0xffff0a000001, 0xffffc0a80001, rng.randrange(2 ** 128)])]
    if rng.random() < 0.3:
        d["fa"] = [[rng.choice(["a", "b", "c c", "é"]) for _ in range(rng.choice([0, 1, 2, 3]))] for _ in range(rng.choice([1, 2]))]
    if rng.random() < 0.4:
        streams, used = [], set()
        for _ in range(rng.choice([1, 2, 3])):
            path = rng.choice([["t"], ["o", "n"], ["o", "t"], ["a", "b", "c"], ["k k"]])
            if tuple(path) in used:
                continue
            used.add(tuple(path))
            vals = []
            nobj = rng.choice([1, 1, 2, 3])          # the document holds nobj values of the JSON field
            for vi in range(rng.choice([1, 1, 2, 3])):
                k = rng.random()
                if k < 0.6:
                    ws = [rng.choice(["hello", "big", "world", "x1", "zz"]) for _ in range(rng.choice([1, 2, 3]))]
                    vals.append({"s": ws, "obj": min(vi, nobj - 1)})
                elif k < 0.85:
                    vals.append({"i": str(rng.choice([0, -7, 5, 2 ** 40, -2 ** 63, rng.randrange(10)]))})
                else:
                    vals.append({"o": rng.random() < 0.5})
            streams.append({"path": path, "vals": vals})
        d["j"] = streams
        if rng.random() < 0.4:
            d["j2"] = [{"path": st["path"], "vals": [dict(v) for v in st["vals"] if "s" in v][:2] or [{"i": "3"}]} for st in streams[:2]]
    return d


def rich_case(i, rng, special=False):
    words = list(WORDS)
    if special:
        pre = "p" * rng.choice([300, 1000])
        words += [pre, pre + "a", pre + "b", pre + "aa", rng.choice([("long:q:60000", 60000), "q" * 3000, ("long:z:65530", 65530), ("long:z:65531", 65531), ("long:y:70000", 70000)])]
    nseg = rng.choice([1, 2, 2, 3])
    segs = [[rich_doc(rng, words) for _ in range(rng.choice([1, 5, 20, 60]))] for _ in range(nseg)]
    n = sum(len(s) for s in segs)
    dels = sorted(set(rng.randrange(1, n + 1) for _ in range(rng.choice([0, 1, n // 4])))) if n > 1 else []
    if len(dels) >= n:
        dels = dels[:-1]
    seeks = [{"field": f, "term": rng.choice(words[:8]), "prog": [["same"], ["adv"], ["skip", 2], ["end"]]} for f in ("pos", "frq", "bas")]
    return {"id": i, "kind": "rich", "segs": segs, "deletes": dels, "merge": rng.random() < 0.7, "seeks": seeks}


def shape_case(i, sh, progs, rng, split=False):
    """a posting list of the generated shape for the key T in field sh.opt; other documents hold other words"""
    f = sh["opt"]
    ids = []
    for k in range(1, sh["len"] + 1):
        ids.append((k - 1) * sh["step"] + ((2 ** sh["bits"]) if sh["bits"] > 0 and k > sh["mid"] else 0))
    if ids[-1] != sh["last_doc"]:
        raise vlib.ToolError("shape: doc ids differ from what TLC computed")
    have = set(ids)
    docs = []
    for d in range(ids[-1] + 1):
        if d in have:
            tf = rng.choice([1, 1, 1, 2, 3])
            docs.append({f: [[["T", p, 1] for p in range(tf)] + ([["w1", tf, 1]] if d % 3 == 0 else [])]})
        elif d % 7 == 0:
            docs.append({f: [[["w1", 0, 1], ["w2", 1, 1]]]})
        else:
            docs.append({})
    segs = [docs]
    dels, merge = [], False
    if split and len(docs) >= 4:
        cut = len(docs) // 2
        segs = [docs[:cut], docs[cut:]]
        dels = sorted(set(rng.randrange(1, len(docs) + 1) for _ in range(3)))
        merge = True
    seeks = [{"field": f, "term": "T", "prog": p} for p in progs]
    return {"id": i, "kind": "shape", "shape": {k: sh[k] for k in ("len", "step", "bits", "opt")}, "segs": segs, "deletes": dels, "merge": merge, "seeks": seeks}


def tf_case(i, t, rng):
    f = t["opt"]
    docs = []
    for tf in (max(1, t["tf"] - 1), t["tf"], t["tf"] + 1):
        vals, left = [], tf
        while left > 0:                       # spread over several values (position gaps inside the list)
            n = min(left, rng.choice([1, 50, 128, 200]))
            vals.append([["T", p, 1] for p in range(n)] + [["w1", n, 1]])
            left -= n
        docs.append({f: vals})
        docs.append({f: [[["w1", 0, 1]]]})
    return {"id": i, "kind": "tf", "tf": t["tf"], "segs": [docs], "deletes": [], "merge": False,
            "seeks": [{"field": f, "term": "T", "prog": [["adv"], ["same"], ["adv"], ["end"]]}]}


def vintb_case(i, v, rng):
    """a posting list of `listlen` documents for T; some documents hold T with the generated frequency, or twice with the
    generated gap between the two positions: one inside the first 128 postings, the others in the incomplete last block"""
    f, n, val = v["opt"], v["listlen"], v["value"]
    special = {n - 1, n - 2} | ({5} if n > 128 else {0})
    docs = []
    for d in range(n):
        if d in special:
            if v["kind"] == "biggap":
                if v["place"] == "values":          # the gap lies between two values of the field
                    docs.append({f: [[["T", 0, 1], ["w1", 1, 1]], [["T", val, 1], ["T", val + 3, 1]]]})
                    continue
                if v["place"] == "many":            # more than 128 positions: bit-packed block(s), the gap in the tail
                    toks = [["T", p, 1] for p in range(130)] + [["T", 130 + val, 1], ["T", 137 + val, 1]]
                else:
                    toks = [["T", 0, 1], ["w1", 1, 1], ["T", val, 1], ["T", val + 7, 1]]
            elif v["kind"] == "tf":
                toks = [["T", p, 1] for p in range(val)]
            else:
                toks = [["T", 0, 1], ["w1", 1, 1], ["T", val, 1], ["T", val + (val if d == n - 1 else 1), 1]]
        else:
            toks = [["T", 0, 1]] + ([["w2", 1, 1]] if d % 5 == 0 else [])
        docs.append({f: [toks]})
    return {"id": i, "kind": "vintb", "vintb": v, "segs": [docs], "deletes": [], "merge": False,
            "seeks": [{"field": f, "term": "T", "prog": [["skip", n - 3], ["adv"], ["adv"], ["end"]]}]}


def many_case(i, m, rng):
    """documents whose (field, value) pairs of several text fields are interleaved in the TLC-generated order; every
    value is one or two distinct tokens, so a permuted value shows in the positions"""
    fields = ["pos", "nn", "frq"][:m["nfields"]]
    docs = []
    for variant in range(3):
        d, order, count = {}, [], {}
        for j, fno in enumerate(m["order"]):
            f = fields[(fno - 1 + variant) % len(fields)]
            k = count.get(f, 0)
            count[f] = k + 1
            toks = [[f"v{variant}_{f}_{k}", 0, 1]] + ([["w1", 1, 1]] if j % 4 == 0 else [])
            d.setdefault(f, []).append(toks)
            order.append([f, k])
        d["order"] = order
        docs.append(d)
    return {"id": i, "kind": "many", "many": {k: m[k] for k in ("nfields", "pairs", "pattern")}, "segs": [docs], "deletes": [], "merge": False, "seeks": []}


def jsonvals_case(i, j, rng):
    """documents holding several values of the JSON field that share a text path (TLC-generated shape)"""
    docs = []
    for variant in range(3):
        words = ["hello", "big", "world"] if j["repeated"] else None
        vals, n = [], 0
        for v in range(j["values"]):
            for _ in range(2 if j["array"] and v == 0 else 1):
                ws = [words[(n + x) % 3] if words else f"t{variant}x{n + x}" for x in range(j["words"])]
                n += j["words"]
                vals.append({"s": ws, "obj": v})
        streams = [{"path": ["t"], "vals": vals}]
        if variant:
            streams.append({"path": ["o", "n"], "vals": [{"s": ["side", "hello"], "obj": j["values"] - 1}, {"i": "5", "obj": 0}]})
        docs.append({"j": streams, "pos": [[["a", 0, 1]]]})
    return {"id": i, "kind": "jsonvals", "jsonvals": j, "segs": [docs[:2], docs[2:]], "deletes": [], "merge": True, "seeks": []}


def json2_case(i, c, rng):
    """documents with text under the same path in both JSON fields (TLC-generated shape)"""
    path = ["o", "t"] if c["nested"] else ["t"]
    docs = []
    for variant in range(3):
        def leaves(field_no, words, many):
            out = [{"s": [f"f{field_no}v{variant}w{x}" if x % 2 else "hello" for x in range(words)], "obj": 0}]
            if many:
                out.append({"s": ["again", "hello"], "obj": 0 if variant % 2 else 1})
            return out
        d = {"j": [{"path": path, "vals": leaves(1, c["words1"], c["multi"] == "first")}],
             "j2": [{"path": path, "vals": leaves(2, c["words2"], c["multi"] == "second")}]}
        if c["disjoint_path_too"]:
            d["j"].append({"path": ["only1"], "vals": [{"s": ["x1", "x2"], "obj": 0}]})
            d["j2"].append({"path": ["only2"], "vals": [{"s": ["y1"], "obj": 0}, {"i": "7", "obj": 0}]})
        if variant == 2:
            d.pop("j")          # a document with the path in the second field only
        docs.append(d)
    return {"id": i, "kind": "json2", "json2": c, "segs": [docs[:2], docs[2:]], "deletes": [], "merge": True, "seeks": []}


def longtok_case(i, c, rng):
    """a token of MaxTokenLen / MaxTokenLen + 1 / 70,000 bytes: alone in a value, between normal tokens, in a multi-valued field"""
    f, n = c["opt"], c["bytes"]
    blob = [f"long:{'xyz'[n % 3]}:{n}", 0, 1, n]
    docs = []
    for variant in range(3):
        if c["place"] == "alone":
            vals = [[blob]]
        elif c["place"] == "between":
            vals = [[["a", 0, 1], [blob[0], 1, 1, n], ["b", 2, 1], ["a", 3, 1]]]
        else:
            vals = [[["a", 0, 1]], [blob], [["b", 0, 1], ["c", 1, 1]]]
        if variant == 1:
            vals = vals + [[["w1", 0, 1]]]
        docs.append({f: vals})
        if variant == 2:
            docs.append({f: [[["a", 0, 1]]]})
    return {"id": i, "kind": "longtok", "longtok": c, "segs": [docs[:2], docs[2:]], "deletes": [], "merge": True, "seeks": []}


def describe(unit, k, text):
    e = unit[k - 1]
    seg = next((x for x in reversed(unit[:k]) if x.get("ev") == "seg"), {})
    if e.get("ev") == "panic":
        return f"panic while reading the inverted index ({e.get('in')}, field {e.get('field')})", json.dumps(e)[:2000]
    if e.get("ev") == "field":
        return (f"inverted index of field {e['field']} (record option {e.get('opt')}, {len(e['terms'])} terms, segment of {seg.get('max_doc')} documents, "
                f"phase {seg.get('phase')}) is not what the documents prescribe: InvertedIndexTrace rejects the dump",
                json.dumps({"terms_head": [{x: (v if not isinstance(v, list) or len(v) < 30 else v[:30] + ['...']) for x, v in t.items()} for t in e["terms"][:6]],
                            "norms": (e.get("norms") or [])[:40], "total": e.get("total"), "ids": seg.get("ids", [])[:40]})[:4000])
    if e.get("ev") == "seek":
        return (f"seek program on the postings of {e['k']!r} in field {e['field']}: a step does not end on the first document >= target / wrong frequency or positions",
                json.dumps(e)[:3000])
    return f"InvertedIndexTrace rejects event {e.get('ev')}: {json.dumps(e)[:400]}", json.dumps(e)[:2000]


def run_cases(ctx, cases, label):
    cp = ctx.path(f"{label}_cases.ndjson")
    vlib.write_ndjson(cp, [{k: v for k, v in c.items() if k not in ("kind", "shape", "tf", "many", "jsonvals", "vintb", "json2", "longtok")} for c in cases])
    tp = ctx.path(f"{label}_trace.ndjson")
    vlib.run_bin("invidx_driver", ["run", "--in", cp, "--out", tp], timeout=900, mem_gb=12)
    ev = _fid.clean(vlib.read_ndjson(tp))
    units = _fid.split_units(ev, lambda e: e.get("ev") == "docs")
    stats = ctx.cov.setdefault("index", {"segments_dumped": 0, "terms": 0, "postings": 0, "positions": 0, "longest_posting_list": 0, "seek_steps": 0,
                                         "fields": {}})

    def acc(u):
        for e in u:
            if e.get("ev") == "seg":
                stats["segments_dumped"] += 1
            elif e.get("ev") == "field":
                stats["terms"] += len(e["terms"])
                if e["terms"]:
                    stats["fields"][e["field"]] = stats["fields"].get(e["field"], 0) + 1
                for t in e["terms"]:
                    stats["postings"] += len(t["docs"])
                    stats["positions"] += sum(len(p) for p in t["pos"])
                    stats["longest_posting_list"] = max(stats["longest_posting_list"], len(t["docs"]))
            elif e.get("ev") == "seek":
                stats["seek_steps"] += len(e["steps"])
        ctx.distinct((label, u[0]["case"]), len(u[0]["docs"]) >= 2)
    n_ok = _fid.judge_units(ctx, MOD, CFG, units, label, describe=describe, on_accept=acc, timeout=900, heap="12g")
    return units, n_ok


def selftest(ctx, units):
    u = next((x for x in units if any(e.get("ev") == "field" and e["field"] == "pos" and any(len(t["docs"]) >= 2 for t in e["terms"]) for e in x)), None)
    if not u:
        return
    for name in ("position_changed", "posting_dropped", "term_order_swapped", "fieldnorm_changed", "seek_result_changed"):
        t = json.loads(json.dumps(u))
        fe = next(e for e in t if e.get("ev") == "field" and e["field"] == "pos" and any(len(x["docs"]) >= 2 for x in e["terms"]))
        term = next(x for x in fe["terms"] if len(x["docs"]) >= 2)
        if name == "position_changed":
            term["pos"][0][0] += 1
        elif name == "posting_dropped":
            term["docs"].pop()
            term["tf"].pop()
            term["pos"].pop()
            term["df"] -= 1
            term["df_lookup"] = term["df"]
        elif name == "term_order_swapped":
            if len(fe["terms"]) < 2:
                continue
            fe["terms"][0], fe["terms"][1] = fe["terms"][1], fe["terms"][0]
        elif name == "fieldnorm_changed":
            fe["norms"][0] = (fe["norms"][0] + 1) % 256
        else:
            se = next((e for e in t if e.get("ev") == "seek" and len(e["steps"]) >= 2), None)
            if not se:
                continue
            se["steps"][1]["res"][0] += 1
        _fid.must_reject(ctx, MOD, CFG, t, name, timeout=300)


def run(ctx):
    ctx.cov["rule"] = ("a case is one document collection (TLC-generated posting-list shape with TLC-generated seek programs, term-frequency case, or "
                       "seeded documents over all value types) indexed into 1-3 segments, dumped completely, then deleted from / merged and dumped again; "
                       "distinct = distinct case; non-trivial = at least two documents")
    ctx.assumptions += ["TLC and the Json community module are trusted",
                        "text is given pre-tokenized (PreTokenizedString), so analysis is the identity; typed values are compared through their documented term "
                        "encodings, decoded by the harness (big-endian u64, sign-flipped i64, seconds-truncated dates, 16-byte ip, facet prefixes, JSON path\\0type value)",
                        "which documents a segment holds is read from the stored `id` field",
                        "total_num_tokens is only compared while no document was deleted (the merger estimates it from field norms otherwise); "
                        "doc-id gaps are limited to 2^16 (a gap of b bits needs 2^b documents)",
                        "non-text terms of a JSON field are read with doc ids only (they are recorded without frequencies)"]
    model_checking(ctx)
    rng = random.Random(ctx.seed)
    gen = _fid.tlc_cases(ctx, "Gen_InvertedIndex", "Gen_InvertedIndex.cfg", timeout=300)
    progs = [c["prog"] for c in gen if c["what"] == "prog"]
    shapes = [c for c in gen if c["what"] == "shape"]
    tfs = [c for c in gen if c["what"] == "tf"]
    if len(progs) < 2000 or len(shapes) < 300:
        raise vlib.ToolError("Gen_InvertedIndex produced too few cases")
    ctx.cov["generated_programs"], ctx.cov["generated_shapes"] = len(progs), len(shapes)
    rng.shuffle(progs)
    rng.shuffle(shapes)
    small = [s for s in shapes if s["last_doc"] <= 3000]
    mid = [s for s in shapes if 3000 < s["last_doc"] <= 70000 and s["len"] < 20000]
    big = [s for s in shapes if s["len"] == 20000]
    n_small, n_mid, n_big, n_rich = (30, 3, 1, 30) if ctx.quick else (300, 30, 4, 300)
    cases, pi = [], 0
    # every length at least once among the small ones
    chosen, seen = [], set()
    for s in small:
        if s["len"] not in seen:
            seen.add(s["len"])
            chosen.append(s)
    chosen += [s for s in small if s not in chosen][:max(0, n_small - len(chosen))]
    chosen += mid[:n_mid] + [s for s in big if s["bits"] == 0][:n_big]
    for s in chosen:
        k = 8 if s["last_doc"] <= 3000 else 20
        cases.append(shape_case(len(cases), s, progs[pi:pi + k], rng, split=(len(cases) % 3 == 0 and s["last_doc"] <= 3000)))
        pi += k
    for t in tfs[:(8 if ctx.quick else len(tfs))]:
        cases.append(tf_case(len(cases), t, rng))
    vbs = [c for c in gen if c["what"] == "vintb"]
    if len(vbs) < 30:
        raise vlib.ToolError("Gen_InvertedIndex produced no frequency / gap boundary cases")
    for v in vbs:
        if ctx.quick and v["kind"] == "biggap" and v["opt"] != "pos" and v["place"] != "tail":
            continue
        if ctx.quick and v["value"] > 1000 and (v["kind"] == "tf" or v["listlen"] > 128) and v["opt"] != "pos" and v["kind"] != "biggap":
            continue                    # quick: the 16,384-token documents only for the field with positions
        cases.append(vintb_case(len(cases), v, rng))
    ctx.cov["vint_boundary_cases"] = len(vbs)
    manys = [c for c in gen if c["what"] == "many"]
    if len(manys) < 12:
        raise vlib.ToolError("Gen_InvertedIndex produced no many-values cases")
    for m in manys:
        cases.append(many_case(len(cases), m, rng))
    ctx.cov["many_values_cases"] = len(manys)
    jvs = [c for c in gen if c["what"] == "jsonvals"]
    if len(jvs) < 12:
        raise vlib.ToolError("Gen_InvertedIndex produced no JSON multi-value cases")
    for j in jvs:
        cases.append(jsonvals_case(len(cases), j, rng))
    ctx.cov["json_multi_value_cases"] = len(jvs)
    lts = [c for c in gen if c["what"] == "longtok"]
    if len(lts) < 20:
        raise vlib.ToolError("Gen_InvertedIndex produced no over-long token cases")
    for c in lts:
        cases.append(longtok_case(len(cases), c, rng))
    ctx.cov["over_long_token_cases"] = len(lts)
    j2s = [c for c in gen if c["what"] == "json2"]
    if len(j2s) < 12:
        raise vlib.ToolError("Gen_InvertedIndex produced no two-JSON-field cases")
    for c in j2s:
        cases.append(json2_case(len(cases), c, rng))
    ctx.cov["two_json_field_cases"] = len(j2s)
    for i in range(n_rich):
        cases.append(rich_case(len(cases), rng, special=(i % 6 == 0)))
    units, n_ok = run_cases(ctx, cases, "index")
    log(f"[R/T] {len(cases)} cases ({len(chosen)} TLC-generated posting-list shapes with {pi} TLC-generated seek programs, {n_rich} seeded collections), "
        f"{n_ok} accepted; {ctx.cov['index']}")
    selftest(ctx, [u for u in units if len(u[0]["docs"]) < 300])
    c = next(c for c in cases if c["kind"] == "shape")
    ctx.sample({"kind": "TLC-generated posting-list shape + seek programs (R)", "shape": c["shape"], "programs": [s["prog"] for s in c["seeks"]][:4],
                "documents": len(c["segs"][0])})
    c = next(c for c in cases if c["kind"] == "rich")
    ctx.sample({"kind": "seeded document (T), as token streams", "doc": c["segs"][0][0]})
    fe = next((e for u in units for e in u if e.get("ev") == "field" and e["field"] == "pos" and e["terms"]), None)
    if fe:
        ctx.sample({"kind": "dump of one term of field pos (bytes, key, doc freq, docs, tf, positions)",
                    "term": {k: (v if not isinstance(v, list) or len(v) < 12 else v[:12] + ["..."]) for k, v in fe["terms"][0].items()}})


def replay(ctx, path):
    files = [os.path.join(path, f) for f in sorted(os.listdir(path)) if f.endswith(".ndjson")] if os.path.isdir(path) else [path]
    for f in files:
        ev = _fid.clean(vlib.read_ndjson(f))
        _fid.judge_units(ctx, MOD, CFG, [ev], "replay", describe=describe)
