"""C14 - aggregations equal a direct computation and do not depend on partitioning.
M: the merge algebra of spec/Agg.tla (DocInter / Merge / Fin) model checked against the direct
   denotation Den for every partition, merge order and grouping of tiny corpora (+ a negative
   configuration with a broken merge that must fail).
R: TLC (Gen_Agg, simulation of the same state machine) generates corpora <= 6 documents, the
   partition, the merge tree and the request; the harness executes them (also striped so that
   segments cross the 64-document collection blocks).
T: seeded random corpora, request trees, partitions and merge plans.
Every result observed on the real code - AggregationCollector on one index, and
DistributedAggregationCollector per part + merge_fruits in the planned order + a binary serde
round trip + into_final_result after every step - is judged by TLC against Agg!Den
(spec/AggTrace.tla)."""
import copy
import json
import os
import random
import re

import vlib
from vlib import log

LEVEL = "model_checking"
DRIVER = "agg_driver"
NUM_FIELDS = ("v", "w", "f")
# mv: bucket aggregations (range, histogram, composite sources) also on fields where one document has several /
# repeated values.  There doc_count counts values (recorded finding F14), so those cases are judged by the
# specification variant that mirrors F14 (AggTrace_f14.cfg); everything else about them is judged normally.
GENOPT = {"mv": False}


# ----------------------------------------------------------------------------- case generation (T)
def distinct_vals(docs, field, missing=None):
    s = set()
    for d in docs:
        s.update(d[field])
    if missing is not None:
        s.add(missing)
    return len(s)


def gen_metric(rng, allow_cat=True):
    k = rng.choice(["value_count", "sum", "min", "max", "avg", "stats", "extended_stats", "cardinality", "sum", "avg", "percentiles"])
    field = rng.choice(NUM_FIELDS)
    if k == "percentiles":
        a = {"k": k, "field": field, "percents": sorted(rng.sample([0, 1, 5, 10, 25, 50, 75, 90, 95, 99, 100], rng.randint(1, 4)))}
        if rng.random() < 0.2:
            a["missing"] = rng.randint(-5, 5)
        return a
    if allow_cat and k in ("value_count", "cardinality") and rng.random() < 0.3:
        field = "cat"
    a = {"k": k, "field": field}
    # `missing` of the numeric metrics is a number; only cardinality takes a term
    if rng.random() < 0.2 and (field != "cat" or k == "cardinality"):
        a["missing"] = rng.choice([-1, 10]) if field == "cat" else rng.randint(-5, 5)
    return a


ORDERABLE = ("sum", "avg", "min", "max", "value_count", "stats")


def gen_top_hits(rng):
    sort = rng.choice([[["id", True]], [["id", False]], [["g", False], ["id", True]], [["g", True], ["id", False]], [["g", True]], [["g", False]]])
    dv = ["id"] + rng.sample(["w", "cat", "v", "f", "g"], rng.randint(0, 3))
    return {"k": "top_hits", "size": rng.choice([1, 2, 3, 10]), "sort": sort, "dv": dv}


def gen_subs(rng, docs, depth, top=False):
    n = rng.choice([0, 1, 1, 2]) if depth > 0 else 0
    out = []
    for j in range(n):
        out.append([f"s{depth}{j}", gen_agg(rng, docs, depth - 1)])
    if rng.random() < 0.12:
        out.append([f"th{depth}", gen_top_hits(rng)])
    return out


def gen_composite(rng, docs, depth):
    # default: sources on fields without repeated values inside one document (value counting: finding F14)
    fields = ["w", "f", "g"]
    if GENOPT["mv"] or all(len(set(d["cat"])) == len(d["cat"]) for d in docs):
        fields += ["cat", "cat"]
    if GENOPT["mv"] or all(len(set(d["v"])) == len(d["v"]) for d in docs):
        fields.append("v")
    k = rng.choice([1, 2, 2])
    srcs = [[f"k{j}", f, rng.random() < 0.6] for j, f in enumerate(rng.sample(fields, min(k, len(set(fields)))) )]
    seen, out = set(), []
    for so in srcs:
        if so[1] not in seen:
            seen.add(so[1])
            out.append(so)
    size = rng.choice([1, 2, 3, 5, 10, 50])
    return {"k": "composite", "size": size, "sources": out, "sub": gen_subs(rng, docs, depth)}


def gen_terms(rng, docs, depth, top):
    field = rng.choice(["cat", "cat", "cat", "v", "w", "f", "g"])
    a = {"k": "terms", "field": field}
    a["size"] = rng.choice([1, 2, 3, 5, 10, 12])
    a["mdc"] = rng.choice([1, 1, 1, 2, 3])
    if top and field == "cat" and rng.random() < 0.25:
        a["mdc"] = 0
    if a["mdc"] == 1 and rng.random() < 0.5:
        a["mdc_default"] = True
    if rng.random() < 0.25:
        a["missing"] = rng.choice([-1, 10]) if field == "cat" else rng.choice([-99, 99, 0])
    sub = gen_subs(rng, docs, depth)
    t = rng.choice(["count", "count", "key", "key", "sub"])
    asc = rng.random() < 0.5
    ord_ = {"t": t, "asc": asc, "name": "", "prop": ""}
    if t == "sub":
        m = {"k": rng.choice(ORDERABLE), "field": rng.choice(NUM_FIELDS)}
        sub = [["om", m]] + sub
        ord_["name"] = "om"
        if m["k"] == "stats":
            ord_["prop"] = rng.choice(["avg", "sum", "min", "max", "count"])
    if t == "count" and not asc and rng.random() < 0.5:
        a["ord_default"] = True
    a["ord"] = ord_
    a["sub"] = sub
    if sub and "missing" in a and "F54" not in fixed_ids() and any(a["missing"] in d[field] for d in docs):
        a["missing"] = 99 if field != "cat" else 10      # `missing` key = a real value, with sub-aggregations: finding F54
    nd = distinct_vals(docs, field, a.get("missing"))
    seg = max(a["size"] * 10, a["size"])
    if nd > seg or rng.random() < 0.2:
        a["segsize"] = max(nd, a["size"]) + rng.randint(0, 20)
        a["segsize_set"] = True
    else:
        a["segsize"] = seg
    return a


def gen_range(rng, docs, depth):
    field = rng.choice(["w", "f", "v", "v", "v"] if GENOPT["mv"] else ["w", "f"])
    pts = sorted(rng.sample(range(-12, 42), rng.randint(1, 4)))
    rs = []
    if rng.random() < 0.5:
        rs.append({"to": pts[0]})
    for x, y in zip(pts, pts[1:]):
        if rng.random() < 0.8:
            rs.append({"from": x, "to": y})
    if rng.random() < 0.5 or not rs:
        rs.append({"from": pts[-1]})
    rng.shuffle(rs)
    return {"k": "range", "field": field, "ranges": rs, "sub": gen_subs(rng, docs, depth)}


QDEN = 20.0          # unit of the fractional field q (harness: value i <-> i / 20)
Q_LO, Q_HI = -7, 37  # range of the values and bounds used with q, in units


def q_safe(iu, ou):
    """Steering away from what the property leaves undecided (DESIGN: fractional intervals where f64 rounding
    defines the bucket): with interval iu/20 and offset ou/20, (a) every odd value / bound x of the range falls, in
    f64, into the bucket the exact arithmetic gives, and (b) every key of the range maps back to its own position
    (tantivy recomputes positions from keys when it fills gaps; e.g. interval 0.5, offset 0.2: the key 0.7 maps
    back to position 0 and an extra empty bucket 0.2 appears)."""
    import math
    iv, off = iu / QDEN, ou / QDEN
    for x in range(Q_LO, Q_HI + 1, 2):
        if math.floor((x / QDEN - off) / iv) != (x - ou) // iu:
            return False
    for pos in range((1 - ou) // iu, (31 - ou) // iu + 1):      # keys of buckets that can hold a value (values are 1..31)
        if math.floor(((pos * iv + off) - off) / iv) != pos:
            return False
    return True


Q_CHOICES = [(iu, ou) for iu in (2, 4, 6, 10) for ou in range(0, iu, 2) if q_safe(iu, ou)]


def gen_hist_q(rng, docs, depth, leaf=False):
    """histogram with a fractional interval (0.1, 0.2, 0.3, 0.5) on the fractional field q"""
    iv, off = rng.choice(Q_CHOICES)
    a = {"k": "histogram", "field": "q", "interval": iv, "offset": off}
    a["mdc"] = rng.choice([0, 0, 1, 2])
    if a["mdc"] == 0 and rng.random() < 0.5:
        a["mdc_default"] = True
    if rng.random() < 0.25:
        x, y = sorted([2 * rng.randint(-3, 18) + 1, 2 * rng.randint(-3, 18) + 1])
        a["hard"] = {"min": x, "max": y}
    if a["mdc"] == 0 and rng.random() < 0.3:
        lo, hi = (a["hard"]["min"], a["hard"]["max"]) if "hard" in a else (-7, 37)
        x, y = sorted([2 * rng.randint((lo - 1) // 2, (hi - 1) // 2) + 1 for _ in range(2)])
        a["ext"] = {"min": x, "max": y}
    a["sub"] = [] if leaf else gen_subs(rng, docs, depth)
    return a


def gen_fused(rng, docs):
    """the request family of the fused collector: a top-level terms aggregation on a full low-cardinality column
    with exactly one histogram below it and nothing further down"""
    a = gen_terms(rng, docs, 0, True)
    a["field"] = rng.choice(["g", "g", "cat"])
    a.pop("missing", None)
    if a["ord"]["t"] == "sub":
        a["ord"] = {"t": "count", "asc": rng.random() < 0.5, "name": "", "prop": ""}
    a["sub"] = [["h", gen_hist_q(rng, docs, 0, leaf=True) if rng.random() < 0.8 else dict(gen_hist(rng, docs, 0), sub=[])]]
    a["segsize"], a["segsize_set"] = 100, True
    if a["field"] != "cat" and a["mdc"] == 0:
        a["mdc"] = 1
    return a


def gen_hist(rng, docs, depth):
    if rng.random() < 0.2:
        return gen_hist_q(rng, docs, depth)
    date = rng.random() < 0.25
    unit = 1000 if date else 1
    a = {"k": "date_histogram" if date else "histogram", "field": "d" if date else rng.choice(["w", "f", "v", "v", "v"] if GENOPT["mv"] else ["w", "f"])}
    iv = rng.randint(1, 9)
    a["interval"] = iv * unit
    a["offset"] = rng.randint(0, iv - 1) * unit if rng.random() < 0.5 else 0
    a["mdc"] = rng.choice([0, 0, 1, 2])
    if a["mdc"] == 0 and rng.random() < 0.5:
        a["mdc_default"] = True
    lo, hi = (0, 60) if date else (-14, 44)
    if rng.random() < 0.3:
        x, y = sorted([rng.randint(lo, hi), rng.randint(lo, hi)])
        a["hard"] = {"min": x * unit, "max": y * unit}
    if a["mdc"] == 0 and rng.random() < 0.35:
        if "hard" in a:
            x, y = sorted([rng.randint(a["hard"]["min"] // unit, a["hard"]["max"] // unit) for _ in range(2)])
        else:
            x, y = sorted([rng.randint(lo, hi), rng.randint(lo, hi)])
        a["ext"] = {"min": x * unit, "max": y * unit}
    a["sub"] = gen_subs(rng, docs, depth)
    return a


def gen_filter(rng, docs, depth):
    qf = rng.choice(["g", "cat", "w"])
    qv = rng.randint(0, 1) if qf == "g" else (rng.randint(0, 7) if qf == "cat" else rng.randint(-10, 30))
    return {"k": "filter", "qf": qf, "qv": qv, "sub": gen_subs(rng, docs, max(depth, 1))}


def gen_agg(rng, docs, depth, top=False):
    if depth <= 0:
        return gen_metric(rng)
    x = rng.random()
    if x < 0.22:
        return gen_metric(rng)
    if x < 0.52:
        return gen_terms(rng, docs, depth, top)
    if x < 0.66:
        return gen_range(rng, docs, depth)
    if x < 0.82:
        return gen_hist(rng, docs, depth)
    if x < 0.91:
        return gen_composite(rng, docs, depth)
    return gen_filter(rng, docs, depth)


def gen_docs(rng, n, ncat):
    docs = []
    for i in range(n):
        nc = rng.choice([0, 1, 1, 1, 1, 1, 2])
        nv = rng.choice([0, 1, 1, 1, 2, 3])
        docs.append({
            "id": [i + 1],
            "cat": [rng.randrange(ncat) for _ in range(nc)],
            "v": [rng.randint(-10, 30) for _ in range(nv)],
            "w": [rng.randint(-10, 30)] if rng.random() < 0.8 else [],
            "f": [rng.randint(-10, 40)] if rng.random() < 0.8 else [],
            "d": [rng.randint(0, 60) * 1000] if rng.random() < 0.75 else [],
            "g": [1 if rng.random() < 0.6 else 0],
            # fractional field (units of 0.05, every document exactly one value): odd units, so that a value is never
            # on a bucket boundary of an interval / offset of even units (there f64 rounding decides the bucket)
            "q": [2 * rng.randint(0, 15) + 1],
        })
    return docs


def split_segments(rng, idx, maxsegs):
    """split the list of document indices into 1..maxsegs non-empty consecutive segments"""
    idx = list(idx)
    k = rng.randint(1, min(maxsegs, len(idx)))
    cuts = sorted(rng.sample(range(1, len(idx)), k - 1)) if k > 1 else []
    segs, prev = [], 0
    for c in cuts + [len(idx)]:
        segs.append(idx[prev:c])
        prev = c
    return segs


def gen_plan(rng, nparts, sers=True):
    """collect every part (random order) interleaved with merges of two random live handles and
    serialisation round trips, until one handle is left; then finalise.  Empty intermediate results
    (IntermediateAggregationResults::default(), the seed of a fold) join at any point, on either side of a merge."""
    todo = list(range(nparts))
    rng.shuffle(todo)
    live, plan = [], []
    nextra = nparts
    if rng.random() < 0.2:           # a fold seeded with default(): the accumulator (left operand) starts empty
        nextra += 1
        plan.append({"op": "empty", "h": nextra})
        live.append(nextra)
    while todo or len(live) > 1:
        can_merge = len(live) >= 2
        if rng.random() < 0.06:
            nextra += 1
            plan.append({"op": "empty", "h": nextra})
            live.append(nextra)
            continue
        if todo and (not can_merge or rng.random() < 0.55):
            p = todo.pop()
            plan.append({"op": "collect", "h": p + 1, "part": p})
            live.append(p + 1)
        else:
            a, b = rng.sample(live, 2)
            plan.append({"op": "merge", "a": a, "b": b})
            live.remove(b)
        if sers and live and rng.random() < 0.25:
            plan.append({"op": "ser", "h": rng.choice(live)})
    if sers and rng.random() < 0.5:
        plan.append({"op": "ser", "h": live[0]})
    plan.append({"op": "final", "h": live[0]})
    return plan


def gen_case(rng, cid, nmax=12, depth=2, tag="rand"):
    n = rng.randint(1, nmax)
    docs = gen_docs(rng, n, rng.randint(1, 8))
    idx = list(range(n))
    rng.shuffle(idx)
    nparts = rng.randint(1, min(4, n))
    cuts = sorted(rng.sample(range(1, n), nparts - 1)) if nparts > 1 else []
    parts, prev = [], 0
    for c in cuts + [n]:
        parts.append(split_segments(rng, sorted(idx[prev:c]) if rng.random() < 0.7 else idx[prev:c], 3))
        prev = c
    # partitions without any segment (an index that holds no document), in every position
    if rng.random() < 0.3:
        for _ in range(rng.choice([1, 1, 2])):
            parts.insert(rng.randint(0, len(parts)), [])
        nparts = len(parts)
    allidx = list(range(n))
    if rng.random() < 0.3:
        rng.shuffle(allidx)
    req = [[f"a{j}", gen_agg(rng, docs, depth, top=True)] for j in range(rng.choice([1, 1, 2, 3]))]
    if rng.random() < 0.1:
        req[0][1] = gen_fused(rng, docs)
    return {"id": cid, "tag": tag, "docs": docs, "parts": parts, "all": split_segments(rng, allidx, 4),
            "query": "all" if rng.random() < 0.65 else "g1", "req": req, "plan": gen_plan(rng, nparts)}


# ----------------------------------------------------------------------------- cases from TLC (R)
def gen_tlc_cases(ctx, n, seed):
    r = vlib.run_tlc("Gen_Agg", "Gen_Agg.cfg", workers=1, timeout=300, simulate=n, depth=40, heap="4g", extra=["-seed", str(seed)])
    ctx.add_tlc("Gen_Agg", r, kind="generator")
    if r.violated:
        out = ctx.path("gen.tlc.out")
        open(out, "w").write(r.out)
        ctx.violation("Gen_Agg: " + ", ".join(r.violated) + " (the merge algebra of the specification disagrees with its denotation)", [out], r.out[-3000:])
    if r.tool_error and not r.violated:
        log(r.out[-3000:])
        raise vlib.ToolError("TLC failed on Gen_Agg")
    cases, seen = [], set()
    for m in re.finditer(r'<<"CASE", "(.*)">>', r.out):
        s = m.group(1).encode().decode("unicode_escape")
        if s in seen:
            continue
        seen.add(s)
        cases.append(json.loads(s))
    return cases


def fix_req(req):
    """requests printed by TLC lack the presentation flags of the harness format"""
    out = []
    for name, a in req:
        a = dict(a)
        if "sub" in a:
            a["sub"] = fix_req(a["sub"])
        if a["k"] == "terms":
            a["segsize_set"] = True
        out.append([name, a])
    return out


def concretise(rng, g, cid, stripe):
    """abstract case of Gen_Agg -> harness case.  Document i becomes `stripe` identical documents
    (same part); a cut flag closes a segment after the document's stripe; the merge plan refers to
    intermediate results by the documents they cover."""
    docs, part_of = [], []
    for d, p in zip(g["docs"], g["part"]):
        for _ in range(stripe):
            docs.append(dict(d, id=[len(docs) + 1]))
            part_of.append(p)
    nparts = max(g["part"])
    parts = []
    for p in range(1, nparts + 1):
        segs, cur = [], []
        for i, (d, q) in enumerate(zip(g["docs"], g["part"])):
            if q != p:
                continue
            cur += list(range(i * stripe, (i + 1) * stripe))
            if g["cuts"][i]:
                segs.append(cur)
                cur = []
        if cur:
            segs.append(cur)
        parts.append(segs)
    cover = {}
    plan = []
    for st in g["plan"]:
        if st["op"] == "collect":
            h = st["part"]
            cover[h] = frozenset(i + 1 for i, q in enumerate(g["part"]) if q == st["part"])
            plan.append({"op": "collect", "h": h, "part": st["part"] - 1})
        elif st["op"] == "merge":
            a = next(h for h, c in cover.items() if c == frozenset(st["a"]))
            b = next(h for h, c in cover.items() if c == frozenset(st["b"]))
            cover[a] = cover[a] | cover.pop(b)
            plan.append({"op": "merge", "a": a, "b": b})
        elif st["op"] == "ser":
            h = next(h for h, c in cover.items() if c == frozenset(st["h"]))
            plan.append({"op": "ser", "h": h})
        elif st["op"] == "empty":
            h = 1000 + len(plan)
            cover[h] = frozenset()
            plan.append({"op": "empty", "h": h})
    plan.append({"op": "final", "h": next(iter(cover))})
    allidx = list(range(len(docs)))
    return {"id": cid, "tag": f"tlc x{stripe}", "docs": docs, "parts": parts, "all": split_segments(rng, allidx, 3),
            "query": g["query"], "req": fix_req(g["req"]), "plan": plan}


# ----------------------------------------------------------------------------- execution + judging
def shape(req):
    return [[a["k"], a.get("field", a.get("qf")), shape(a["sub"]) if "sub" in a else []] for _, a in req]


def has_bucket(req):
    return any(a["k"] not in ("value_count", "sum", "min", "max", "avg", "stats", "extended_stats", "cardinality", "percentiles") for _, a in req)


def nontrivial(case):
    nseg = sum(len(p) for p in case["parts"])
    return len(case["docs"]) >= 2 and nseg >= 2 and has_bucket(case["req"])


def case_key(case):
    return json.dumps([case["docs"], case["parts"], case["query"], case["req"], [s["op"] for s in case["plan"]]], sort_keys=True)


def clean(events):
    return [vlib.strip_nulls({k: v for k, v in e.items() if k not in ("seq", "th", "raw")}) for e in events]


def execute(ctx, cases, label, timeout=600):
    for c in cases:          # hand-written cases: every document has the (full) fractional field
        c["docs"] = [d if "q" in d else dict(d, q=[1]) for d in c["docs"]]
    cp = ctx.path(f"{label}_cases.ndjson")
    vlib.write_ndjson(cp, cases)
    tp = ctx.path(f"{label}_trace.ndjson")
    vlib.run_bin(DRIVER, ["run", "--in", cp, "--out", tp], timeout=timeout)
    return clean(vlib.read_ndjson(tp))


def judge(ctx, events, cases, label, describe=None, timeout=300, cfg="AggTrace.cfg", report=True):
    """validate a concatenated trace; on a rejection isolate the case, report, continue with the rest.
    Returns the list of (case id, reason, run) of rejected cases."""
    by_id = {c["id"]: c for c in cases}
    runs = vlib.split_runs(events, reset="case")
    pending, rounds, rejected, accepted = runs, 0, [], 0
    while pending and rounds < 25:
        rounds += 1
        flat = [e for r in pending for e in r]
        path = ctx.path(f"{label}.{rounds}.ndjson")
        vlib.write_ndjson(path, flat)
        ok, r = vlib.validate_trace(ctx, "AggTrace", cfg, path, name=f"{label}.{rounds}", timeout=timeout, heap="6g")
        ctx.cov["inexact_not_judged"] = ctx.cov.get("inexact_not_judged", 0) + len(re.findall(r'<<"INEXACT", \d+>>', r.out))
        if ok:
            accepted += len(pending)
            for run in pending:
                c = by_id.get(run[0].get("id"))
                if c:
                    ctx.distinct(case_key(c), nontrivial(c))
            break
        if not r.rejected:
            outp = ctx.path(f"{label}.{rounds}.tlc.out")
            open(outp, "w").write(r.out)
            raise vlib.ToolError(f"AggTrace: unexpected TLC result on {path}: {', '.join(r.violated)}")
        line = int(r.rejected[0][0])
        pos, bad = 0, len(pending) - 1
        for i, run in enumerate(pending):
            if pos < line <= pos + len(run):
                bad = i
                break
            pos += len(run)
        badrun = pending[bad]
        ev = badrun[line - pos - 1]
        cid = badrun[0].get("id")
        rp = ctx.path(f"{label}.rejected.{cid}.ndjson")
        vlib.write_ndjson(rp, badrun)
        casep = ctx.path(f"{label}.rejected.{cid}.case.json")
        json.dump(by_id.get(cid), open(casep, "w"))
        if ev.get("ev") == "panic":
            why = f"panic in tantivy during {ev.get('op')}: {ev.get('msg')}"
        elif ev.get("ev") == "error":
            why = f"error from tantivy during {ev.get('op')}: {ev.get('msg')}"
        else:
            why = f"result of `{ev.get('op')}` is not the direct computation over the documents it covers (event {line - pos} of case {cid})"
        rejected.append((cid, why, badrun, ev))
        text = (describe(by_id.get(cid), ev, why) if describe else None) or f"AggTrace rejects case {cid} [{badrun[0].get('tag')}]: {why}"
        if not describe and badrun[0].get("tag") in TAG_TEXT:      # replay of a stored known-finding trace
            text = f"{TAG_TEXT[badrun[0].get('tag')]}: {why}"
        detail = json.dumps({"request": by_id.get(cid, {}).get("req"), "docs": by_id.get(cid, {}).get("docs"),
                             "parts": by_id.get(cid, {}).get("parts"), "event": ev})[:6000]
        if report:
            ctx.violation(text, [rp, casep], detail)
        accepted += bad
        for run in pending[:bad]:
            c = by_id.get(run[0].get("id"))
            if c:
                ctx.distinct(case_key(c), nontrivial(c))
        pending = pending[bad + 1:]
    ctx.cov["traces_validated_against_impl"] += accepted
    return rejected


def count_obs(ctx, events):
    ctx.cov["observations"] = ctx.cov.get("observations", 0) + sum(1 for e in events if e.get("ev") == "obs")
    ctx.cov["serde_round_trips"] = ctx.cov.get("serde_round_trips", 0) + sum(1 for e in events if e.get("ev") == "obs" and e.get("op") == "ser")
    ctx.cov["merges"] = ctx.cov.get("merges", 0) + sum(1 for e in events if e.get("ev") == "obs" and e.get("op") == "merge")
    kinds = ctx.cov.setdefault("aggregation_kinds", {})

    def walk(req):
        for _, a in req:
            kinds[a["k"]] = kinds.get(a["k"], 0) + 1
            if "sub" in a:
                walk(a["sub"])
    for e in events:
        if e.get("ev") == "case":
            walk(e["req"])


# ----------------------------------------------------------------------------- the runs
def model_checking(ctx):
    vlib.mc_check(ctx, "MC_Agg", "MC_Agg_neg.cfg", expect_violation="AlgebraSound", timeout=300, workers=6)
    r = vlib.mc_check(ctx, "MC_Agg", "MC_Agg_base.cfg", timeout=300, workers=6, coverage=True)
    zero = [a for a in r.coverage_zero_actions() if a in ("AddDoc", "Start", "Collect", "MergeTwo")]
    if zero:
        raise vlib.ToolError(f"MC_Agg_base: actions never taken: {zero}")
    # the value-counting variant of the algebra (mirrors finding F14; judges the `mv` run) is sound too
    vlib.mc_check(ctx, "MC_Agg", "MC_Agg_vc.cfg", timeout=300, workers=6)
    if not ctx.quick:
        vlib.mc_check(ctx, "MC_Agg", "MC_Agg_deep.cfg", timeout=600, workers=6)


def replay_generated(ctx, n):
    rng = random.Random(ctx.seed)
    gs = gen_tlc_cases(ctx, n, ctx.seed)
    if not gs:
        raise vlib.ToolError("Gen_Agg produced no case")
    cases = []
    for i, g in enumerate(gs):
        stripe = 1 if i % 8 else rng.choice([23, 40])
        cases.append(concretise(rng, g, 100000 + i, stripe))
    ev = execute(ctx, cases, "gen")
    count_obs(ctx, ev)
    rej = judge(ctx, ev, cases, "gen")
    ctx.sample({"kind": "TLC-generated case (Gen_Agg) executed on the real collectors", "docs": gs[0]["docs"], "part": gs[0]["part"],
                "request": gs[0]["req"], "plan": gs[0]["plan"]})
    log(f"[R] {len(cases)} TLC-generated cases executed, {len(rej)} rejected")
    return ev, cases


def random_cases(ctx, n, seed, label="rand", nmax=12, depth=2, mv=False, seeds=()):
    rng = random.Random(seed)
    GENOPT["mv"] = mv
    try:
        cases = list(seeds) + [gen_case(rng, i + 1, nmax=nmax, depth=depth, tag=label) for i in range(n)]
    finally:
        GENOPT["mv"] = False
    ev = execute(ctx, cases, label)
    count_obs(ctx, ev)
    rej = judge(ctx, ev, cases, label, cfg="AggTrace_f14.cfg" if mv else "AggTrace.cfg")
    log(f"[T] {len(cases)} random cases ({label}), {len(rej)} rejected")
    return ev, cases


F14_TEXT = "F14 bucket doc_count on a multi-valued field counts values, not documents"
F44_TEXT = ("F44 top_hits under a bucket aggregation comes back empty for some buckets: TopHitsSegmentCollector::prepare_max_bucket shrinks its "
            "bucket vector (Vec::resize) when a later flush of the sub-aggregation buffer has a smaller maximum bucket id")
F54_TEXT = ("F54 terms aggregation whose `missing` key is also a real value of the field hands its sub-aggregations an unsorted doc id list "
            "(ColumnBlockAccessor::fetch_block_with_missing appends the documents without a value after the others); a sub-aggregation "
            "with its own `missing` then counts documents twice")
TAG_TEXT = {"F14": F14_TEXT, "F44": F44_TEXT, "F54": F54_TEXT}


_FIXED = None


def fixed_ids():
    """findings of C14 repaired in /repo (fixed: lines of known_findings.json): no longer steered around"""
    global _FIXED
    if _FIXED is not None:
        return _FIXED
    _FIXED = _fixed_ids()
    return _FIXED


def _fixed_ids():
    ids = set(x for x in os.environ.get("C14_ASSUME_FIXED", "").split(",") if x)
    for line in vlib.load_known().get("fixed", []):
        if "property=C14" in line:
            ids.update(re.findall(r"\bF\d+\b", line))
    return ids


def flush_case(rng, cid, tag="flush"):
    """A segment with more than 2048 documents under bucket aggregation > top_hits: the buffer that feeds the
    sub-aggregation is flushed every 2048 documents, so the segment collector sees several flushes.  The tail of
    the segment only holds values of its first documents, i.e. the last flush only touches the oldest bucket ids."""
    n = rng.randint(2100, 2500)
    nval = rng.randint(3, 12)
    head = [rng.randint(-10, 30) for _ in range(3)]
    docs = []
    for i in range(n):
        x = head[i] if i < 3 else (rng.randint(-10, -10 + nval * 3) if i < 2048 else rng.choice(head))
        docs.append({"id": [i + 1], "cat": [rng.randrange(8)] if rng.random() < 0.9 else [], "v": [], "w": [x], "f": [x] if rng.random() < 0.9 else [],
                     "d": [], "g": [1 if rng.random() < 0.7 else 0], "q": [2 * rng.randint(0, 15) + 1]})
    th = lambda: gen_top_hits(rng)
    sub = [["th", th()]] + ([["th2", th()]] if rng.random() < 0.3 else [])
    kind = rng.choice(["hist", "hist", "terms_w", "nested", "range"])
    if kind == "hist":
        a = {"k": "histogram", "field": "w", "interval": rng.choice([1, 2, 3]), "offset": 0, "mdc": 1, "sub": sub}
    elif kind == "terms_w":
        a = {"k": "terms", "field": "w", "size": 100, "mdc": 1, "segsize": 1000, "segsize_set": True,
             "ord": {"t": "key", "asc": True, "name": "", "prop": ""}, "sub": sub}
    elif kind == "nested":
        inner = {"k": "terms", "field": "w", "size": 100, "mdc": 1, "segsize": 1000, "segsize_set": True,
                 "ord": {"t": "count", "asc": False, "name": "", "prop": ""}, "sub": sub}
        a = {"k": "filter", "qf": "g", "qv": 1, "sub": [["t", inner]]}
    else:
        pts = sorted(rng.sample(range(-9, 28), 4))
        inner = {"k": "histogram", "field": "w", "interval": 2, "offset": 1, "mdc": 1, "sub": sub}
        a = {"k": "range", "field": "f", "ranges": [{"from": x, "to": y} for x, y in zip(pts, pts[1:])], "sub": [["h", inner]]}
    cut = rng.randint(2060, n)
    parts = [[list(range(cut))]] + ([[list(range(cut, n))]] if cut < n else [])
    plan = [{"op": "collect", "h": 1, "part": 0}]
    if len(parts) == 2:
        plan += [{"op": "collect", "h": 2, "part": 1}, {"op": "merge", "a": 1, "b": 2}]
    plan.append({"op": "final", "h": 1})
    return {"id": cid, "tag": tag, "docs": docs, "parts": parts, "all": [list(range(n))], "query": "all" if rng.random() < 0.9 else "g1",
            "req": [["a0", a]], "plan": plan}


def flush_witness():
    """10 histogram buckets first seen in the first 2048 documents, the last 52 documents all in the first bucket"""
    n = 2100
    docs = [{"id": [i + 1], "cat": [], "v": [], "w": [i % 10 if i < 2048 else 0], "f": [], "d": [], "g": [1], "q": [1]} for i in range(n)]
    th = {"k": "top_hits", "size": 1, "sort": [["id", True]], "dv": ["id"]}
    return {"id": 900009, "tag": "F44", "docs": docs, "parts": [[list(range(n))]], "all": [list(range(n))], "query": "all",
            "req": [["h", {"k": "histogram", "field": "w", "interval": 1, "offset": 0, "mdc": 1, "sub": [["th", th]]}]],
            "plan": [{"op": "collect", "h": 1, "part": 0}, {"op": "final", "h": 1}]}


def flush_runs(ctx, n):
    """several flushes of the sub-aggregation buffer inside one segment.  While F44 is open this is its dedicated
    reproduction (witness only); once it is fixed the witness is a regression seed and the family runs by default."""
    rng = random.Random(ctx.seed + 4400)
    if "F44" in fixed_ids():
        cases = [dict(flush_witness(), tag="seed F44")] + [flush_case(rng, 800000 + i) for i in range(n)]
        ev = execute(ctx, cases, "flush")
        count_obs(ctx, ev)
        rej = judge(ctx, ev, cases, "flush")
        log(f"[T] {len(cases)} multi-flush cases (flush), {len(rej)} rejected")
        return
    cases = [flush_witness()]
    ev = execute(ctx, cases, "kf44")

    def describe44(case, e, why):
        return f"{F44_TEXT}: {why}"
    rej = judge(ctx, ev, cases, "kf44", describe=describe44)
    ctx.cov.setdefault("known_finding_reproductions", {})["F44"] = f"{len(rej)} of {len(cases)} cases rejected"
    if not rej:
        log("[kf] F44: the recorded finding did not reproduce")

_DOCS3 = [{"id": [1], "cat": [3], "v": [8], "w": [1], "f": [], "d": [], "g": [1]},
          {"id": [2], "cat": [1], "v": [-7, -10, 2], "w": [2], "f": [], "d": [], "g": [1]},
          {"id": [3], "cat": [0], "v": [22, 19, 13], "w": [3], "f": [], "d": [], "g": [1]}]
_TERMS = {"k": "terms", "field": "cat", "size": 10, "mdc": 1, "segsize": 100, "ord": {"t": "count", "asc": False, "name": "", "prop": ""}, "sub": []}
_RNG4 = [{"to": 0}, {"from": 0, "to": 7}, {"from": 7, "to": 20}, {"from": 20}]
_BASE = {"docs": _DOCS3, "parts": [[[0, 1, 2]]], "all": [[0, 1, 2]], "query": "all", "plan": [{"op": "collect", "h": 1, "part": 0}, {"op": "final", "h": 1}]}
_COMP = {"k": "composite", "size": 10, "sources": [["a", "w", True]], "sub": []}


def regression_seeds():
    """witnesses of repaired defects (fixed: lines of known_findings.json) and of former debug-build-only panics;
    they run with the default cases and must simply pass.  Returns (seeds for the default run, seeds for the mv run)."""
    # F22 (fixed 9bbfded07): the range bucket 10-* never collects a document; its nested composite collector panicked at harvest
    f22 = dict(_BASE, id=900001, tag="seed F22", req=[["r", {"k": "range", "field": "w", "ranges": [{"to": 10}, {"from": 10}], "sub": [["c", _COMP]]}]])
    # F23 (fixed 616bee76a): term c0 of part 1 only in a document outside the query (min_doc_count = 0 -> zero bucket whose
    # composite came from empty_from_req: target_size 0); merged on the left of part 2 it trimmed the real buckets away
    docs23 = [{"id": [1], "cat": [0], "v": [], "w": [5], "f": [], "d": [], "g": [0]},
              {"id": [2], "cat": [0], "v": [], "w": [3], "f": [], "d": [], "g": [1]}]
    f23 = {"id": 900002, "tag": "seed F23", "docs": docs23, "parts": [[[0]], [[1]]], "all": [[0], [1]], "query": "g1",
           "req": [["t", dict(_TERMS, mdc=0, sub=[["c", _COMP]])]],
           "plan": [{"op": "collect", "h": 1, "part": 0}, {"op": "collect", "h": 2, "part": 1}, {"op": "merge", "a": 1, "b": 2}, {"op": "final", "h": 1}]}
    # terms whose `missing` key is also a real value: the shared bucket hands its sub-aggregation the doc ids [1, 0]
    docs24 = [{"id": [1], "cat": [], "v": [], "w": [4], "f": [], "d": [], "g": [1]},
              {"id": [2], "cat": [], "v": [], "w": [6], "f": [0], "d": [], "g": [1]}]
    f24 = dict(_BASE, id=900003, tag="seed missing=real value", docs=docs24, parts=[[[0, 1]]], all=[[0, 1]],
               req=[["t", dict(_TERMS, field="f", missing=0, sub=[["s", {"k": "sum", "field": "w"}]])]])
    # composite with evictions from a large per-segment map (memory accounting went negative): 100 keys, page size 50
    r25 = random.Random(2)
    for n25 in [60] * 6 + [100] * 3:
        ws = list(range(n25))
        r25.shuffle(ws)
    docs25 = [{"id": [i + 1], "cat": [], "v": [], "w": [ws[i]], "f": [], "d": [], "g": [1]} for i in range(100)]
    f25 = dict(_BASE, id=900004, tag="seed composite evictions", docs=docs25, parts=[[list(range(50)), list(range(50, 100))]], all=[list(range(100))],
               req=[["c", dict(_COMP, size=50)]])
    # F13 (fixed 5d2d834f6): bucket 7-20 receives the doc ids [0, 2, 2]; fetch_block read them as the run 0..2 and
    # attributed c1 to the bucket.  Judged by the value-counting variant (doc_count itself is finding F14).
    sub = [["t", _TERMS]]
    f13 = [dict(_BASE, id=900005, tag="seed F13", req=[["r", {"k": "range", "field": "v", "ranges": _RNG4, "sub": sub}]]),
           dict(_BASE, id=900006, tag="seed F13", req=[["h", {"k": "histogram", "field": "v", "interval": 10, "offset": 0, "mdc": 1, "sub": sub}]])]
    # fused terms x histogram collector with a fractional interval (0.1): the grids of the two segments start at
    # different bucket positions (0 and 5); every key must be pos * interval, whatever the grid it came from
    dq = [{"id": [i + 1], "cat": [], "v": [], "w": [], "f": [], "d": [], "g": [i % 2], "q": [2 * i + 1]} for i in range(10)]
    dq += [{"id": [11 + i], "cat": [], "v": [], "w": [], "f": [], "d": [], "g": [i % 2], "q": [11 + 2 * i]} for i in range(5)]
    hq = {"k": "histogram", "field": "q", "interval": 2, "offset": 0, "mdc": 1, "sub": []}
    s1, s2 = list(range(10)), list(range(10, 15))
    plan2 = [{"op": "collect", "h": 1, "part": 0}, {"op": "collect", "h": 2, "part": 1}, {"op": "merge", "a": 1, "b": 2}, {"op": "final", "h": 1}]
    fz = [{"id": 900007, "tag": "seed fused fractional", "docs": dq, "parts": [[s1], [s2]], "all": [s1, s2], "query": "all",
           "req": [["t", dict(_TERMS, field="g", sub=[["h", hq]])]], "plan": plan2},
          {"id": 900008, "tag": "seed fused fractional", "docs": dq, "parts": [[s2], [s1]], "all": [s2, s1], "query": "all",
           "req": [["t", dict(_TERMS, field="g", sub=[["h", dict(hq, mdc=0)]])]], "plan": plan2}]
    # fused path only for FULL histogram columns: terms on the full column g over an optional (w) / multi-valued (v)
    # histogram column must take the general path (row ids are not doc ids there)
    do = [{"id": [i + 1], "cat": [], "v": [3 * i, 3 * i + 1] if i % 3 == 0 else ([] if i % 3 == 1 else [3 * i]),
           "w": [2 * i] if i % 2 else [], "f": [], "d": [], "g": [i % 2], "q": [1]} for i in range(12)]
    ho = {"k": "histogram", "field": "w", "interval": 4, "offset": 0, "mdc": 1, "sub": []}
    s3 = [list(range(5)), list(range(5, 12))]
    fo = {"id": 900010, "tag": "seed fused optional column", "docs": do, "parts": [[s3[0]], [s3[1]]], "all": s3, "query": "all",
          "req": [["t", dict(_TERMS, field="g", sub=[["h", ho]])]], "plan": plan2}
    fm = {"id": 900011, "tag": "seed fused multi-valued column", "docs": do, "parts": [[s3[0]], [s3[1]]], "all": s3, "query": "all",
          "req": [["t", dict(_TERMS, field="g", sub=[["h", dict(ho, field="v", interval=5)]])]], "plan": plan2}
    # the empty intermediate result is neutral on both sides of merge_fruits: a fold seeded with default(), and a
    # partition without segments collected first / in the middle / last
    rq = [["s", {"k": "sum", "field": "w"}], ["t", dict(_TERMS, sub=[["m", {"k": "max", "field": "v"}]])]]
    fe = [{"id": 900012, "tag": "seed empty left operand", "docs": _DOCS3, "parts": [[[0]], [[1, 2]]], "all": [[0, 1, 2]], "query": "all", "req": rq,
           "plan": [{"op": "empty", "h": 9}, {"op": "collect", "h": 1, "part": 0}, {"op": "merge", "a": 9, "b": 1}, {"op": "collect", "h": 2, "part": 1},
                    {"op": "merge", "a": 9, "b": 2}, {"op": "empty", "h": 8}, {"op": "merge", "a": 9, "b": 8}, {"op": "final", "h": 9}]},
          {"id": 900013, "tag": "seed empty partitions", "docs": _DOCS3, "parts": [[], [[0]], [], [[1, 2]], []], "all": [[0, 1, 2]], "query": "all", "req": rq,
           "plan": [{"op": "collect", "h": 1, "part": 0}, {"op": "collect", "h": 2, "part": 1}, {"op": "merge", "a": 1, "b": 2},
                    {"op": "collect", "h": 3, "part": 2}, {"op": "collect", "h": 4, "part": 3}, {"op": "merge", "a": 3, "b": 4},
                    {"op": "merge", "a": 1, "b": 3}, {"op": "collect", "h": 5, "part": 4}, {"op": "ser", "h": 5}, {"op": "merge", "a": 5, "b": 1},
                    {"op": "final", "h": 5}]}]
    return [f22, f23, f24, f25, fo] + fz + fe, f13 + [fm]


def known_finding_runs(ctx):
    """dedicated reproduction of the recorded finding F14 (the default generators steer around it: range /
    histogram / composite sources only on fields without repeated values per document; the `mv` run explores
    that class under the specification variant that mirrors it)"""
    docs_dup = [dict(_DOCS3[0]), dict(_DOCS3[1], cat=[1, 1]), dict(_DOCS3[2])]
    f14 = [dict(_BASE, id=3, tag="F14", req=[["r", {"k": "range", "field": "v", "ranges": _RNG4, "sub": []}]]),
           dict(_BASE, id=4, tag="F14", req=[["h", {"k": "histogram", "field": "v", "interval": 10, "offset": 0, "mdc": 1, "sub": []}]]),
           # a document holding the same term twice is counted twice by a composite terms source
           dict(_BASE, id=5, tag="F14", docs=docs_dup, req=[["c", {"k": "composite", "size": 10, "sources": [["a", "cat", True]], "sub": []}]])]
    repro = ctx.cov.setdefault("known_finding_reproductions", {})
    # F14: rejected by the specification, accepted by the variant that counts values
    ev = execute(ctx, f14, "kf14")

    def describe14(case, e, why):
        return f"{F14_TEXT} [{case['req'][0][1]['k']}]: {why}"
    rej = judge(ctx, ev, f14, "kf14", describe=describe14)
    rej_v = judge(ctx, ev, f14, "kf14v", cfg="AggTrace_f14.cfg", report=False)
    repro["F14"] = f"{len(rej)} of {len(f14)} cases rejected; {len(f14) - len(rej_v)} of {len(f14)} accepted by the value-counting variant of the specification"
    if rej_v:
        ctx.violation("the F14 cases are not explained by value counting either: " + rej_v[0][1], [], json.dumps(rej_v[0][3])[:3000])
    if not rej:
        log("[kf] F14: the recorded finding did not reproduce")


def f54_witness():
    """document 1 has no f (-> `missing` key 0), document 2 has f = 0: the bucket 0 collects the doc ids [1, 0];
    the avg below it has its own `missing` and walks them as if sorted: (5 - 2 - 2) / 3 instead of (5 - 2) / 2"""
    docs = [{"id": [1], "cat": [], "v": [5], "w": [], "f": [], "d": [], "g": [1], "q": [1]},
            {"id": [2], "cat": [], "v": [], "w": [], "f": [0], "d": [], "g": [1], "q": [1]}]
    t = dict(_TERMS, field="f", missing=0, sub=[["a", {"k": "avg", "field": "v", "missing": -2}], ["c", {"k": "value_count", "field": "v", "missing": -2}]])
    return {"id": 900014, "tag": "F54", "docs": docs, "parts": [[[0, 1]]], "all": [[0, 1]], "query": "all", "req": [["t", t]],
            "plan": [{"op": "collect", "h": 1, "part": 0}, {"op": "final", "h": 1}]}


def f54_run(ctx):
    """while F54 is open: its dedicated reproduction; once fixed the witness is a regression seed (see run)"""
    if "F54" in fixed_ids():
        return
    cases = [f54_witness()]
    ev = execute(ctx, cases, "kf54")

    def describe54(case, e, why):
        return f"{F54_TEXT}: {why}"
    rej = judge(ctx, ev, cases, "kf54", describe=describe54)
    ctx.cov.setdefault("known_finding_reproductions", {})["F54"] = f"{len(rej)} of {len(cases)} cases rejected"
    if not rej:
        log("[kf] F54: the recorded finding did not reproduce")


def binding_selftest(ctx, events, cases):
    """corrupt one observed field of an accepted trace: TLC must reject"""
    runs = [r for r in vlib.split_runs(events, reset="case") if any(e.get("op") == "merge" for e in r)][:4]
    flat = [copy.deepcopy(e) for r in runs for e in r]
    results = {}

    def first_number(x):
        """first {"t":"i"} number or doc_count inside a normalised result"""
        if isinstance(x, dict):
            if x.get("t") == "i":
                return x, "v"
            if "doc_count" in x:
                return x, "doc_count"
            for v in x.values():
                r = first_number(v)
                if r:
                    return r
        elif isinstance(x, list):
            for v in x:
                r = first_number(v)
                if r:
                    return r
        return None

    for name, opname in (("final_value_changed", "final"), ("merge_value_changed", "merge"), ("search_value_changed", "search")):
        tr = copy.deepcopy(flat)
        done = False
        for e in tr:
            if e.get("ev") == "obs" and e.get("op") == opname:
                hit = first_number(e["res"])
                if hit:
                    hit[0][hit[1]] += 1
                    done = True
                    break
        if not done:
            continue
        p = ctx.path(f"selftest_{name}.ndjson")
        vlib.write_ndjson(p, tr)
        r = vlib.run_tlc("AggTrace", "AggTrace.cfg", workers=1, timeout=120, trace=p, deque=True, heap="2g")
        results[name] = "rejected" if r.rejected else "ACCEPTED"
    # dropping a collect event makes the later merge unexplainable
    tr = copy.deepcopy(flat)
    for i, e in enumerate(tr):
        if e.get("ev") == "obs" and e.get("op") == "collect":
            del tr[i]
            break
    p = ctx.path("selftest_collect_dropped.ndjson")
    vlib.write_ndjson(p, tr)
    r = vlib.run_tlc("AggTrace", "AggTrace.cfg", workers=1, timeout=120, trace=p, deque=True, heap="2g")
    results["collect_event_dropped"] = "rejected" if r.rejected else "ACCEPTED"
    ctx.cov["binding_selftest"] = results
    bad = [k for k, v in results.items() if v == "ACCEPTED"]
    if bad or not results:
        raise vlib.ToolError(f"binding self-test: corrupted trace accepted by AggTrace: {bad}")


def run(ctx):
    ctx.cov["rule"] = ("a case = corpus + partition into separately searched indexes and segments + request tree + merge plan, executed on the real "
                       "collectors; every step's finalised result is one observation judged by TLC against Agg!Den. distinct = distinct (documents, "
                       "partition, query, request, plan ops); non-trivial = >= 2 documents, >= 2 segments and a bucket aggregation in the request")
    ctx.assumptions += [
        "TLC and the Json community module are trusted",
        "field values are integers (integer valued f64, dates in whole milliseconds); text terms are the order preserving strings a < c0 < .. < c9 < zz",
        "fractional intervals: field q holds i/20 (odd i), histograms on q use intervals 0.1 .. 0.5 given in the same units; a bucket key is read as the "
        "integer position*interval+offset only with the certificate that it is bit-identical to the documented f64 value pos*interval+offset (any other "
        "float is a key of no bucket of the specification, so a drifted key, a duplicate bucket or a partition-dependent key rejects); interval/offset "
        "pairs where f64 rounding itself moves a value or a key into another bucket are not generated (q_safe; e.g. interval 0.5 offset 0.2: tantivy's "
        "gap filling maps the key 0.7 back to position 0 and returns a spurious empty bucket 0.2 - left undecided by the property)",
        "f64 outputs are read as integers or through a certificate: n/d accepted only if (n as f64)/(d as f64) is bit-identical to the output; "
        "variance / std_deviation are compared within 0.02 / 0.2 (float error is outside the property)",
        "terms aggregations are judged only in the exact regime (distinct terms <= segment_size, checked by the specification itself: Agg!Exact)",
        "serialisation round trip through a compact binary serde format implemented in the harness (postcard-like; the API documentation excludes JSON)",
        "percentiles: within 2 % (+0.02) of the value of rank floor(p/100*(n-1)) (DDSketch, relative accuracy 1 %); cardinality: exact (<= 40 distinct values, "
        "far below the sketch's error); top_hits: sort on u64 fields every document has (id, g), ties unordered, docvalue_fields compared as bags; "
        "composite: terms sources, no `after` key; key_as_string of date buckets, keyed=true output, calendar intervals and fractional intervals are not covered",
        "default generators steer around the recorded finding F14 only: range / histogram / composite sources on fields without repeated values per "
        "document; the `mv` run explores exactly that class (with sub-aggregations) under the specification variant that mirrors F14 "
        "(ValueCounts = TRUE: doc_count = number of values). min_doc_count = 0 only for top-level terms on the text field. Witnesses of the repaired "
        "defects F13, F22, F23 and of two former debug-build-only panics run as regression seeds with the default cases",
        "not judged (unspecified by the documentation, treated as unordered): order among buckets whose order key is equal or absent (min, max, avg over no value); a range aggregation over no document at all (empty parent bucket) may list all its ranges with doc_count 0 or none",
    ]
    model_checking(ctx)
    ev_g, cases_g = replay_generated(ctx, 120 if ctx.quick else 1500)
    seeds, seeds_mv = regression_seeds()
    if "F54" in fixed_ids():
        seeds = seeds + [dict(f54_witness(), tag="seed F54")]
    ev_r, cases_r = random_cases(ctx, 750 if ctx.quick else 5000, ctx.seed, seeds=seeds)
    # bucket aggregations on multi-valued fields (with sub-aggregations), judged by the variant that mirrors F14
    random_cases(ctx, 220 if ctx.quick else 2500, ctx.seed + 5000, label="mv", mv=True, seeds=seeds_mv)
    random_cases(ctx, 20 if ctx.quick else 150, ctx.seed + 7000, label="big", nmax=150, depth=2)
    random_cases(ctx, 130 if ctx.quick else 2500, ctx.seed + 9000, label="deep", nmax=9, depth=3)
    flush_runs(ctx, 3 if ctx.quick else 25)
    f54_run(ctx)
    known_finding_runs(ctx)
    binding_selftest(ctx, ev_r, cases_r)
    c = cases_r[len(seeds)]
    ctx.sample({"kind": "random case executed on the real collectors", "docs": c["docs"], "parts": c["parts"], "all_index_segments": c["all"],
                "query": c["query"], "request": c["req"], "plan": c["plan"]})
    obs = [e for e in ev_r if e.get("ev") == "obs" and e.get("id") == c["id"]]
    if obs:
        ctx.sample({"kind": "observation judged by AggTrace (normalised result of the last step of that case)", "event": obs[-1]})


def replay(ctx, path):
    """re-judge a stored rejected trace (the verdict is a property of the trace)"""
    files = [os.path.join(path, f) for f in sorted(os.listdir(path)) if f.endswith(".ndjson")] if os.path.isdir(path) else [path]
    for f in files:
        ev = vlib.read_ndjson(f)
        cases = [{"id": e.get("id"), "docs": e["docs"], "parts": [], "query": e["query"], "req": e["req"], "plan": []} for e in ev if e.get("ev") == "case"]
        mv = any(str(e.get("tag")) in ("mv", "seed F13") for e in ev if e.get("ev") == "case")
        judge(ctx, ev, cases, "replay", cfg="AggTrace_f14.cfg" if mv else "AggTrace.cfg")
