"""C05 - searchers are immutable snapshots; readers only ever see whole commits.
M: GcProto (reload against commit / merge / GC / rollback, with and without the meta lock, same
   and second Index instance: OpenNeverFails) and IndexCore (MetaContentOnlyChangesInCommit).
T: reader threads reload / search / re-read held searchers while a real writer runs; ReaderTrace
   judges every reload (= exactly one commit, monotone) and every re-read (unchanged).
R: the schedule found by the model (reader of a second Index instance parked right after it read
   meta.json while the writer commits, merges and collects) is forced with the SimDirectory gate.
M/R: ReloadProto (several threads reloading ONE IndexReader: open / warm / publish as separate steps;
   without the reload lock the reader moves back - finding F48, repaired) and the schedule it finds,
   forced with the gate (first thread parked after it released the meta lock, or in its warmer)."""
import json

import tracecheck
import vlib
from vlib import log
from props import c02

LEVEL = "model_checking"
EVS = c02.API_EVS | {"call", "reader_new", "reload_start", "reload", "read_start", "held", "peek", "schedule"}


def prepare(events):
    """per run: API + reader events; reloads that are re-read later are marked `kept`"""
    runs = []
    for r in vlib.split_runs(events):
        keep = {(e["r"], e["gen"]) for e in r if e.get("ev") == "held"}
        out = []
        for e in r:
            if e.get("ev") not in EVS:
                continue
            e = vlib.strip_nulls(e)
            if e["ev"] == "reload" and (e["r"], e.get("gen")) in keep:
                e["kept"] = True
            out.append(e)
        runs.append(out)
    return runs


def key(run):
    return json.dumps([[e["ev"], e.get("r"), e.get("t"), e.get("pred")] for e in run if e["ev"] in ("add", "del", "commit", "rollback", "merge", "reload")])[:3000]


def nontrivial(run):
    evs = [e["ev"] for e in run]
    return evs.count("reload") >= 3 and evs.count("commit") >= 2 and "held" in evs


def run(ctx):
    ctx.cov["rule"] = ("a case is one run of a real writer with concurrent reader threads (every reload and every re-read of a held searcher is one "
                       "judged observation) or one model state; distinct = distinct sequence of writer operations and reload results; non-trivial "
                       "= at least 3 reloads, 2 commits and one re-read of a held searcher")
    ctx.assumptions += ["what an IndexReader publishes must never be older than what one of its completed reloads (by any thread) exposed; overlapping reloads of one IndexReader are exercised by the gated `shared` schedule only",
                        "the content of a commit comes from the sequential oracle; a reload may expose any commit between the last one completed when it started and the one in progress when it returned"]
    vlib.mc_check(ctx, "GcProto", "GcProto_remote.cfg", timeout=300, workers=6)
    vlib.mc_check(ctx, "GcProto", "GcProto_local.cfg", timeout=300, workers=6)
    vlib.mc_check(ctx, "GcProto", "GcProto_neg_reader.cfg", expect_violation="GcNeverDeletesNeeded", timeout=300, workers=4)
    vlib.mc_check(ctx, "GcProto", "GcProto_neg_gc.cfg", expect_violation="GcNeverDeletesNeeded", timeout=300, workers=4)
    vlib.mc_check(ctx, "MC_Core", "MC_Core_feat3.cfg", timeout=600)

    tp = ctx.path("readers.ndjson")
    vlib.run_bin("reader_driver", ["random", "--seed", ctx.seed, "--runs", 12 if ctx.quick else 150, "--ops", 25, "--readers", 3, "--remote", "--out", tp], timeout=1500)
    ev = vlib.read_ndjson(tp)
    runs = prepare(ev)
    nrel = sum(1 for r in runs for e in r if e["ev"] == "reload")
    nheld = sum(1 for r in runs for e in r if e["ev"] == "held")
    n = tracecheck.validate_runs(ctx, runs, "readers", "ReaderTrace", "ReaderTrace.cfg", key=key, nontrivial=nontrivial, timeout=300, heap="6g")
    ctx.cov["traces_validated_against_impl"] += n
    ctx.cov["reloads_judged"] = nrel
    ctx.cov["held_searcher_rereads_judged"] = nheld
    log(f"[T] {len(runs)} runs with reader threads: {nrel} reloads, {nheld} re-reads of held searchers, {n} runs accepted")

    # warmers: every reader thread registers a logging Warmer; the published searcher was warmed, and the
    # warmers' background collection never names a generation dead while the thread holds a searcher of it
    vlib.mc_check(ctx, "WarmProto", "WarmProto.cfg", timeout=300, workers=2)
    vlib.mc_check(ctx, "WarmProto", "WarmProto_neg.cfg", expect_violation="NeverDiscardHeld", timeout=120, workers=2)
    # up to 16 generations, 3 users: IndInv with the three invariants is inductive (Apalache); with the collection split it is not
    ok_warm = vlib.apalache_inductive(ctx, "WarmProtoInd", ["WarmProto.tla", "WarmProtoInd.tla"], "ConstInit", "IndAll")
    if ok_warm is False:
        ctx.violation("WarmProto: IndInv is not inductive (Apalache)", [], "")
    vlib.apalache_inductive(ctx, "WarmProtoIndNeg", ["WarmProto.tla", "WarmProtoIndNeg.tla"], "ConstInit", "IndAll", expect_fail=True)
    wruns = []
    for r in vlib.split_runs(ev):
        out = []
        for e in r:
            if e.get("ev") in ("reset", "warm", "warm_gc", "hold", "release", "reload"):
                x = {k: v for k, v in e.items() if k in ("ev", "r", "sgen", "live", "ok")}
                if e["ev"] == "reload" and not e.get("ok"):
                    x.pop("sgen", None)
                out.append(x)
        if any(e["ev"] == "warm" for e in out):      # every fourth run registers warmers
            wruns.append(out)
    ngc = sum(1 for r in wruns for e in r if e["ev"] == "warm_gc")
    n3 = tracecheck.validate_runs(ctx, wruns, "warm", "WarmTrace", "WarmTrace.cfg",
                                  key=lambda r: json.dumps([[e["ev"], e.get("r"), e.get("sgen"), e.get("live")] for e in r if e["ev"] != "warm"])[:3000],
                                  nontrivial=lambda r: any(e["ev"] == "warm_gc" for e in r), timeout=300)
    ctx.cov["traces_validated_against_impl"] += n3
    ctx.cov["warmer_collections_judged"] = ngc
    log(f"[T] warmers: {sum(1 for r in wruns for e in r if e['ev'] == 'warm')} warm calls, {ngc} collections while searchers were held, {n3}/{len(wruns)} runs accepted by WarmTrace")
    if ngc == 0:
        raise vlib.ToolError("no warmer collection was observed (the lingering run did not happen)")

    # the lock files themselves: .tantivy-meta.lock is what keeps the collector away from a loading reader
    vlib.mc_check(ctx, "LockProto", "LockProto_meta.cfg", timeout=120, workers=2)
    vlib.mc_check(ctx, "LockProto", "LockProto_writer.cfg", timeout=120, workers=2)
    vlib.mc_check(ctx, "LockProto", "LockProto_negS13a.cfg", expect_violation="Mutex", timeout=120, workers=2)
    vlib.mc_check(ctx, "LockProto", "LockProto_negS13b.cfg", expect_violation="Mutex", timeout=120, workers=2)
    # unbounded in the number of inodes, both kinds of lock, 4 threads: IndInv /\ Mutex is inductive (Apalache); with unlink-on-release it is not
    ok_lock = vlib.apalache_inductive(ctx, "LockProtoInd", ["LockProto.tla", "LockProtoInd.tla"], "ConstInit", "IndAndMutex")
    if ok_lock is False:
        ctx.violation("LockProto: IndInv /\\ Mutex is not inductive (Apalache)", [], "")
    vlib.apalache_inductive(ctx, "LockProtoIndNeg", ["LockProto.tla", "LockProtoIndNeg.tla"], "ConstInit", "IndAndMutex", expect_fail=True)
    fp = ctx.path("flock.ndjson")
    vlib.run_bin("flock_driver", ["run", "--seed", ctx.seed, "--rounds", 16 if ctx.quick else 160, "--threads", 4, "--out", fp], timeout=900)
    fruns = [[{k: v for k, v in e.items() if k in ("ev", "t", "kind", "lock", "err")} for e in r] for r in vlib.split_runs(vlib.read_ndjson(fp))]
    n4 = tracecheck.validate_runs(ctx, fruns, "flock", "LockMutexTrace", "LockMutexTrace.cfg",
                                  key=lambda r: json.dumps([r[0].get("kind"), r[0].get("lock"), [[e["ev"], e.get("t")] for e in r[1:60]]]),
                                  nontrivial=lambda r: sum(1 for e in r if e["ev"] == "enter") >= 10, timeout=300)
    ctx.cov["traces_validated_against_impl"] += n4
    ctx.cov["lock_rounds"] = {"rounds": len(fruns), "critical_sections": sum(1 for r in fruns for e in r if e["ev"] == "enter"), "accepted": n4}
    log(f"[T] lock files (MmapDirectory flock, RamDirectory / SimDir lock-file protocol; meta and writer lock): {n4}/{len(fruns)} contention rounds accepted by LockMutexTrace")

    gp = ctx.path("gated.ndjson")
    vlib.run_bin("reader_driver", ["gated", "--seed", ctx.seed, "--runs", 10 if ctx.quick else 100, "--out", gp], timeout=900)
    gev = vlib.read_ndjson(gp)
    gruns = prepare(gev)
    realised = sum(1 for e in gev if e.get("ev") == "schedule" and e.get("realised"))
    n2 = tracecheck.validate_runs(ctx, gruns, "gated", "ReaderTrace", "ReaderTrace.cfg", key=key, nontrivial=lambda r: True, timeout=300)
    ctx.cov["traces_validated_against_impl"] += n2
    ctx.cov["gated_schedules"] = {"runs": len(gruns), "realised": realised}
    log(f"[R] gated schedule (reader parked after atomic_read(meta.json)): {realised}/{len(gruns)} realised, {n2} accepted")
    if realised == 0:
        raise vlib.ToolError("the gated schedule was never realised")
    # R: the schedule ReloadProto finds without the reload lock (finding F48): two threads reload ONE
    # IndexReader; the first is parked after it opened the segments of commit k (right after it released
    # the meta lock, or inside its warmer) while the writer commits k+1 and the second thread reloads
    vlib.mc_check(ctx, "ReloadProto", "ReloadProto.cfg", timeout=120, workers=2)
    vlib.mc_check(ctx, "ReloadProto", "ReloadProto_negF48.cfg", expect_violation="NeverMovesBack", timeout=120, workers=2)
    if not ctx.quick:
        # five reloading threads, seven commits (375,276 states, depth 25) and the negative twin
        vlib.mc_check(ctx, "ReloadProto", "ReloadProto_deep.cfg", timeout=600, workers=6)
        vlib.mc_check(ctx, "ReloadProto", "ReloadProto_deep_negF48.cfg", expect_violation="NeverMovesBack", timeout=300, workers=4)
    # unbounded: IndInv (published = exposed <= commit; a thread that is not idle holds the reload lock and loaded a commit
    # between exposed and the newest) is inductive for any number of commits (4 threads) - Apalache; without the lock it is not
    ok_ind = vlib.apalache_inductive(ctx, "ReloadProtoInd", ["ReloadProto.tla", "ReloadProtoInd.tla"], "ConstInit", "IndInv")
    if ok_ind is False:
        ctx.violation("ReloadProto: IndInv is not inductive (Apalache)", [], "")
    vlib.apalache_inductive(ctx, "ReloadProtoIndNeg", ["ReloadProto.tla", "ReloadProtoIndNeg.tla"], "ConstInit", "IndInv", expect_fail=True)
    sp = ctx.path("shared.ndjson")
    vlib.run_bin("reader_driver", ["shared", "--seed", ctx.seed + 3, "--runs", 9 if ctx.quick else 90, "--out", sp], timeout=900)
    sev = vlib.read_ndjson(sp)
    sruns = prepare(sev)
    sreal = sum(1 for e in sev if e.get("ev") == "schedule" and e.get("realised"))
    n6 = tracecheck.validate_runs(ctx, sruns, "shared", "ReaderTrace", "ReaderTrace.cfg", key=key, nontrivial=lambda r: True, timeout=300)
    ctx.cov["traces_validated_against_impl"] += n6
    ctx.cov["shared_reader_schedules"] = {"runs": len(sruns), "realised": sreal, "accepted": n6,
                                          "second_reload_overtook": sum(1 for e in sev if e.get("ev") == "schedule" and e.get("second_reload_overtook"))}
    log(f"[R] two threads reloading one IndexReader, the first parked before it publishes while a commit completes: {sreal}/{len(sruns)} realised, {n6} accepted")
    if sreal == 0:
        raise vlib.ToolError("the shared-reader schedule was never realised")
    # T: the OnCommitWithDelay path on tantivy's RamDirectory (one callback thread per meta.json write, ReloadProto with
    # Callbacks = TRUE): back-to-back commits, the main thread samples what the reader serves: never a step back
    vlib.mc_check(ctx, "ReloadProto", "ReloadProto_watch.cfg", timeout=120, workers=2)
    vlib.mc_check(ctx, "ReloadProto", "ReloadProto_watch_negF48.cfg", expect_violation="FreshAtRest", timeout=120, workers=2)
    # (one process per 80 runs: the warmers' collection thread of tantivy outlives its reader - see the observations in DESIGN 12.4)
    wev = []
    for b in range(1 if ctx.quick else 8):
        wp = ctx.path(f"watch.{b}.ndjson")
        vlib.run_bin("reader_driver", ["watch", "--seed", ctx.seed + 7 + 100 * b, "--runs", 40 if ctx.quick else 80, "--out", wp], timeout=1800)
        wev += [{k: v for k, v in e.items() if k in ("ev", "commits", "samples", "fresh")} for e in vlib.read_ndjson(wp)]
    wruns = vlib.split_runs(wev)
    n7 = tracecheck.validate_runs(ctx, wruns, "watch", "WatchTrace", "WatchTrace.cfg", key=lambda r: json.dumps(r[-1].get("samples")), nontrivial=lambda r: True, timeout=300)
    ctx.cov["traces_validated_against_impl"] += n7
    nfresh = sum(1 for e in wev if e.get("ev") == "watch_samples" and e.get("fresh"))
    ctx.cov["watch_callback_runs"] = {"runs": len(wruns), "accepted": n7, "last_commit_seen_before_timeout": nfresh}
    log(f"[T] OnCommitWithDelay on RamDirectory (one reload thread per commit): {n7}/{len(wruns)} sample sequences accepted (never a step back); last commit seen in {nfresh}")
    if runs:
        ctx.sample({"kind": "reader events of one run", "events": [{k: v for k, v in e.items() if k != "obs"} for e in runs[0] if e["ev"] in ("reload_start", "reload", "held", "commit", "call")][:16]})


def replay(ctx, path):
    import os
    for f in sorted(os.listdir(path)):
        if f.endswith(".ndjson"):
            tracecheck.validate_runs(ctx, [vlib.read_ndjson(os.path.join(path, f))], "replay", "ReaderTrace", "ReaderTrace.cfg")
