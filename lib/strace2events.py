"""strace -f log of mmap_driver -> storage events of spec/StorageTrace.tla (C01 on MmapDirectory).
Recognised: open_write = openat(O_CREAT|O_EXCL) of a file in the index directory; data sync =
fsync/fdatasync of its descriptor (only if no write followed); atomic_write = temp file created,
written, (fdatasync'ed), renamed onto meta.json / .managed.json; sync_directory = fsync/fdatasync of
a descriptor opened on the directory itself; delete = unlink; markers = stat of /VH_MARK/<tag>."""
import json
import os
import re

LINE = re.compile(r"^(\d+)\s+(.*)$")
CALL = re.compile(r"^(\w+)\((.*)\)\s+=\s+(-?\d+|\?)(.*)$")


def unescape(s):
    return bytes(s, "latin-1").decode("unicode_escape").encode("latin-1")


def seg_files(meta):
    files, segs = [], []
    for s in meta.get("segments", []):
        u = s["segment_id"].replace("-", "")
        for ext in ("idx", "pos", "term", "store", "fast", "fieldnorm"):
            files.append(f"{u}.{ext}")
        d = s.get("deletes")
        if d:
            files.append(f"{u}.{d['opstamp']}.del")
        segs.append({"sid": 0, "delop": d["opstamp"] if d else -1})
    return sorted(files), segs


def convert(path, root):
    root = root.rstrip("/")
    pending = {}     # pid -> unfinished call text
    fds = {}         # fd -> dict(name, kind, dirty, synced_once, content)
    out = []
    for raw in open(path, errors="replace"):
        m = LINE.match(raw.rstrip("\n"))
        if not m:
            continue
        pid, rest = m.group(1), m.group(2)
        if rest.endswith("<unfinished ...>"):
            head = rest[: -len("<unfinished ...>")].rstrip()
            mc = re.match(r"^close\((\d+)", head)
            if mc:
                # the descriptor number is free again as soon as close() is ENTERED: another thread's
                # openat may return the same number before this call is logged as resumed.  Handle
                # the close now; its `resumed` line is ignored.
                rest = f"close({mc.group(1)}) = 0"
                pending[pid] = "close_done"
            else:
                pending[pid] = head
                continue
        else:
            r = re.match(r"^<\.\.\. (\w+) resumed>(.*)$", rest)
            if r:
                prev = pending.pop(pid, r.group(1) + "(")
                if prev == "close_done":
                    continue
                rest = prev + r.group(2)
        c = CALL.match(rest)
        if not c:
            continue
        name, args, ret = c.group(1), c.group(2), c.group(3)
        if ret == "?" or (ret.startswith("-") and name not in ("statx", "newfstatat", "stat")):
            continue
        if name in ("statx", "newfstatat", "stat"):
            mm = re.search(r'"/VH_MARK/([^"]+)"', args)
            if mm:
                tag = mm.group(1)
                if tag == "reset":
                    out.append({"e": "reset"})
                elif tag == "fresh":
                    out.append({"e": "fresh", "api": "mark"})
                elif tag == "call":
                    out.append({"e": "call"})
                elif tag.startswith("commit_"):
                    out.append({"e": "commit", "op": int(tag.split("_")[1])})
            continue
        if name == "openat":
            mm = re.search(r'"([^"]*)",\s*([A-Z_|0-9]+)', args)
            if not mm:
                continue
            p, flags = mm.group(1), mm.group(2)
            fd = int(ret)
            stale = fds.pop(fd, None)
            if stale and stale.get("kind") == "file":
                out.append({"e": "dropw", "p": stale["name"]})
            elif stale and stale.get("kind") == "tmp":
                stale["closed"] = True
                fds[("closedtmp", stale["name"])] = stale
            if p == root:
                fds[fd] = {"kind": "dir"}
            elif p.startswith(root + "/"):
                base = p[len(root) + 1:]
                if "O_CREAT" in flags and "O_EXCL" in flags:
                    if base.startswith(".tmp"):
                        fds[fd] = {"kind": "tmp", "name": base, "content": b"", "dirty": False, "synced": False}
                    elif base.endswith(".lock"):
                        fds[fd] = {"kind": "lock"}
                    else:
                        fds[fd] = {"kind": "file", "name": base, "dirty": False, "term": False}
                        out.append({"e": "create", "p": base})
                else:
                    fds.pop(fd, None)
            else:
                fds.pop(fd, None)
        elif name in ("write", "pwrite64"):
            mm = re.match(r'(\d+),\s*"((?:[^"\\]|\\.)*)"(\.\.\.)?,', args)
            if not mm:
                continue
            fd = int(mm.group(1))
            f = fds.get(fd)
            if f and f["kind"] == "tmp":
                f["content"] += unescape(mm.group(2))
                f["dirty"] = True
                f["truncated"] = f.get("truncated") or bool(mm.group(3))
            elif f and f["kind"] == "file":
                f["dirty"] = True
                f["term"] = False
        elif name in ("fsync", "fdatasync"):
            fd = int(args.split(",")[0])
            f = fds.get(fd)
            if not f:
                continue
            if f["kind"] == "dir":
                out.append({"e": "sync"})
            elif f["kind"] == "tmp":
                f["dirty"] = False
                f["synced"] = True
            elif f["kind"] == "file":
                f["dirty"] = False
                f["term"] = True
                out.append({"e": "term", "p": f["name"]})
        elif name == "close":
            fd = int(args.split(",")[0]) if args.strip() else -1
            f = fds.pop(fd, None)
            if f and f["kind"] == "file":
                out.append({"e": "dropw", "p": f["name"]})
            elif f and f["kind"] == "tmp":
                f["closed"] = True
                fds[("closedtmp", f["name"])] = f
        elif name in ("rename", "renameat", "renameat2"):
            ps = re.findall(r'"([^"]*)"', args)
            if len(ps) < 2:
                continue
            src, dst = ps[0], ps[1]
            if not dst.startswith(root + "/"):
                continue
            sb, db = src[len(root) + 1:], dst[len(root) + 1:]
            f = None
            for k, v in list(fds.items()):
                if isinstance(v, dict) and v.get("kind") == "tmp" and v.get("name") == sb:
                    f = v
                    if isinstance(k, tuple):
                        fds.pop(k)
            synced = bool(f and f["synced"] and not f["dirty"])
            content = f["content"] if f else b""
            if db == "meta.json":
                try:
                    meta = json.loads(content)
                    files, segs = seg_files(meta)
                    out.append({"e": "meta", "files": files, "op": meta.get("opstamp", 0), "segs": segs, "synced": synced})
                except Exception:
                    out.append({"e": "meta", "files": [], "op": -1, "segs": [], "synced": False, "unparsed": True})
            elif db == ".managed.json":
                try:
                    out.append({"e": "man", "files": sorted(json.loads(content)), "synced": synced})
                except Exception:
                    out.append({"e": "man", "files": [], "synced": False, "unparsed": True})
        elif name in ("unlink", "unlinkat"):
            ps = re.findall(r'"([^"]*)"', args)
            for p in ps:
                if p.startswith(root + "/") and not p.endswith(".lock"):
                    out.append({"e": "delete", "p": p[len(root) + 1:]})
    return out
