"""Compaction of a recorded run into the event vocabulary of spec/ImplTrace.tla (hook level)."""


def regs_view(lst):
    out = []
    for s in lst:
        d = s.get("delete_opstamp")
        out.append({"seg": s["seg"], "max_doc": s["max_doc"], "num_deleted": s["num_deleted"], "delete_opstamp": -1 if d is None else d})
    return out


def compact(run):
    """run: list of raw events of ONE run (starting with its reset). Returns None if the run is
    outside what ImplTrace models (non-term deletes, delete_all, sorted index)."""
    cfg = run[0].get("cfg", {})
    if cfg.get("sorted"):
        return None
    # pass 1: writer generations and the documents / deletes of each (opstamps repeat after a rollback)
    gen, docs, out = 0, {}, []
    for e in run:
        ev = e.get("ev")
        if ev in ("new_writer", "rollback", "prepare_abort") and e.get("ok"):
            gen += 1
        elif ev == "add" and e.get("ok"):
            docs[(gen, e["opstamp"])] = [e["id"], e["t"]]
        elif ev == "run" and e.get("ok"):
            n = len(e["ops"])
            first = e["opstamp"] - n
            for i, o in enumerate(e["ops"]):
                if o["k"] == "add":
                    docs[(gen, first + i)] = [o["id"], o["t"]]
        elif ev == "del" and e.get("ok") and e["pred"]["k"] != "term":
            return None
        elif ev in ("delete_all", "merge_uncommitted"):
            return None
    # pass 2: emit; deletes are placed right after the previous API event of the user thread
    gen = 0
    pending_dels = []          # deletes to insert at the position of the previous main-thread API event
    last_main = 0              # index in `out` right after the last main-thread API event
    for e in run:
        ev = e.get("ev")
        if ev == "reset":
            out.append({"e": "reset"})
            last_main = len(out)
        elif ev == "hook":
            n = e["name"]
            if n == "segment_finalized":
                d = []
                for op in e["doc_opstamps"]:
                    if (gen, op) not in docs:
                        d = None
                        break
                    d.append(docs[(gen, op)] + [op])
                if d:
                    out.append({"e": "seg_final", "sid": e["seg"], "docs": d})
            elif n == "registers":
                out.append({"e": "regs", "after": e["after"], "unc": regs_view(e["uncommitted"]), "com": regs_view(e["committed"])})
            elif n == "commit_task_begin":
                out.append({"e": "commit_begin", "op": e["opstamp"]})
            elif n == "merge_start":
                out.append({"e": "merge_start", "segs": e["segs"], "target": e["target_opstamp"]})
            elif n == "end_merge_reconcile":
                out.append({"e": "reconcile", "op": e["committed_opstamp"]})
        elif e.get("th") == "main" and ev not in ("st", "call"):
            ins = []
            if ev == "del" and e.get("ok"):
                ins.append({"e": "del", "t": e["pred"]["t"], "op": e["opstamp"]})
            elif ev == "run" and e.get("ok"):
                first = e["opstamp"] - len(e["ops"])
                for i, o in enumerate(e["ops"]):
                    if o["k"] == "del":
                        ins.append({"e": "del", "t": o["t"], "op": first + i})
            out[last_main:last_main] = ins
            if ev in ("new_writer", "rollback", "prepare_abort") and e.get("ok"):
                gen += 1
                out.append({"e": "fresh", "api": ev})
            elif ev == "commit" and e.get("ok") and e.get("obs", {}).get("ok"):
                out.append({"e": "commit", "op": e["opstamp"], "segs": [{"sid": s["sid"], "ids": [d[0] for d in s["docs"]]} for s in e["obs"]["segs"]]})
            last_main = len(out)
    return out
