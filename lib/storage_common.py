"""Shared by C01 / C10 (and C05/C11): runs of the real writer on SimDirectory, their storage
traces judged by StorageTrace.tla, crash images judged by CoreTrace.tla."""
import json
import random

import storage_events
import tracecheck
import vlib
from props import c02

API_CRASH = c02.API_EVS | {"call", "crash_image"}


def record_random(ctx, label, runs, ops, seed, extra=None, crash_images=0, stride=4):
    tp = ctx.path(f"{label}_trace.ndjson")
    args = ["random", "--seed", seed, "--runs", runs, "--ops", ops, "--flush", "mix", "--threads", "mix",
            "--merge", "mix", "--out", tp] + (extra or [])
    if crash_images:
        args += ["--crash-images", crash_images, "--crash-write-stride", stride]
    vlib.run_bin("core_driver", args, timeout=1800)
    return vlib.read_ndjson(tp)


def record_histories(ctx, label, hs, crash_images=0, stride=4):
    hp = ctx.path(f"{label}_hist.ndjson")
    vlib.write_ndjson(hp, hs)
    tp = ctx.path(f"{label}_trace.ndjson")
    args = ["replay", "--in", hp, "--out", tp]
    if crash_images:
        args += ["--crash-images", crash_images, "--crash-write-stride", stride, "--seed", ctx.seed]
    vlib.run_bin("core_driver", args, timeout=1800)
    return vlib.read_ndjson(tp)


def place_crash(events):
    """crash_image events are emitted at the end of a run: move each right after the storage
    operation (opcount k) after which its snapshot was taken"""
    out, crashes = [], {}
    for e in events:
        if e.get("ev") == "crash_image":
            crashes.setdefault(e["k"], []).append(e)
    for e in events:
        if e.get("ev") == "crash_image":
            continue
        if e.get("ev") == "reset":
            crashes_left = crashes
        out.append(e)
        if e.get("ev") == "st" and e.get("k") in crashes:
            out.extend(crashes.pop(e["k"]))
    # snapshots of operations that emitted no event (none expected) are appended before `end`
    return out


def storage_runs(events):
    """per-run compacted storage traces"""
    runs = vlib.split_runs(events)
    return [storage_events.compact(storage_events.mark_gcrace(r)) for r in runs]


def api_crash_runs(events):
    out = []
    for r in vlib.split_runs(events):
        r = place_crash(r)
        out.append([vlib.strip_nulls(e) for e in r if e.get("ev") in API_CRASH])
    return out


def storage_key(run):
    return json.dumps([[e["e"], e.get("p", "")] for e in run if e["e"] in ("meta", "delete", "fresh", "regs", "commit")])[:4000]


C01_CLASS = ("InvCrashSafe", "InvDurable")
C10_CLASS = ("InvNoOrphan",)


def _inv(r):
    """names of the invariants a trace validation reported (declared INVARIANTs or the in-step checks)"""
    return list(r.violated) + [n for n, _ in getattr(r, "invfail", [])]


def owns_c01(why, evt, r):
    if _inv(r):
        return any(v in C01_CLASS for v in _inv(r))
    return bool(r.rejected) and evt.get("e") in ("commit", "meta", "create", "term", "sync", "call", "reset", "dropw", "man")


def owns_c10(why, evt, r):
    if _inv(r):
        return any(v in C10_CLASS for v in _inv(r))
    return bool(r.rejected) and evt.get("e") in ("delete", "gc", "end", "regs", "fresh")


def fixed_histories():
    """hand-written histories that walk through commit / delete / merge / rollback / gc"""
    A = lambda i, t, v=0: {"op": "add", "id": i, "t": t, "v": v}
    D = lambda t: {"op": "del", "pred": {"k": "term", "t": t}}
    C = {"op": "commit"}
    return [
        {"cfg": {"threads": 1, "flush_after": 2, "merge": "none"}, "tag": "fixed1",
         "ops": [A(1, "a"), A(2, "b"), A(3, "a"), C, D("a"), C, {"op": "merge"}, {"op": "gc"}, A(4, "a"), {"op": "rollback"}, C]},
        {"cfg": {"threads": 2, "flush_after": 1, "merge": "any2"}, "tag": "fixed2",
         "ops": [A(1, "a"), A(2, "b"), C, A(3, "c"), D("b"), A(4, "b"), C, {"op": "drop_writer"}, {"op": "new_writer"}, A(5, "a"), D("a"), C, {"op": "gc"}]},
        {"cfg": {"threads": 1, "flush_after": 1, "merge": "log"}, "tag": "fixed3",
         "ops": [A(1, "a"), A(2, "a"), A(3, "b"), {"op": "prepare_commit", "abort": False, "payload": "x"}, D("a"), A(4, "c"),
                 {"op": "prepare_commit", "abort": True, "payload": "y"}, A(5, "c"), C, {"op": "merge"}, C]},
    ]
