"""Common machinery of the checks: harness build, TLC runner, trace normalisation, evidence,
known findings, violation replays.  Exit codes: 0 property held on everything explored,
1 VIOLATION (with a replay), 2 tool error / time-out (never reported as a violation)."""
import fcntl
import json
import os
import re
import shutil
import subprocess
import sys
import time

ROOT = os.path.dirname(os.path.dirname(os.path.abspath(__file__)))
SPEC = os.path.join(ROOT, "spec")
HARNESS = os.environ.get("VERIF_HARNESS") or os.path.join(ROOT, "harness")
WORK = os.path.join(ROOT, "work")
BIN = os.path.join(HARNESS, "target", "release")
TLA_JAR = "/opt/veriftools/tla/tla2tools.jar:/opt/veriftools/tla/CommunityModules-deps.jar"


class ToolError(Exception):
    pass


FAILED_BINS = set()


def log(*a):
    print(*a, file=sys.stderr, flush=True)


def build_harness():
    """cargo build of the harness against /repo's current working tree (hooks on)."""
    os.makedirs(WORK, exist_ok=True)
    lock = open(os.path.join(WORK, ".build.lock"), "w")
    fcntl.flock(lock, fcntl.LOCK_EX)
    try:
        lockfile = os.path.join(HARNESS, "Cargo.lock")
        if not os.path.exists(lockfile):
            shutil.copy("/repo/Cargo.lock", lockfile)
        t0 = time.time()
        env = dict(os.environ, CARGO_NET_OFFLINE="true")
        p = subprocess.run(["cargo", "build", "--release", "--offline", "--keep-going"], cwd=HARNESS, env=env,
                           stdout=subprocess.PIPE, stderr=subprocess.STDOUT, text=True)
        if p.returncode != 0:
            # a driver that does not compile only breaks the checks that need it
            FAILED_BINS.update(re.findall(r'could not compile `vh` \(bin "([^"]+)"\)', p.stdout))
            if not FAILED_BINS or "could not compile `vh` (lib)" in p.stdout or "could not compile `tantivy" in p.stdout:
                log(p.stdout[-6000:])
                raise ToolError("harness build failed (does /repo still compile with --cfg tantivy_verif?)")
            log(f"[build] these drivers did not compile: {sorted(FAILED_BINS)}")
        log(f"[build] harness built in {time.time()-t0:.1f}s")
    finally:
        fcntl.flock(lock, fcntl.LOCK_UN)
        lock.close()


def run_bin(name, args, timeout=600, env=None, mem_gb=8, check=True, stdin=None):
    """Run a harness binary under a wall-clock and address-space limit."""
    if name in FAILED_BINS:
        raise ToolError(f"driver {name} did not compile")
    cmd = [os.path.join(BIN, name)] + [str(a) for a in args]
    pre = f"ulimit -v {int(mem_gb*1024*1024)}; exec " + " ".join("'" + c.replace("'", "'\\''") + "'" for c in cmd)
    e = dict(os.environ)
    if env:
        e.update(env)
    try:
        p = subprocess.run(["bash", "-c", pre], stdout=subprocess.PIPE, stderr=subprocess.PIPE, text=True,
                           timeout=timeout, env=e, input=stdin)
    except subprocess.TimeoutExpired:
        if check:
            raise ToolError(f"{name} timed out after {timeout}s: {' '.join(cmd)}")
        return None
    if check and p.returncode != 0:
        log(p.stderr[-4000:])
        raise ToolError(f"{name} exited {p.returncode}: {' '.join(cmd)}")
    return p


class TlcResult:
    def __init__(self, rc, out, wall):
        self.rc, self.out, self.wall = rc, out, wall
        m = re.findall(r"(\d[\d,]*) states generated, (\d[\d,]*) distinct states found", out)
        self.generated = int(m[-1][0].replace(",", "")) if m else 0
        self.distinct = int(m[-1][1].replace(",", "")) if m else 0
        m = re.search(r"depth of the complete state graph search is (\d+)", out)
        self.depth = int(m.group(1)) if m else 0
        self.violated = re.findall(r"Error: Invariant (\S+) is violated", out)
        self.violated += re.findall(r"Error: Action property (\S+) is violated", out)
        if "Temporal properties were violated" in out:
            self.violated.append("temporal")
        self.rejected = re.findall(r'<<\s*"REJECTED",\s*(\d+),\s*(.*?)>>\s+FALSE', out, re.S)
        # invariants evaluated inside the step of a trace specification (see StorageTrace!Chk)
        self.invfail = re.findall(r'<<\s*"INVFAIL",\s*"(\w+)",\s*(\d+)\s*>>', out)
        self.kf = re.findall(r'<<\s*"KF",\s*"([^"]*)",\s*(\d+)\s*>>', out, re.S)
        self.tool_error = ("TLC threw an unexpected exception" in out or "Parsing or semantic analysis failed" in out
                           or "java.lang.OutOfMemoryError" in out or "StackOverflowError" in out
                           or ("Error:" in out and not self.violated and not self.rejected
                               and "Postcondition" not in out and "Deadlock" not in out))
        self.ok = (rc == 0 and not self.violated and not self.rejected and "Error:" not in out)

    def coverage_zero_actions(self):
        """actions with zero coverage in a -coverage run: `<Name line ...>: 0:0`"""
        return re.findall(r"^<(\w+) line .*>: 0:0", self.out, re.M)


def run_tlc(module, cfg, workers=8, timeout=600, env=None, trace=None, simulate=None, depth=None,
            coverage=False, heap="8g", tag=None, deque=False, extra=None):
    """Run TLC on spec/<module>.tla with spec/<cfg>. Returns TlcResult; raises ToolError on timeout."""
    tag = tag or f"{module}-{os.getpid()}-{int(time.time()*1000)%100000}"
    meta = os.path.join(WORK, "tlc", tag)
    os.makedirs(meta, exist_ok=True)
    jopts = "-Xss1g"
    if deque:
        jopts += " -Dtlc2.tool.queue.IStateQueue=StateDeque"
    # (TLC's own temporary directories go into the run's metadir, which is removed below - not into /tmp)
    cmd = ["timeout", str(timeout), "java", "-XX:+UseParallelGC", f"-Xmx{heap}", "-Xss1g", f"-Djava.io.tmpdir={meta}"]
    if deque:
        cmd.append("-Dtlc2.tool.queue.IStateQueue=StateDeque")
    cmd += ["-cp", TLA_JAR, "tlc2.TLC", "-workers", str(workers), "-metadir", meta, "-cleanup",
            "-noGenerateSpecTE", "-config", cfg]
    if simulate:
        cmd += ["-simulate", f"num={simulate}"]
    if depth:
        cmd += ["-depth", str(depth)]
    if coverage:
        cmd += ["-coverage", "1"]
    if trace:
        # error traces of a trace validation are as long as the trace: print differences only
        cmd.append("-difftrace")
    if extra:
        cmd += extra
    cmd.append(module + ".tla")
    e = dict(os.environ)
    e.pop("JAVA_TOOL_OPTIONS", None)
    if env:
        e.update(env)
    if trace:
        e["TRACE"] = trace
    t0 = time.time()
    # TLC's output goes to a file: an error trace of a long trace validation can be gigabytes
    outpath = os.path.join(meta, "tlc.stdout")
    with open(outpath, "w") as of:
        p = subprocess.run(cmd, cwd=SPEC, stdout=of, stderr=subprocess.STDOUT, env=e)
    wall = time.time() - t0
    size = os.path.getsize(outpath)
    with open(outpath, "r", errors="replace") as f:
        if size <= 64_000_000:
            out = f.read()
        else:
            head = f.read(8_000_000)
            f.seek(size - 8_000_000)
            out = head + "\n... (%d bytes of TLC output dropped) ...\n" % (size - 16_000_000) + f.read()
    shutil.rmtree(meta, ignore_errors=True)
    if p.returncode == 124:
        raise ToolError(f"TLC timed out after {timeout}s on {module}/{cfg}")
    return TlcResult(p.returncode, out, wall)


def apalache_inductive(ctx, module, files, cinit, indinv, init="Init", indinit="IndInit", timeout=900, expect_fail=False):
    """Unbounded safety with Apalache: Init => IndInv (length 0) and IndInv /\\ Next => IndInv' (length 1).
    `files`: the specification files to copy into a scratch directory (Apalache writes next to them).
    Returns True when both steps hold (or, with expect_fail, when the inductive step is refuted as required)."""
    if not shutil.which("apalache-mc"):
        ctx.assumptions.append("apalache-mc not available: the inductive check was skipped")
        return None
    d = ctx.path(f"apalache_{module}")
    os.makedirs(d, exist_ok=True)
    for f in files:
        shutil.copy(os.path.join(SPEC, f), d)
    res = []
    steps = [("step", indinit, 1)] if expect_fail else [("base", init, 0), ("step", indinit, 1)]
    for name, ini, length in steps:
        t0 = time.time()
        p = subprocess.run(["timeout", str(timeout), "apalache-mc", "check", f"--cinit={cinit}", f"--init={ini}", f"--inv={indinv}", f"--length={length}",
                            "--out-dir=" + os.path.join(d, "out"), module + ".tla"], cwd=d, stdout=subprocess.PIPE, stderr=subprocess.STDOUT, text=True,
                           env=dict(os.environ, TMPDIR=d))     # (its launcher creates a SANY* directory with mktemp -t)
        if p.returncode == 124:
            raise ToolError(f"Apalache timed out on {module} ({name})")
        ok = "The outcome is: NoError" in p.stdout
        err = "The outcome is: Error" in p.stdout
        if not ok and not err:
            log(p.stdout[-3000:])
            raise ToolError(f"Apalache failed on {module} ({name})")
        res.append((name, ok, round(time.time() - t0, 1)))
    ctx.cov["tlc_runs"].append({"name": f"apalache {module} {indinv}" + (" (must fail)" if expect_fail else ""), "kind": "inductive", "distinct": 0, "generated": 0, "depth": 1,
                                "wall_s": sum(r[2] for r in res)})
    if expect_fail:
        good = not res[0][1]
        log(f"[ind] Apalache {module}: inductive step of {indinv} " + ("refuted as required" if good else "HOLDS although it must fail"))
        if not good:
            raise ToolError(f"Apalache: the must-fail inductive check of {module} holds")
        return True
    good = all(r[1] for r in res)
    log(f"[ind] Apalache {module}: Init => {indinv} and {indinv} /\\ Next => {indinv}' " + ("hold" if good else "FAIL") + f" ({sum(r[2] for r in res):.0f}s)")
    return good


def strip_nulls(v, keep=("payload",)):
    """JSON null has no TLA+ counterpart: drop null members, except the listed keys -> "null"."""
    if isinstance(v, dict):
        out = {}
        for k, x in v.items():
            if x is None:
                if k in keep:
                    out[k] = "null"
                continue
            out[k] = strip_nulls(x, keep)
        return out
    if isinstance(v, list):
        return [strip_nulls(x, keep) for x in v]
    return v


def read_ndjson(path):
    out = []
    with open(path) as f:
        for line in f:
            line = line.strip()
            if line:
                out.append(json.loads(line))
    return out


def write_ndjson(path, events):
    with open(path, "w") as f:
        for e in events:
            f.write(json.dumps(e, separators=(",", ":")) + "\n")


def split_runs(events, reset="reset"):
    """split a concatenated trace into runs at `reset` events (events before the first reset are
    kept with the first run)"""
    runs, cur = [], []
    for e in events:
        if e.get("ev") == reset and any(x.get("ev") == reset for x in cur):
            runs.append(cur)
            cur = []
        cur.append(e)
    if cur:
        runs.append(cur)
    return runs


class Ctx:
    """State of one check run: tier, seed, evidence accumulation, findings, violations."""

    def __init__(self, prop, tier, seed, level="model_checking"):
        self.prop, self.tier, self.seed, self.level = prop, tier, seed, level
        self.t0 = time.time()
        self.cov = {"states": 0, "transitions": 0, "traces_validated_against_impl": 0, "samples": [],
                    "evaluations": 0, "distinct_nontrivial": 0, "rule": "", "tlc_runs": [], "known_findings_seen": [],
                    "binding_selftest": {}}
        self.assumptions = []
        self.violations = []
        self.kf_seen = {}
        self.known = load_known()
        self.workdir = os.path.join(WORK, f"{prop}-{tier}-{seed}" + ("-scratch" if os.environ.get("VERIF_HARNESS") else ""))
        shutil.rmtree(self.workdir, ignore_errors=True)
        os.makedirs(self.workdir, exist_ok=True)
        self._distinct = set()

    @property
    def quick(self):
        return self.tier == "quick"

    def path(self, name):
        return os.path.join(self.workdir, name)

    def add_tlc(self, name, r, kind="mc"):
        self.cov["states"] += r.distinct
        self.cov["transitions"] += r.generated
        self.cov["tlc_runs"].append({"name": name, "kind": kind, "distinct": r.distinct, "generated": r.generated,
                                     "depth": r.depth, "wall_s": round(r.wall, 1)})

    def sample(self, s, cap=6):
        if len(self.cov["samples"]) < cap:
            self.cov["samples"].append(s)

    def distinct(self, key, nontrivial=True):
        self.cov["evaluations"] += 1
        if nontrivial:
            self._distinct.add(key if isinstance(key, (str, int, tuple)) else json.dumps(key, sort_keys=True))
        self.cov["distinct_nontrivial"] = len(self._distinct)

    def known_finding(self, fid, what):
        """A listed finding was reproduced: print one KNOWN-FINDING line per finding id."""
        if fid not in self.kf_seen:
            self.kf_seen[fid] = what
            print(f"KNOWN-FINDING: property={self.prop} {fid} {what}", flush=True)
            self.cov["known_findings_seen"].append(fid)

    def match_known(self, text):
        """return the id of the known finding (for this property) whose `match` regex finds `text`"""
        for k in self.known.get("known", []):
            if self.prop in k["properties"] and re.search(k["match"], text, re.S):
                return k["id"], k["what"]
        return None

    def violation(self, what, files=None, detail=""):
        """Report a violation unless it matches a listed known finding."""
        m = self.match_known(what + "\n" + detail)
        if m:
            self.known_finding(m[0], m[1])
            return False
        n = len(self.violations) + 1
        rdir = os.path.join(os.environ.get("VERIF_REPLAY_DIR") or os.path.join(ROOT, "replays"), f"{self.prop}-{self.tier}-{self.seed}-{n}")
        shutil.rmtree(rdir, ignore_errors=True)
        os.makedirs(rdir, exist_ok=True)
        with open(os.path.join(rdir, "what.txt"), "w") as f:
            f.write(what + "\n\n" + detail + "\n")
        for src in files or []:
            if src and os.path.exists(src):
                shutil.copy(src, rdir)
        self.violations.append({"what": what, "replay": rdir})
        print(f"VIOLATION property={self.prop} replay={rdir}", flush=True)
        log(f"[violation] {what}\n{detail[:3000]}")
        return True

    def finish(self):
        ev = {
            "property_id": self.prop, "tier": self.tier, "seed": self.seed, "level": self.level,
            "coverage": self.cov, "assumptions": self.assumptions, "wall_s": round(time.time() - self.t0, 1),
            "violations": len(self.violations),
        }
        if not self.cov["samples"]:
            self.cov["samples"].append("(no sample recorded)")
        evdir = os.environ.get("VERIF_EVIDENCE_DIR") or os.path.join(ROOT, "evidence")
        if self.prop.startswith("X") and not os.environ.get("VERIF_EVIDENCE_DIR"):
            # checks of specification parts that are not anchored in a listed property (./check X01 ...)
            evdir = os.path.join(ROOT, "evidence_extra")
        os.makedirs(evdir, exist_ok=True)
        with open(os.path.join(evdir, f"{self.prop}.json"), "w") as f:
            json.dump(ev, f, indent=1, sort_keys=True)
        if not os.environ.get("VERIF_KEEP"):
            shutil.rmtree(self.workdir, ignore_errors=True)
        return 1 if self.violations else 0


def load_known():
    p = os.path.join(ROOT, "known_findings.json")
    if os.path.exists(p):
        return json.load(open(p))
    return {"known": [], "fixed": []}


def mc_check(ctx, module, cfg, name=None, timeout=900, workers=12, expect_violation=None, coverage=False, heap="10g"):
    """Run a bounded model-checking configuration.  expect_violation = name of the invariant that
    a negative configuration (vacuity guard) must violate."""
    name = name or cfg
    r = run_tlc(module, cfg, workers=workers, timeout=timeout, coverage=coverage, heap=heap)
    ctx.add_tlc(name, r)
    if r.tool_error and not r.violated:
        log(r.out[-3000:])
        raise ToolError(f"TLC failed on {module}/{cfg}")
    if expect_violation:
        if expect_violation not in r.violated:
            log(r.out[-3000:])
            raise ToolError(f"vacuity guard: negative configuration {cfg} did not violate {expect_violation}")
        log(f"[mc] {name}: negative configuration violates {expect_violation} as required ({r.distinct} states)")
        return r
    if r.violated:
        out = ctx.path(f"{name}.tlc.out")
        open(out, "w").write(r.out)
        ctx.violation(f"model checking {module}/{cfg}: {', '.join(r.violated)} violated", [out], r.out[-4000:])
    else:
        log(f"[mc] {name}: {r.distinct} distinct states, depth {r.depth}, {r.wall:.0f}s, no violation")
    return r


def validate_trace(ctx, module, cfg, trace_path, name=None, timeout=300, heap="4g"):
    """TLC as the judge of a recorded trace.  Returns (accepted, TlcResult)."""
    r = run_tlc(module, cfg, workers=1, timeout=timeout, trace=trace_path, deque=True, heap=heap)
    ctx.add_tlc(name or os.path.basename(trace_path), r, kind="trace")
    for tag, line in r.kf:
        m = ctx.match_known(tag)
        if m:
            ctx.known_finding(m[0], m[1])
    if r.ok:
        return True, r
    if r.tool_error and not r.rejected and not r.violated:
        log(r.out[-4000:])
        raise ToolError(f"TLC failed while validating {trace_path} with {module}")
    return False, r
