#!/bin/bash
# Build the framework from files on disk only (offline): the Rust harness against /repo's
# current working tree (hooks on), and a syntax/semantic check of every TLA+ module.
set -e
cd "$(dirname "$0")"
export CARGO_NET_OFFLINE=true
mkdir -p work evidence replays
[ -f harness/Cargo.lock ] || cp /repo/Cargo.lock harness/Cargo.lock
(cd harness && cargo build --release --offline 2>&1 | tail -3)
fail=0
mkdir -p work/sany_tmp
for f in spec/*.tla; do
  m=$(basename "$f" .tla)
  if ! (cd spec && timeout 120 java -Djava.io.tmpdir="$PWD/../work/sany_tmp" -cp /opt/veriftools/tla/tla2tools.jar:/opt/veriftools/tla/CommunityModules-deps.jar tla2sany.SANY "$m.tla" >/tmp/sany.$$ 2>&1) || grep -q "errors\? \*\*\*\|Fatal\|Could not" /tmp/sany.$$ && grep -qi "error" /tmp/sany.$$; then
    echo "SANY failed on $m"; cat /tmp/sany.$$ | tail -20; fail=1
  fi
done
rm -f /tmp/sany.$$
rm -rf work/sany_tmp
exit $fail
