//! Shared code of the verification harness: trace writer, SimDirectory, small helpers.
pub mod simdir;
pub mod trace;
pub mod core;

use std::collections::HashMap;

/// `--key value` style arguments.
pub struct Args {
    pub pos: Vec<String>,
    pub kv: HashMap<String, String>,
}
impl Args {
    pub fn parse() -> Args {
        let mut pos = vec![];
        let mut kv = HashMap::new();
        let v: Vec<String> = std::env::args().skip(1).collect();
        let mut i = 0;
        while i < v.len() {
            if let Some(k) = v[i].strip_prefix("--") {
                if i + 1 < v.len() && !v[i + 1].starts_with("--") {
                    kv.insert(k.to_string(), v[i + 1].clone());
                    i += 2;
                } else {
                    kv.insert(k.to_string(), "true".to_string());
                    i += 1;
                }
            } else {
                pos.push(v[i].clone());
                i += 1;
            }
        }
        Args { pos, kv }
    }
    pub fn get(&self, k: &str, default: &str) -> String {
        self.kv.get(k).cloned().unwrap_or_else(|| default.to_string())
    }
    pub fn num(&self, k: &str, default: u64) -> u64 {
        self.kv.get(k).map(|s| s.parse().expect("numeric argument")).unwrap_or(default)
    }
    pub fn flag(&self, k: &str) -> bool {
        self.kv.contains_key(k)
    }
}

/// Install the tantivy hook sink so that every hook event goes to the tracer as
/// `{"ev":"hook","name":..., ...}` with segment uuids canonicalised.
pub fn install_hook_sink(tracer: &trace::Tracer) {
    let t = tracer.clone();
    tantivy::verif::set_sink(Some(std::sync::Arc::new(move |name, mut v| {
        canon_value(&t, &mut v);
        if let serde_json::Value::Object(m) = &mut v {
            m.insert("ev".into(), serde_json::json!("hook"));
            m.insert("name".into(), serde_json::json!(name));
        }
        t.emit(v);
    })));
}

/// Replace segment uuids (32 hex chars, optionally followed by an extension) by canonical ids.
pub fn canon_value(t: &trace::Tracer, v: &mut serde_json::Value) {
    use serde_json::Value;
    match v {
        Value::String(s) => {
            let b = s.as_bytes();
            if b.len() >= 32 && b[..32].iter().all(|c| c.is_ascii_hexdigit()) {
                if b.len() == 32 {
                    *v = serde_json::json!(t.seg(s));
                } else if b[32] == b'.' {
                    *s = format!("s{}{}", t.seg(&s[..32].to_string()), &s[32..].to_string());
                }
            }
        }
        Value::Array(a) => {
            for x in a {
                canon_value(t, x);
            }
        }
        Value::Object(m) => {
            for (_, x) in m.iter_mut() {
                canon_value(t, x);
            }
        }
        _ => {}
    }
}
