//! C16 driver: feeds strings to tantivy_query_grammar::{parse_query, parse_query_lenient} and to
//! QueryParser::{parse_query, parse_query_lenient}, and runs parsed queries on a small corpus.
//! EVERY input is processed in a child process with a watchdog thread (2 s wall clock, resident
//! memory cap) and an address-space limit: a panic is recorded as an observation, a time-out /
//! memory blow-up / crash as an event of its own (no action of spec/GrammarTrace.tla accepts them).
//! The driver never computes an expected result.
//!   qparse_driver run --in inputs.ndjson --out trace.ndjson [--jobs J] [--batch B] [--timeout-ms 2000]
//! inputs: line 1 = header {"kind":"totality","alphabet":[[cp..]..]} or {"kind":"meaning","corpus":{..}}
//!         totality lines: [t1,t2,..] (1-based token indices), {"text":[cp..]} or {"rep":{"pre":[t..],"n":N,"mid":[t..],"post":[t..]}}
//!         meaning lines:  {"q":<abstract query>,"texts":[[cp..],..]}
//!   (internal) qparse_driver worker --in .. --out part --from a --to b --progress file [--skip i]
use serde_json::{json, Value};
use std::io::{BufRead, Write};
use std::os::unix::fs::FileExt;
use std::panic::{catch_unwind, AssertUnwindSafe};
use std::sync::atomic::{AtomicU64, Ordering};
use std::sync::{Arc, Mutex};
use std::time::{Duration, Instant};
use tantivy::collector::DocSetCollector;
use tantivy::query::{Query, QueryParser};
use tantivy::schema::*;
use tantivy::{doc, Index, IndexWriter, TantivyDocument};
use vh::Args;

fn text_of(v: &Value) -> String {
    v.as_array().unwrap().iter().map(|c| char::from_u32(c.as_u64().unwrap() as u32).unwrap()).collect()
}
fn cps(s: &str) -> Value {
    Value::Array(s.chars().map(|c| json!(c as u32)).collect())
}
fn panic_msg(e: Box<dyn std::any::Any + Send>) -> String {
    e.downcast_ref::<String>().cloned().or(e.downcast_ref::<&str>().map(|s| s.to_string())).unwrap_or_else(|| "?".into())
}

// ------------------------------------------------------------------------------------------
struct Ctx {
    tot_parser: QueryParser,
    corpus: Option<Corpus>,
}
struct Corpus {
    index: Index,
    id_field: String,
    parser_or: QueryParser,
    parser_and: QueryParser,
    parser_nodef: QueryParser, // no default field at all
}

fn totality_parser() -> QueryParser {
    let mut sb = Schema::builder();
    let a = sb.add_text_field("a", TEXT);
    sb.add_u64_field("b", INDEXED | FAST);
    let schema = sb.build();
    let index = Index::create_in_ram(schema);
    QueryParser::for_index(&index, vec![a])
}

/// the corpus and its schema, entirely as the generator specification describes them
fn build_corpus(c: &Value) -> Corpus {
    let mut sb = Schema::builder();
    let id = sb.add_u64_field("id", FAST | STORED);
    let mut fields: Vec<(String, String, Field)> = vec![];
    for f in c["fields"].as_array().unwrap() {
        let name = text_of(&f["name"]);
        let ty = f["type"].as_str().unwrap().to_string();
        let fld = match ty.as_str() {
            "text" => sb.add_text_field(&name, TEXT),
            "raw" => sb.add_text_field(&name, STRING),
            "u64" => sb.add_u64_field(&name, INDEXED | FAST),
            "i64" => sb.add_i64_field(&name, INDEXED | FAST),
            "f64" => sb.add_f64_field(&name, INDEXED | FAST),
            "bool" => sb.add_bool_field(&name, INDEXED | FAST),
            "date" => sb.add_date_field(&name, INDEXED | FAST),
            "ip" => sb.add_ip_addr_field(&name, INDEXED | FAST),
            "bytes" => sb.add_bytes_field(&name, INDEXED | FAST),
            "facet" => sb.add_facet_field(&name, FacetOptions::default()),
            "json" => sb.add_json_field(&name, TEXT | FAST),
            x => panic!("field type {x}"),
        };
        fields.push((name, ty, fld));
    }
    let schema = sb.build();
    let index = Index::create_in_ram(schema.clone());
    let mut w: IndexWriter = index.writer_with_num_threads(1, 20_000_000).unwrap();
    let per_seg = c["docs_per_segment"].as_u64().unwrap_or(1000);
    for (i, d) in c["docs"].as_array().unwrap().iter().enumerate() {
        let mut doc: TantivyDocument = doc!(id => (i + 1) as u64);
        for (name, ty, fld) in &fields {
            // a document gives, per field, a list of literal texts (as the query language writes them)
            let Some(vals) = d.get(name.as_str()).and_then(|v| v.as_array()) else { continue };
            for v in vals {
                let s = text_of(v);
                match ty.as_str() {
                    "text" | "raw" => doc.add_text(*fld, &s),
                    "u64" => doc.add_u64(*fld, s.parse().unwrap()),
                    "i64" => doc.add_i64(*fld, s.parse().unwrap()),
                    "f64" => doc.add_f64(*fld, s.parse().unwrap()),
                    "bool" => doc.add_bool(*fld, s.parse().unwrap()),
                    "date" => {
                        let dt = tantivy::time::OffsetDateTime::parse(&s, &tantivy::time::format_description::well_known::Rfc3339).unwrap();
                        doc.add_date(*fld, tantivy::DateTime::from_utc(dt))
                    }
                    "ip" => {
                        let ip: std::net::IpAddr = s.parse().unwrap();
                        let v6 = match ip {
                            std::net::IpAddr::V4(x) => x.to_ipv6_mapped(),
                            std::net::IpAddr::V6(x) => x,
                        };
                        doc.add_ip_addr(*fld, v6)
                    }
                    "bytes" => doc.add_bytes(*fld, s.as_bytes()),
                    "facet" => doc.add_facet(*fld, Facet::from(&s)),
                    "json" => {
                        let obj: serde_json::Map<String, Value> = serde_json::from_str(&s).unwrap();
                        let mut m = std::collections::BTreeMap::new();
                        for (k, v) in obj {
                            let ov: OwnedValue = match v {
                                Value::String(s) => OwnedValue::Str(s),
                                Value::Number(n) if n.is_u64() => OwnedValue::U64(n.as_u64().unwrap()),
                                Value::Number(n) if n.is_i64() => OwnedValue::I64(n.as_i64().unwrap()),
                                Value::Bool(b) => OwnedValue::Bool(b),
                                x => panic!("json value {x}"),
                            };
                            m.insert(k, ov);
                        }
                        doc.add_object(*fld, m)
                    }
                    _ => unreachable!(),
                }
            }
        }
        w.add_document(doc).unwrap();
        if (i as u64 + 1) % per_seg == 0 {
            w.commit().unwrap();
        }
    }
    w.commit().unwrap();
    let defaults: Vec<Field> = c["default_fields"].as_array().unwrap().iter().map(|n| schema.get_field(&text_of(n)).unwrap()).collect();
    let parser_or = QueryParser::for_index(&index, defaults.clone());
    let mut parser_and = QueryParser::for_index(&index, defaults);
    parser_and.set_conjunction_by_default();
    let parser_nodef = QueryParser::for_index(&index, vec![]);
    Corpus { index, id_field: "id".to_string(), parser_or, parser_and, parser_nodef }
}

fn run_query(c: &Corpus, q: &dyn Query) -> Result<Vec<u64>, String> {
    let reader = c.index.reader().map_err(|e| e.to_string())?;
    let searcher = reader.searcher();
    let docs = searcher.search(q, &DocSetCollector).map_err(|e| format!("search error: {e}"))?;
    let mut ids = vec![];
    for addr in docs {
        let seg = searcher.segment_reader(addr.segment_ord);
        let col = seg.fast_fields().u64(&c.id_field).map_err(|e| e.to_string())?;
        ids.push(col.first(addr.doc_id).unwrap_or(0));
    }
    ids.sort();
    Ok(ids)
}

// ------------------------------------------------------------------------------------------
// one totality observation: [gs, gle, same, qs, qle, qsame]; codes 0 ok, 1 error returned, 2 panic
fn totality_obs(ctx: &Ctx, text: &str, stage: &AtomicU64, notes: &mut Vec<Value>, idx: u64) -> Value {
    let mut note = |st: &str, msg: String| notes.push(json!({"i":idx,"text":text,"stage":st,"msg":msg}));
    stage.store(1, Ordering::SeqCst);
    let gs = catch_unwind(AssertUnwindSafe(|| tantivy_query_grammar::parse_query(text)));
    stage.store(2, Ordering::SeqCst);
    let gl = catch_unwind(AssertUnwindSafe(|| tantivy_query_grammar::parse_query_lenient(text)));
    let (gs_code, gs_json) = match gs {
        Ok(Ok(ast)) => (0, Some(serde_json::to_string(&ast).unwrap())),
        Ok(Err(_)) => (1, None),
        Err(e) => {
            note("grammar_strict", panic_msg(e));
            (2, None)
        }
    };
    let (gl_code, gle, gl_json) = match gl {
        Ok((ast, errs)) => (0, errs.len() as i64, Some(serde_json::to_string(&ast).unwrap())),
        Err(e) => {
            note("grammar_lenient", panic_msg(e));
            (2, 0, None)
        }
    };
    let same = gs_json.is_some() && gs_json == gl_json;
    stage.store(3, Ordering::SeqCst);
    let qs = catch_unwind(AssertUnwindSafe(|| ctx.tot_parser.parse_query(text)));
    stage.store(4, Ordering::SeqCst);
    let ql = catch_unwind(AssertUnwindSafe(|| ctx.tot_parser.parse_query_lenient(text)));
    let (qs_code, qs_dbg) = match qs {
        Ok(Ok(q)) => (0, Some(format!("{q:?}"))),
        Ok(Err(_)) => (1, None),
        Err(e) => {
            note("queryparser_strict", panic_msg(e));
            (2, None)
        }
    };
    let (ql_code, qle, ql_dbg) = match ql {
        Ok((q, errs)) => (0, errs.len() as i64, Some(format!("{q:?}"))),
        Err(e) => {
            note("queryparser_lenient", panic_msg(e));
            (2, 0, None)
        }
    };
    let qsame = qs_dbg.is_some() && qs_dbg == ql_dbg;
    stage.store(0, Ordering::SeqCst);
    json!([gs_code, gl_code, gle, same, qs_code, ql_code, qle, qsame])
}

fn err_name(e: &tantivy::query::QueryParserError) -> String {
    let d = format!("{e:?}");
    d.split(|c: char| !c.is_alphanumeric()).next().unwrap_or("").to_string()
}

fn meaning_obs(ctx: &Ctx, case: &Value, stage: &AtomicU64) -> Value {
    let c = ctx.corpus.as_ref().expect("corpus header");
    let mut obs = vec![];
    for t in case["texts"].as_array().unwrap() {
        let text = text_of(t);
        let mut o = serde_json::Map::new();
        o.insert("text".into(), t.clone());
        for (mode, parser) in [("or", &c.parser_or), ("and", &c.parser_and), ("nodef", &c.parser_nodef)] {
            stage.store(3, Ordering::SeqCst);
            // parsing and searching are observed separately: a panic of the parser is C16's business,
            // a panic while searching is reported as such
            let search = |q: &dyn Query| match catch_unwind(AssertUnwindSafe(|| run_query(c, q))) {
                Ok(Ok(ids)) => Ok(ids),
                Ok(Err(e)) => Err(("search_err", e)),
                Err(e) => Err(("search_panic", panic_msg(e))),
            };
            let s = match catch_unwind(AssertUnwindSafe(|| parser.parse_query(&text))) {
                Ok(Ok(q)) => match search(&*q) {
                    Ok(ids) => json!({"s":"ok","docs":ids}),
                    Err((k, m)) => json!({"s":k,"msg":m}),
                },
                Ok(Err(e)) => json!({"s":"err","err":err_name(&e)}),
                Err(e) => json!({"s":"panic","msg":panic_msg(e)}),
            };
            stage.store(4, Ordering::SeqCst);
            let l = match catch_unwind(AssertUnwindSafe(|| parser.parse_query_lenient(&text))) {
                Ok((q, errs)) => match search(&*q) {
                    Ok(ids) => json!({"l":"ok","ldocs":ids,"lerrs":errs.iter().map(err_name).collect::<Vec<_>>()}),
                    Err((k, m)) => json!({"l":k,"lmsg":m}),
                },
                Err(e) => json!({"l":"panic","lmsg":panic_msg(e)}),
            };
            let mut m = s.as_object().unwrap().clone();
            m.extend(l.as_object().unwrap().clone());
            o.insert(mode.into(), Value::Object(m));
        }
        obs.push(Value::Object(o));
    }
    stage.store(0, Ordering::SeqCst);
    json!({"ev":"meaning","q":case["q"],"obs":obs})
}

// ------------------------------------------------------------------------------------------
fn rss_bytes() -> u64 {
    std::fs::read_to_string("/proc/self/statm").ok().and_then(|s| s.split_whitespace().nth(1).and_then(|x| x.parse::<u64>().ok())).unwrap_or(0) * 4096
}

const STAGES: [&str; 5] = ["-", "grammar_strict", "grammar_lenient", "queryparser_strict", "queryparser_lenient"];

fn worker(a: &Args) {
    std::panic::set_hook(Box::new(|_| {}));
    let from = a.num("from", 1);
    let to = a.num("to", u64::MAX);
    let skip = a.kv.get("skip").map(|s| s.split(',').filter_map(|x| x.parse::<u64>().ok()).collect::<Vec<_>>()).unwrap_or_default();
    let batch = a.num("batch", 1000) as usize;
    let timeout_ms = a.num("timeout-ms", 2000);
    let mem_cap = a.num("rss-mb", 1500) * 1024 * 1024;
    let out = Arc::new(Mutex::new(std::io::BufWriter::new(std::fs::OpenOptions::new().create(true).append(true).open(a.get("out", "")).unwrap())));
    let progress = std::fs::OpenOptions::new().create(true).write(true).open(a.get("progress", "")).unwrap();
    let f = std::fs::File::open(a.get("in", "")).expect("open --in");
    let mut lines = std::io::BufReader::new(f).lines();
    let header: Value = serde_json::from_str(&lines.next().unwrap().unwrap()).unwrap();
    let kind = header["kind"].as_str().unwrap().to_string();
    let alphabet: Vec<String> = header["alphabet"].as_array().map(|x| x.iter().map(text_of).collect()).unwrap_or_default();
    let ctx = Ctx { tot_parser: totality_parser(), corpus: header.get("corpus").map(build_corpus) };

    // watchdog: (current input index, start time in ms since t0, stage); the pending partial batch
    let t0 = Instant::now();
    let cur = Arc::new(AtomicU64::new(0));
    let started = Arc::new(AtomicU64::new(0));
    let stage = Arc::new(AtomicU64::new(0));
    let pending: Arc<Mutex<(Vec<Value>, Vec<Value>, Vec<Value>, String)>> = Arc::new(Mutex::new((vec![], vec![], vec![], String::new())));
    {
        let (cur, started, stage, pending, out) = (cur.clone(), started.clone(), stage.clone(), pending.clone(), out.clone());
        std::thread::spawn(move || loop {
            std::thread::sleep(Duration::from_millis(25));
            let st = started.load(Ordering::SeqCst);
            if st == 0 {
                continue;
            }
            let now = t0.elapsed().as_millis() as u64;
            let over_time = now.saturating_sub(st) > timeout_ms;
            let rss = rss_bytes();
            if over_time || rss > mem_cap {
                let p = pending.lock().unwrap();
                let mut o = out.lock().unwrap();
                if !p.0.is_empty() {
                    writeln!(o, "{}", json!({"ev":"batch","inputs":p.0,"obs":p.1,"notes":p.2})).unwrap();
                }
                let ev = if over_time { "timeout" } else { "memout" };
                let shown: String = p.3.chars().take(300).collect();
                writeln!(o, "{}", json!({"ev":ev,"i":cur.load(Ordering::SeqCst),"text":cps(&shown),"text_str":shown,"text_chars":p.3.chars().count(),
                    "stage":STAGES[stage.load(Ordering::SeqCst) as usize],"elapsed_ms":now.saturating_sub(st),"rss_mb":rss / (1024 * 1024)})).unwrap();
                o.flush().unwrap();
                std::process::exit(if over_time { 3 } else { 4 });
            }
        });
    }

    let mut idx = 1u64; // index of the line after the header
    let mut batch_start = from;
    for line in lines {
        let line = line.unwrap();
        if idx < from || skip.contains(&idx) {
            idx += 1;
            continue;
        }
        if idx >= to {
            break;
        }
        let v: Value = serde_json::from_str(&line).expect("input json");
        let mut buf = [0u8; 16];
        buf[..8].copy_from_slice(&batch_start.to_le_bytes());
        buf[8..].copy_from_slice(&idx.to_le_bytes());
        progress.write_all_at(&buf, 0).unwrap();
        if kind == "totality" {
            let toks = |v: &Value| -> String { v.as_array().unwrap().iter().map(|x| alphabet[x.as_u64().unwrap() as usize - 1].as_str()).collect() };
            let (inp, text) = if v.is_array() {
                (v.clone(), toks(&v))
            } else if let Some(r) = v.get("rep") {
                // pre^n mid post^n (the batch records the description, not the expansion)
                let n = r["n"].as_u64().unwrap() as usize;
                (v.clone(), format!("{}{}{}", toks(&r["pre"]).repeat(n), toks(&r["mid"]), toks(&r["post"]).repeat(n)))
            } else {
                (cps(&text_of(&v["text"])), text_of(&v["text"]))
            };
            pending.lock().unwrap().3 = text.clone();
            cur.store(idx, Ordering::SeqCst);
            started.store(t0.elapsed().as_millis() as u64 + 1, Ordering::SeqCst);
            let mut notes = vec![];
            let o = totality_obs(&ctx, &text, &stage, &mut notes, idx);
            started.store(0, Ordering::SeqCst);
            let mut p = pending.lock().unwrap();
            p.0.push(inp);
            p.1.push(o);
            p.2.append(&mut notes);
            if p.0.len() >= batch {
                let mut w = out.lock().unwrap();
                writeln!(w, "{}", json!({"ev":"batch","inputs":p.0,"obs":p.1,"notes":p.2})).unwrap();
                w.flush().unwrap();
                p.0.clear();
                p.1.clear();
                p.2.clear();
                batch_start = idx + 1;
            }
        } else {
            pending.lock().unwrap().3 = v["texts"].as_array().map(|t| t.iter().map(text_of).collect::<Vec<_>>().join(" | ")).unwrap_or_default();
            cur.store(idx, Ordering::SeqCst);
            started.store(t0.elapsed().as_millis() as u64 + 1, Ordering::SeqCst);
            let ev = meaning_obs(&ctx, &v, &stage);
            started.store(0, Ordering::SeqCst);
            let mut w = out.lock().unwrap();
            writeln!(w, "{}", ev).unwrap();
            w.flush().unwrap();
            batch_start = idx + 1;
        }
        idx += 1;
    }
    let p = pending.lock().unwrap();
    let mut w = out.lock().unwrap();
    if !p.0.is_empty() {
        writeln!(w, "{}", json!({"ev":"batch","inputs":p.0,"obs":p.1,"notes":p.2})).unwrap();
    }
    w.flush().unwrap();
}

// ------------------------------------------------------------------------------------------
fn supervise_shard(exe: &std::path::Path, a: &Args, shard: usize, lo: u64, hi: u64) -> String {
    let part = format!("{}.part{}", a.get("out", ""), shard);
    let prog = format!("{}.prog{}", a.get("out", ""), shard);
    let _ = std::fs::remove_file(&part);
    let mut from = lo;
    let mut skip: Vec<u64> = vec![];
    let mut restarts = 0;
    loop {
        let _ = std::fs::remove_file(&prog);
        let cmd = format!(
            "ulimit -v {}; exec '{}' worker --in '{}' --out '{}' --progress '{}' --from {} --to {} --batch {} --timeout-ms {} --rss-mb {}{}",
            a.num("vmem-kb", 4_000_000), exe.display(), a.get("in", ""), part, prog, from, hi, a.num("batch", 1000), a.num("timeout-ms", 2000), a.num("rss-mb", 1500),
            if skip.is_empty() { String::new() } else { format!(" --skip {}", skip.iter().map(|x| x.to_string()).collect::<Vec<_>>().join(",")) }
        );
        let status = std::process::Command::new("bash").arg("-c").arg(&cmd).status().expect("spawn worker");
        if status.success() {
            break;
        }
        restarts += 1;
        let buf = std::fs::read(&prog).unwrap_or_default();
        if buf.len() < 16 || restarts > 200 {
            let mut f = std::fs::OpenOptions::new().create(true).append(true).open(&part).unwrap();
            writeln!(f, "{}", json!({"ev":"tool_error","why":format!("worker failed without progress ({status}), shard {shard}, restarts {restarts}")})).unwrap();
            break;
        }
        let batch_start = u64::from_le_bytes(buf[..8].try_into().unwrap());
        let culprit = u64::from_le_bytes(buf[8..16].try_into().unwrap());
        match status.code() {
            Some(3) | Some(4) => {
                // the worker reported the event itself and flushed what preceded it
                from = culprit + 1;
                skip.clear();
            }
            _ => {
                let mut f = std::fs::OpenOptions::new().create(true).append(true).open(&part).unwrap();
                writeln!(f, "{}", json!({"ev":"crash","i":culprit,"status":format!("{status}")})).unwrap();
                from = batch_start;
                skip.push(culprit);
            }
        }
    }
    let _ = std::fs::remove_file(&prog);
    part
}

fn main() {
    let a = Args::parse();
    match a.pos.get(0).map(|s| s.as_str()).unwrap_or("") {
        "worker" => worker(&a),
        "run" => {
            let exe = std::env::current_exe().unwrap();
            let inp = a.get("in", "");
            let f = std::fs::File::open(&inp).expect("open --in");
            let mut it = std::io::BufReader::new(f).lines();
            let header = it.next().expect("header").unwrap();
            let n = it.count() as u64;
            let jobs = a.num("jobs", 4).max(1).min(n.max(1));
            let per = n.div_ceil(jobs).max(1);
            let mut handles = vec![];
            let a = Arc::new(a);
            for s in 0..jobs {
                let (lo, hi) = (1 + s * per, (1 + (s + 1) * per).min(n + 1));
                if lo > n {
                    break;
                }
                let (exe, a) = (exe.clone(), a.clone());
                handles.push(std::thread::spawn(move || supervise_shard(&exe, &a, s as usize, lo, hi)));
            }
            let mut out = std::io::BufWriter::new(std::fs::File::create(a.get("out", "")).unwrap());
            let mut h: Value = serde_json::from_str(&header).unwrap();
            h["ev"] = json!("reset");
            h["n_inputs"] = json!(n);
            writeln!(out, "{}", h).unwrap();
            for hd in handles {
                let part = hd.join().unwrap();
                if let Ok(mut f) = std::fs::File::open(&part) {
                    std::io::copy(&mut f, &mut out).unwrap();
                }
                let _ = std::fs::remove_file(&part);
            }
            out.flush().unwrap();
        }
        _ => {
            eprintln!("usage: qparse_driver run --in inputs.ndjson --out trace.ndjson [--jobs J]");
            std::process::exit(2);
        }
    }
}
