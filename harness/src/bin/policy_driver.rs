//! Log merge policy (spec/MergePolicy.tla; not anchored in one of the listed properties).
//!   policy_driver run --in cases.ndjson --out trace.ndjson
//! A case (printed by spec/Gen_MergePolicy.tla) is a policy and a list of segments (maxdoc,
//! deleted documents).  The segments are built in a real index; the real LogMergePolicy is asked
//! for its candidates on the real segment metas (`policy` event); then a real writer with that
//! policy is left alone until no merge runs any more (`settled` event: metas before and after).
//! Nothing is computed here: spec/MergePolicyTrace.tla judges the events.
use serde_json::{json, Value};
use std::io::BufRead;
use tantivy::indexer::{LogMergePolicy, MergePolicy, NoMergePolicy};
use tantivy::schema::{Schema, FAST, INDEXED};
use tantivy::{Index, IndexWriter, SegmentMeta, TantivyDocument, Term};
use vh::trace::Tracer;
use vh::Args;

fn metas_json(metas: &[SegmentMeta]) -> Vec<Value> {
    metas.iter().map(|m| json!({"maxdoc": m.max_doc(), "ndel": m.num_deleted_docs()})).collect()
}

fn policy_of(p: &Value) -> LogMergePolicy {
    let mut pol = LogMergePolicy::default();
    pol.set_min_num_segments(p["minseg"].as_u64().unwrap() as usize);
    pol.set_max_docs_before_merge(p["maxdocs"].as_u64().unwrap() as usize);
    pol.set_min_layer_size(p["minlayer"].as_u64().unwrap() as u32);
    pol.set_level_log_size(p["q"].as_u64().unwrap() as f64 / 4.0);
    pol.set_del_docs_ratio_before_merge(p["r"].as_u64().unwrap() as f32 / 8.0);
    pol
}

fn run_case(tracer: &Tracer, c: &Value) {
    let mut sb = Schema::builder();
    let id = sb.add_u64_field("id", INDEXED | FAST);
    let index = Index::create_in_ram(sb.build());
    let mut next = 0u64;
    let mut to_delete: Vec<u64> = vec![];
    {
        let mut w: IndexWriter = index.writer_with_num_threads(1, 15_000_000).expect("writer");
        w.set_merge_policy(Box::new(NoMergePolicy));
        for s in c["segs"].as_array().unwrap() {
            let (m, d) = (s["maxdoc"].as_u64().unwrap(), s["ndel"].as_u64().unwrap());
            for k in 0..m {
                let mut doc = TantivyDocument::default();
                doc.add_u64(id, next);
                w.add_document(doc).expect("add");
                if k < d {
                    to_delete.push(next);
                }
                next += 1;
            }
            w.commit().expect("commit");
        }
        if !to_delete.is_empty() {
            for x in &to_delete {
                w.delete_term(Term::from_field_u64(id, *x));
            }
            w.commit().expect("commit deletes");
        }
        w.wait_merging_threads().expect("wait");
    }
    let metas = index.searchable_segment_metas().expect("metas");
    let pol = policy_of(&c["policy"]);
    let cands = pol.compute_merge_candidates(&metas);
    let cj: Vec<Vec<usize>> = cands
        .iter()
        .map(|mc| mc.0.iter().map(|sid| 1 + metas.iter().position(|m| m.id() == *sid).expect("candidate names a segment of the input")).collect())
        .collect();
    tracer.emit(json!({"ev":"policy","p":c["policy"],"segs":metas_json(&metas),"cands":cj}));
    if c["settle"] == json!(true) {
        let mut w: IndexWriter = index.writer_with_num_threads(1, 15_000_000).expect("writer");
        w.set_merge_policy(Box::new(policy_of(&c["policy"])));
        // a commit makes the segment updater consider its merge options; every merge that ends does so again
        w.commit().expect("commit");
        w.wait_merging_threads().expect("wait");
        let after = index.searchable_segment_metas().expect("metas");
        tracer.emit(json!({"ev":"settled","p":c["policy"],"before":metas_json(&metas),"after":metas_json(&after)}));
    }
}

fn main() {
    let a = Args::parse();
    let tracer = Tracer::to_file(&a.get("out", "/dev/stdout"));
    let f = std::fs::File::open(a.get("in", "")).expect("open --in");
    tracer.emit(json!({"ev":"reset"}));
    for l in std::io::BufReader::new(f).lines() {
        let l = l.unwrap();
        if l.trim().is_empty() {
            continue;
        }
        let c: Value = serde_json::from_str(&l).expect("case json");
        run_case(&tracer, &c);
    }
    tracer.flush();
}
