//! C07 driver: the inverted index.  Builds segments from documents given as token streams
//! (pre-tokenized text, raw strings, typed values, facets, JSON paths), optionally deletes and
//! merges, and dumps the *whole* inverted index of every segment: terms in dictionary order with
//! their bytes, doc freq, postings (doc, tf, positions), field norm ids, total token counts; then
//! runs seek programs on posting lists.  Nothing is compared here; spec/InvertedIndexTrace.tla
//! recomputes the index from the documents.
//!   invidx_driver run --in cases.ndjson --out trace.ndjson
use serde_json::{json, Value};
use std::io::BufRead;
use std::net::Ipv6Addr;
use std::panic::{catch_unwind, AssertUnwindSafe};
use tantivy::indexer::NoMergePolicy;
use tantivy::postings::Postings;
use tantivy::schema::Value as _;
use tantivy::schema::*;
use tantivy::tokenizer::{PreTokenizedString, Token};
use tantivy::{DateTime, DocSet, Index, IndexWriter, TantivyDocument, Term, TERMINATED};
use vh::trace::Tracer;
use vh::Args;

const TEXT_FIELDS: &[(&str, &str)] = &[("pos", "pos"), ("frq", "freq"), ("bas", "basic"), ("nn", "pos")];

fn unhex(s: &str) -> Vec<u8> {
    (0..s.len() / 2).map(|i| u8::from_str_radix(&s[2 * i..2 * i + 2], 16).unwrap()).collect()
}
fn hex(b: &[u8]) -> String {
    b.iter().map(|x| format!("{x:02x}")).collect()
}

struct Sch {
    schema: Schema,
    id: Field,
}

fn build_schema() -> Sch {
    let mut sb = Schema::builder();
    let id = sb.add_u64_field("id", STORED | INDEXED);
    let ti = |opt: IndexRecordOption, norms: bool| TextOptions::default().set_indexing_options(TextFieldIndexing::default().set_tokenizer("raw").set_index_option(opt).set_fieldnorms(norms));
    sb.add_text_field("pos", ti(IndexRecordOption::WithFreqsAndPositions, true));
    sb.add_text_field("frq", ti(IndexRecordOption::WithFreqs, true));
    sb.add_text_field("bas", ti(IndexRecordOption::Basic, true));
    sb.add_text_field("nn", ti(IndexRecordOption::WithFreqsAndPositions, false)); // no field norms
    sb.add_text_field("raw", STRING);
    sb.add_u64_field("u", INDEXED);
    sb.add_i64_field("i", INDEXED);
    sb.add_bool_field("b", INDEXED);
    sb.add_date_field("d", INDEXED);
    sb.add_bytes_field("y", INDEXED);
    sb.add_ip_addr_field("ip", INDEXED);
    sb.add_facet_field("fa", FacetOptions::default());
    // two JSON fields indexed with positions: the same path may occur in both fields of a document
    sb.add_json_field("j2", JsonObjectOptions::default().set_indexing_options(
        TextFieldIndexing::default().set_tokenizer("whitespace").set_index_option(IndexRecordOption::WithFreqsAndPositions)));
    sb.add_json_field("j", JsonObjectOptions::default().set_indexing_options(
        TextFieldIndexing::default().set_tokenizer("whitespace").set_index_option(IndexRecordOption::WithFreqsAndPositions)));
    Sch { schema: sb.build(), id }
}

fn json_insert(obj: &mut Vec<(String, OwnedValue)>, path: &[String], v: OwnedValue) {
    if path.len() == 1 {
        // several values under one path become an array
        if let Some((_, existing)) = obj.iter_mut().find(|(k, _)| k == &path[0]) {
            match existing {
                OwnedValue::Array(a) => a.push(v),
                other => {
                    let old = std::mem::replace(other, OwnedValue::Null);
                    *other = OwnedValue::Array(vec![old, v]);
                }
            }
        } else {
            obj.push((path[0].clone(), v));
        }
        return;
    }
    if let Some((_, OwnedValue::Object(inner))) = obj.iter_mut().find(|(k, _)| k == &path[0]) {
        json_insert(inner, &path[1..], v);
        return;
    }
    let mut inner = vec![];
    json_insert(&mut inner, &path[1..], v);
    obj.push((path[0].clone(), OwnedValue::Object(inner)));
}

fn build_doc(s: &Sch, id: u64, d: &Value) -> TantivyDocument {
    let mut doc = TantivyDocument::default();
    doc.add_u64(s.id, id);
    let f = |n: &str| s.schema.get_field(n).unwrap();
    // the (field, value) pairs of the text fields are added field by field, or - when the document gives an
    // "order": [[field, index of the value], ...] - interleaved in that order
    let mut add_text_value = |doc: &mut TantivyDocument, name: &str, val: &Value| {
        // a value = list of [key, relative position, position length]
        let toks = val.as_array().unwrap();
        let mut text = String::new();
        let tokens: Vec<Token> = toks
            .iter()
            .map(|t| {
                // "long:<c>:<n>" stands for the character c repeated n times (tokens around MAX_TOKEN_LEN)
                let w0 = t[0].as_str().unwrap();
                let wl: String;
                let w: &str = if let Some(rest) = w0.strip_prefix("long:") {
                    let (c, n) = rest.split_once(':').unwrap();
                    wl = c.repeat(n.parse().unwrap());
                    &wl
                } else {
                    w0
                };
                let from = text.len();
                text.push_str(w);
                text.push(' ');
                Token { offset_from: from, offset_to: from + w.len(), position: t[1].as_u64().unwrap() as usize, text: w.to_string(), position_length: t[2].as_u64().unwrap() as usize }
            })
            .collect();
        doc.add_pre_tokenized_text(f(name), PreTokenizedString { text, tokens });
    };
    if let Some(order) = d.get("order").and_then(|x| x.as_array()) {
        for o in order {
            let name = o[0].as_str().unwrap();
            add_text_value(&mut doc, name, &d[name][o[1].as_u64().unwrap() as usize]);
        }
    } else {
        for (name, _) in TEXT_FIELDS {
            for val in d.get(*name).and_then(|x| x.as_array()).unwrap_or(&vec![]) {
                add_text_value(&mut doc, name, val);
            }
        }
    }
    let strs = |n: &str| -> Vec<String> { d.get(n).and_then(|x| x.as_array()).map(|a| a.iter().map(|x| x.as_str().unwrap().to_string()).collect()).unwrap_or_default() };
    for v in strs("raw") {
        doc.add_text(f("raw"), &v);
    }
    for v in strs("u") {
        doc.add_u64(f("u"), v[2..].parse().unwrap());
    }
    for v in strs("i") {
        doc.add_i64(f("i"), v[2..].parse().unwrap());
    }
    for v in strs("b") {
        doc.add_bool(f("b"), &v[2..] == "true");
    }
    for v in strs("d") {
        // seconds + (for dates from 1970 on) a sub-second part that indexing truncates
        let secs = v[2..].parse::<i64>().unwrap();
        let sub = if secs >= 0 { 123_456_789 * ((id % 2) as i64) } else { 0 };
        doc.add_date(f("d"), DateTime::from_timestamp_nanos(secs * 1_000_000_000 + sub));
    }
    for v in strs("y") {
        doc.add_bytes(f("y"), &unhex(&v[2..]));
    }
    for v in strs("ip") {
        doc.add_ip_addr(f("ip"), Ipv6Addr::from(u128::from_str_radix(&v[3..], 16).unwrap()));
    }
    for v in d.get("fa").and_then(|x| x.as_array()).unwrap_or(&vec![]) {
        let segs: Vec<&str> = v.as_array().unwrap().iter().map(|x| x.as_str().unwrap()).collect();
        doc.add_facet(f("fa"), Facet::from_path(segs));
    }
    for jf in ["j", "j2"] {
      if let Some(streams) = d.get(jf).and_then(|x| x.as_array()) {
        // a leaf may name the JSON value ("obj": 0, 1, 2 ...) of the document it belongs to: the document
        // then holds several values for the JSON field, which share paths
        let mut objs: Vec<Vec<(String, OwnedValue)>> = vec![];
        for st in streams {
            let path: Vec<String> = st["path"].as_array().unwrap().iter().map(|x| x.as_str().unwrap().to_string()).collect();
            for v in st["vals"].as_array().unwrap() {
                let ov = if let Some(w) = v.get("s") {
                    OwnedValue::Str(w.as_array().unwrap().iter().map(|x| x.as_str().unwrap()).collect::<Vec<_>>().join(" "))
                } else if let Some(i) = v.get("i") {
                    OwnedValue::I64(i.as_str().unwrap().parse().unwrap())
                } else {
                    OwnedValue::Bool(v["o"].as_bool().unwrap())
                };
                let k = v.get("obj").and_then(|x| x.as_u64()).unwrap_or(0) as usize;
                while objs.len() <= k {
                    objs.push(vec![]);
                }
                json_insert(&mut objs[k], &path, ov);
            }
        }
        for obj in objs {
            if !obj.is_empty() {
                doc.add_field_value(f(jf), &OwnedValue::Object(obj));
            }
        }
      }
    }
    doc
}

/// the key of a term of the dictionary, from its bytes (documented term encodings)
fn key_of(field: &str, b: &[u8]) -> String {
    let be8 = |b: &[u8]| -> Option<u64> { <[u8; 8]>::try_from(b).ok().map(u64::from_be_bytes) };
    let bad = || format!("?{}", hex(b));
    match field {
        "pos" | "frq" | "bas" | "nn" | "raw" => {
            if b.len() > 4096 && b.iter().all(|x| *x == b[0]) && b[0].is_ascii_alphanumeric() {
                format!("long:{}:{}", b[0] as char, b.len())       // (the key a long run is given as)
            } else {
                String::from_utf8(b.to_vec()).unwrap_or_else(|_| bad())
            }
        }
        "u" | "id" => be8(b).map(|x| format!("u:{x}")).unwrap_or_else(bad),
        "i" => be8(b).map(|x| format!("i:{}", (x ^ (1 << 63)) as i64)).unwrap_or_else(bad),
        "b" => be8(b).map(|x| format!("b:{}", x != 0)).unwrap_or_else(bad),
        "d" => be8(b).map(|x| {
            let nanos = (x ^ (1 << 63)) as i64;
            if nanos % 1_000_000_000 == 0 { format!("d:{}", nanos / 1_000_000_000) } else { format!("d:nanos{nanos}") }
        }).unwrap_or_else(bad),
        "y" => format!("y:{}", hex(b)),
        "ip" => <[u8; 16]>::try_from(b).ok().map(|x| format!("ip:{:032x}", u128::from_be_bytes(x))).unwrap_or_else(bad),
        "fa" => {
            if b.is_empty() { "/".to_string() } else { String::from_utf8(b.to_vec()).map(|s| s.split('\u{0}').map(|p| format!("/{p}")).collect::<String>()).unwrap_or_else(|_| bad()) }
        }
        "j" | "j2" => {
            let Some(z) = b.iter().position(|x| *x == 0) else { return bad() };
            let path = String::from_utf8_lossy(&b[..z]).replace('\u{1}', ".");
            if z + 1 >= b.len() {
                return bad();
            }
            let (code, val) = (b[z + 1], &b[z + 2..]);
            match code {
                b's' => format!("{path}|s:{}", String::from_utf8_lossy(val)),
                b'i' => be8(val).map(|x| format!("{path}|i:{}", (x ^ (1 << 63)) as i64)).unwrap_or_else(bad),
                b'o' => be8(val).map(|x| format!("{path}|o:{}", x != 0)).unwrap_or_else(bad),
                c => format!("{path}|{}:{}", c as char, hex(val)),
            }
        }
        _ => bad(),
    }
}

fn option_of(field: &str) -> (&'static str, IndexRecordOption) {
    match field {
        "pos" | "nn" | "j" | "j2" => ("pos", IndexRecordOption::WithFreqsAndPositions),
        "frq" => ("freq", IndexRecordOption::WithFreqs),
        _ => ("basic", IndexRecordOption::Basic),
    }
}

const DUMP_FIELDS: &[&str] = &["pos", "frq", "bas", "nn", "raw", "u", "i", "b", "d", "y", "ip", "fa", "j", "j2"];

fn dump(tracer: &Tracer, s: &Sch, index: &Index, phase: &str, seeks: &[Value]) {
    let reader: tantivy::IndexReader = index.reader_builder().reload_policy(tantivy::ReloadPolicy::Manual).try_into().expect("reader");
    let searcher = reader.searcher();
    for (ord, sr) in searcher.segment_readers().iter().enumerate() {
        let store = sr.get_store_reader(10).unwrap();
        let ids: Vec<u64> = (0..sr.max_doc()).map(|d| store.get::<TantivyDocument>(d).unwrap().get_first(s.id).and_then(|v| v.as_u64()).unwrap()).collect();
        let deleted: Vec<u32> = (0..sr.max_doc()).filter(|d| sr.is_deleted(*d)).collect();
        tracer.emit(json!({"ev":"seg","phase":phase,"seg":ord,"max_doc":sr.max_doc(),"ids":ids,"deleted":deleted}));
        for fname in DUMP_FIELDS {
            let field = s.schema.get_field(fname).unwrap();
            let (oname, opt) = option_of(fname);
            let r = catch_unwind(AssertUnwindSafe(|| -> tantivy::Result<Value> {
                let inv = sr.inverted_index(field)?;
                let mut terms = vec![];
                let mut stream = inv.terms().stream()?;
                while stream.advance() {
                    let b = stream.key().to_vec();
                    let ti = stream.value().clone();
                    let key = key_of(fname, &b);
                    // non-text terms of a JSON field carry neither positions nor frequencies (DocIdRecorder): doc ids only
                    let (oname, opt) = if matches!(*fname, "j" | "j2") && !key.contains("|s:") { ("basic", IndexRecordOption::Basic) } else { (oname, opt) };
                    let mut p = inv.read_postings_from_terminfo(&ti, opt)?;
                    let (mut docs, mut tfs, mut poss) = (vec![], vec![], vec![]);
                    let mut d = p.doc();
                    while d != TERMINATED {
                        docs.push(d);
                        if oname != "basic" {
                            tfs.push(p.term_freq());
                        }
                        if oname == "pos" {
                            let mut v = vec![];
                            p.positions(&mut v);
                            poss.push(v);
                        }
                        d = p.advance();
                    }
                    // the same term through the lookup API
                    let lookup = if matches!(*fname, "pos" | "frq" | "bas" | "nn" | "raw") && !key.starts_with('?') {
                        Some(inv.doc_freq(&Term::from_field_text(field, &String::from_utf8_lossy(&b)))?)
                    } else {
                        None
                    };
                    terms.push(json!({"b":b.iter().map(|x| *x as u32).collect::<Vec<u32>>(),"k":key,"o":oname,"df":ti.doc_freq,"docs":docs,"tf":tfs,"pos":poss,"df_lookup":lookup}));
                }
                let norms: Option<Vec<u8>> = if matches!(*fname, "pos" | "frq" | "bas" | "raw") {
                    let fr = sr.get_fieldnorms_reader(field)?;
                    Some((0..sr.max_doc()).map(|d| fr.fieldnorm_id(d)).collect())
                } else {
                    None
                };
                Ok(json!({"ev":"field","field":fname,"opt":oname,"terms":terms,"norms":norms,"total":inv.total_num_tokens()}))
            }));
            match r {
                Ok(Ok(v)) => {
                    tracer.emit(v);
                }
                Ok(Err(e)) => {
                    tracer.emit(json!({"ev":"field_error","field":fname,"msg":e.to_string()}));
                }
                Err(_) => {
                    tracer.emit(json!({"ev":"panic","in":"dump","field":fname,"phase":phase}));
                }
            }
        }
        // seek programs (on the first segment of the phase that has the term)
        for sk in seeks {
            let fname = sk["field"].as_str().unwrap();
            let field = s.schema.get_field(fname).unwrap();
            let key = sk["term"].as_str().unwrap();
            let (oname, opt) = option_of(fname);
            let r = catch_unwind(AssertUnwindSafe(|| -> tantivy::Result<Option<Value>> {
                let inv = sr.inverted_index(field)?;
                let term = Term::from_field_text(field, key);
                let Some(mut p) = inv.read_postings(&term, opt)? else { return Ok(None) };
                // the docs of the list (to place the targets; the judge recomputes them itself)
                let mut all = vec![];
                {
                    let mut q = inv.read_postings(&term, IndexRecordOption::Basic)?.unwrap();
                    let mut d = q.doc();
                    while d != TERMINATED {
                        all.push(d);
                        d = q.advance();
                    }
                }
                let mut steps = vec![];
                let obs = |p: &mut tantivy::postings::SegmentPostings| -> Value {
                    let d = p.doc();
                    if d == TERMINATED {
                        return json!([d, 0, []]);
                    }
                    let mut v = vec![];
                    if oname == "pos" {
                        p.positions(&mut v);
                    }
                    json!([d, if oname == "basic" { 0 } else { p.term_freq() }, v])
                };
                steps.push(json!({"op":"start","res":obs(&mut p)}));
                for op in sk["prog"].as_array().unwrap() {
                    let cur = p.doc();
                    if cur == TERMINATED {
                        break;
                    }
                    let idx = all.binary_search(&cur).unwrap_or(0);
                    let kind = op[0].as_str().unwrap();
                    let target: Option<u32> = match kind {
                        "adv" => None,
                        "same" => Some(cur),
                        "skip" => Some(all[(idx + op[1].as_u64().unwrap() as usize).min(all.len() - 1)]),
                        "between" => {
                            let j = (idx + op[1].as_u64().unwrap() as usize).min(all.len() - 1);
                            Some((all[j] + 1).max(cur))
                        }
                        "plus" => Some(cur.saturating_add(op[1].as_u64().unwrap() as u32).min(TERMINATED - 1)),
                        _ => Some(all[all.len() - 1] + 1),
                    };
                    match target {
                        None => {
                            p.advance();
                            steps.push(json!({"op":"adv","res":obs(&mut p)}));
                        }
                        Some(t) => {
                            let r = p.seek(t);
                            steps.push(json!({"op":"seek","t":t,"ret":r,"res":obs(&mut p)}));
                        }
                    }
                }
                Ok(Some(json!({"ev":"seek","field":fname,"k":key,"opt":oname,"steps":steps})))
            }));
            match r {
                Ok(Ok(Some(v))) => {
                    tracer.emit(v);
                }
                Ok(Ok(None)) => {}
                Ok(Err(e)) => {
                    tracer.emit(json!({"ev":"field_error","field":fname,"msg":e.to_string()}));
                }
                Err(_) => {
                    tracer.emit(json!({"ev":"panic","in":"seek","field":fname,"k":key,"prog":sk["prog"]}));
                }
            }
        }
    }
    tracer.emit(json!({"ev":"phase_end","phase":phase}));
}

fn run_case(tracer: &Tracer, s: &Sch, case: &Value) {
    let index = Index::create_in_ram(s.schema.clone());
    let mut w: IndexWriter = index.writer_with_num_threads(1, 50_000_000).expect("writer");
    w.set_merge_policy(Box::new(NoMergePolicy));
    let mut id = 0u64;
    let mut docs = vec![];
    for seg in case["segs"].as_array().unwrap() {
        for d in seg.as_array().unwrap() {
            id += 1;
            docs.push(d.clone());
            w.add_document(build_doc(s, id, d)).expect("add");
        }
        w.commit().expect("commit");
    }
    tracer.emit(json!({"ev":"docs","case":case["id"],"docs":docs}));
    let seeks: Vec<Value> = case["seeks"].as_array().cloned().unwrap_or_default();
    dump(tracer, s, &index, "commit", &seeks);
    let dels: Vec<u64> = case["deletes"].as_array().map(|a| a.iter().filter_map(|x| x.as_u64()).collect()).unwrap_or_default();
    if !dels.is_empty() {
        for d in &dels {
            w.delete_term(Term::from_field_u64(s.id, *d));
        }
        w.commit().expect("commit");
        tracer.emit(json!({"ev":"deleted","ids":dels}));
    }
    if case["merge"].as_bool().unwrap_or(false) {
        let ids = index.searchable_segment_ids().unwrap();
        if !ids.is_empty() {
            match catch_unwind(AssertUnwindSafe(|| w.merge(&ids).wait())) {
                Ok(Ok(_)) => dump(tracer, s, &index, "merge", &seeks),
                Ok(Err(e)) => {
                    tracer.emit(json!({"ev":"merge_error","msg":e.to_string()}));
                }
                Err(_) => {
                    tracer.emit(json!({"ev":"panic","in":"merge"}));
                }
            }
        }
    }
    let _ = w.wait_merging_threads();
    tracer.emit(json!({"ev":"end"}));
}

fn main() {
    let a = Args::parse();
    std::panic::set_hook(Box::new(|info| {
        let s = info.to_string();
        if s.contains("invidx_driver.rs") || std::env::var("VH_PANICS").is_ok() {
            eprintln!("{s}");
        }
    }));
    let tracer = Tracer::to_file(&a.get("out", "/dev/stdout"));
    let s = build_schema();
    let file = std::fs::File::open(a.get("in", "")).expect("open --in");
    for line in std::io::BufReader::new(file).lines() {
        let line = line.unwrap();
        if line.trim().is_empty() {
            continue;
        }
        let case: Value = serde_json::from_str(&line).expect("case json");
        run_case(&tracer, &s, &case);
    }
    tracer.flush();
}
