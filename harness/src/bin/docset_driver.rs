//! C13: drives real scorers (`Weight::scorer(segment_reader, boost)`) with call programs and
//! records every returned value.  The harness never decides whether a value is right: the
//! sequence `S` it logs is what a *fresh* scorer yields by plain `advance()` (the property's own
//! oracle) and spec/DocSetTrace.tla judges every call against it.
//!   docset_driver stripes --in cases.ndjson --out trace.ndjson
//!       case line: {"r":129,"q":<query json>,"scoring":true,"abs":{"s":[0,2],"r":129},"progs":[[{"op":"seek","t":130},..],..]}
//!       (R direction: programs enumerated by TLC, concretised by lib/props/c13.py on the stripe index)
//!   docset_driver random --seed S --docs N --queries Q --progs P --maxlen L --out trace.ndjson
//!       (T direction: random long programs on scorers of random query trees, multi-segment index)
#[path = "qlib/mod.rs"]
mod qlib;

use rand::prelude::*;
use serde_json::{json, Value};
use std::collections::HashMap;
use std::io::BufRead;
use std::panic::{catch_unwind, AssertUnwindSafe};
use tantivy::query::{EnableScoring, Scorer, Weight};
use tantivy::schema::*;
use tantivy::{DocSet, Index, IndexWriter, SeekDangerResult, TantivyDocument, TERMINATED};
use tantivy_common::TinySet;
use vh::trace::Tracer;
use vh::Args;


fn bits(s: f32) -> i64 {
    s.to_bits() as i32 as i64
}

fn panic_msg(e: Box<dyn std::any::Any + Send>) -> String {
    if let Some(s) = e.downcast_ref::<String>() {
        s.clone()
    } else if let Some(s) = e.downcast_ref::<&str>() {
        s.to_string()
    } else {
        "panic".to_string()
    }
}

/// Index in which abstract document i (0..U) is the stripe of real documents [i*r, (i+1)*r) and
/// every non-empty subset `mask` of the abstract documents is the answer of several queries.
fn stripe_index(r: u32, nabs: u32) -> tantivy::Result<(Index, Schema)> {
    #[allow(non_snake_case)]
    let U = nabs;
    let mut sb = Schema::builder();
    let m = sb.add_text_field("m", TEXT);
    let ph = sb.add_text_field("ph", TEXT);
    let n = sb.add_i64_field("n", INDEXED);
    let f = sb.add_u64_field("f", FAST);
    let g = sb.add_u64_field("g", FAST | INDEXED);
    let schema = sb.build();
    let index = Index::create_in_ram(schema.clone());
    let mut w: IndexWriter = index.writer_with_num_threads(1, 400_000_000)?;
    w.set_merge_policy(Box::new(tantivy::indexer::NoMergePolicy));
    for i in 0..U {
        for j in 0..r {
            let doc_id = i * r + j;
            let mut d = TantivyDocument::default();
            let mut mt = String::new();
            let mut pt = String::new();
            for mask in 1u32..(1 << U) {
                let suffix = if doc_id % 2 == 0 { "x" } else { "y" };
                if mask & (1 << i) != 0 {
                    for _ in 0..(1 + (doc_id + mask) % 3) {
                        mt.push_str(&format!("s{mask:02} "));
                    }
                    pt.push_str(&format!("a{mask:02} b{mask:02} p{mask:02}{suffix} "));
                    d.add_i64(n, (mask * 4 + doc_id % 4) as i64);
                    d.add_u64(f, (mask * 4 + doc_id % 4) as u64);
                } else {
                    pt.push_str(&format!("b{mask:02} a{mask:02} p{mask:02}{suffix} "));
                }
            }
            d.add_text(m, mt);
            d.add_text(ph, pt);
            d.add_u64(g, i as u64);
            w.add_document(d)?;
        }
    }
    w.commit()?;
    w.wait_merging_threads()?;
    Ok((index, schema))
}

struct Cursor {
    valid: bool,
    chain: bool,
    last_danger: u32,
}

/// Executes one program; `prog` gives the operations and their (clamped) targets.
/// Executes one program; `prog` gives the operations and their (clamped) targets.
fn run_prog(sc: &mut Box<dyn Scorer>, prog: &[Value], scoring: bool) -> Vec<Value> {
    let mut out = vec![];
    let mut cur = Cursor { valid: true, chain: false, last_danger: 0 };
    for c in prog {
        let op = c["op"].as_str().unwrap().to_string();
        let arg = c.get("t").or_else(|| c.get("min")).and_then(|x| x.as_u64()).unwrap_or(0) as u32;
        let res = catch_unwind(AssertUnwindSafe(|| -> Option<Value> {
            let mut rec = match op.as_str() {
                "advance" => {
                    if !cur.valid {
                        return None;
                    }
                    let r = sc.advance();
                    cur.chain = false;
                    json!({"op":"advance","ret":r})
                }
                "seek" => {
                    if !cur.valid {
                        return None;
                    }
                    let t = arg.max(sc.doc()).min(TERMINATED);
                    let r = sc.seek(t);
                    cur.chain = false;
                    json!({"op":"seek","t":t,"ret":r})
                }
                "seek_danger" => {
                    let mut t = arg.min(TERMINATED);
                    if cur.valid {
                        t = t.max(sc.doc());
                    }
                    if cur.chain && t <= cur.last_danger {
                        if cur.last_danger >= TERMINATED {
                            return None;
                        }
                        t = cur.last_danger + 1;
                    }
                    let r = sc.seek_danger(t);
                    cur.chain = true;
                    cur.last_danger = t;
                    match r {
                        SeekDangerResult::Found => {
                            cur.valid = true;
                            json!({"op":"seek_danger","t":t,"found":true})
                        }
                        SeekDangerResult::SeekLowerBound(lb) => {
                            cur.valid = false;
                            json!({"op":"seek_danger","t":t,"found":false,"lb":lb.min(TERMINATED)})
                        }
                    }
                }
                "fill_buffer" => {
                    if !cur.valid {
                        return None;
                    }
                    let mut buf = [0u32; 64];
                    let n = sc.fill_buffer(&mut buf);
                    cur.chain = false;
                    json!({"op":"fill_buffer","ret":buf[..n].to_vec()})
                }
                "fill_bitset_block" => {
                    if !cur.valid || sc.doc() == TERMINATED {
                        return None;
                    }
                    let m = arg.max(sc.doc());
                    if m >= TERMINATED - 4096 {
                        return None;
                    }
                    let mut mask = [TinySet::empty(); tantivy::BLOCK_NUM_TINYBITSETS];
                    let r = sc.fill_bitset_block(m, &mut mask);
                    let mut docs = vec![];
                    for (i, ts) in mask.iter().enumerate() {
                        for b in ts.into_iter() {
                            docs.push(m + i as u32 * 64 + b);
                        }
                    }
                    cur.chain = false;
                    json!({"op":"fill_bitset_block","min":m,"mask":docs,"ret":r})
                }
                "count" => {
                    if !cur.valid {
                        return None;
                    }
                    let n = sc.count_including_deleted();
                    cur.chain = false;
                    json!({"op":"count","ret":n})
                }
                x => panic!("harness: unknown op {x}"),
            };
            if cur.valid {
                let d = sc.doc();
                rec["doc_after"] = json!(d);
                if scoring && d != TERMINATED {
                    // doc() names a document: reading its score is legal
                    match catch_unwind(AssertUnwindSafe(|| sc.score())) {
                        Ok(x) => rec["score"] = json!(bits(x)),
                        Err(e) => rec["score_panic"] = json!(panic_msg(e)),
                    }
                }
            }
            Some(rec)
        }));
        match res {
            Ok(Some(rec)) => out.push(rec),
            Ok(None) => {}
            Err(e) => {
                out.push(json!({"op":"panic","in":op,"arg":arg,"msg":panic_msg(e)}));
                break;
            }
        }
    }
    out
}

/// the sequence of a fresh scorer by plain advance, with the score at each document
fn enumerate(w: &dyn Weight, sr: &tantivy::SegmentReader, scoring: bool) -> Result<(Vec<u32>, Vec<i64>), String> {
    catch_unwind(AssertUnwindSafe(|| {
        let mut sc = w.scorer(sr, 1.0).map_err(|e| e.to_string())?;
        let mut seq = vec![];
        let mut scores = vec![];
        let mut d = sc.doc();
        while d != TERMINATED {
            seq.push(d);
            if scoring {
                scores.push(bits(sc.score()));
            }
            d = sc.advance();
            if seq.len() > 50_000_000 {
                return Err("enumeration does not end".to_string());
            }
        }
        Ok((seq, scores))
    }))
    .unwrap_or_else(|e| Err(format!("panic: {}", panic_msg(e))))
}

fn run_scorer_case(tracer: &Tracer, w: &dyn Weight, sr: &tantivy::SegmentReader, seg: usize, q: &Value, scoring: bool,
                   progs: &[Vec<Value>], extra: &Value) {
    let n = qlib::leaves(q);
    match enumerate(w, sr, scoring) {
        Err(msg) => {
            tracer.emit(json!({"ev":"scorer","q":q,"seg":seg,"n":n,"scoring":scoring,"S":[],"sc":[],
                               "progs":[[{"op":"panic","in":"enumerate","msg":msg}]]}));
        }
        Ok((seq, scores)) => {
            let mut outs = vec![];
            for p in progs {
                let rec = match catch_unwind(AssertUnwindSafe(|| w.scorer(sr, 1.0))) {
                    Ok(Ok(mut sc)) => {
                        let mut rec = vec![json!({"op":"init","ret":sc.doc()})];
                        rec.extend(run_prog(&mut sc, p, scoring));
                        rec
                    }
                    Ok(Err(e)) => vec![json!({"op":"panic","in":"scorer","msg":e.to_string()})],
                    Err(e) => vec![json!({"op":"panic","in":"scorer","msg":panic_msg(e)})],
                };
                outs.push(Value::Array(rec));
            }
            let mut ev = json!({"ev":"scorer","q":q,"seg":seg,"n":n,"scoring":scoring,"S":seq,"sc":scores,"progs":outs});
            if let Some(m) = extra.as_object() {
                for (k, v) in m {
                    ev[k] = v.clone();
                }
            }
            tracer.emit(ev);
        }
    }
}

fn weight_of(index: &Index, schema: &Schema, q: &Value, scoring: bool) -> Result<(Box<dyn Weight>, tantivy::Searcher), String> {
    let query = qlib::build_query(schema, q)?;
    let searcher = index.reader().map_err(|e| e.to_string())?.searcher();
    let w = if scoring {
        query.weight(EnableScoring::enabled_from_searcher(&searcher))
    } else {
        query.weight(EnableScoring::disabled_from_searcher(&searcher))
    }
    .map_err(|e| e.to_string())?;
    Ok((w, searcher))
}

/// the multi-segment index of the T direction: deterministic in (seed, ndocs)
fn rich_index(seed: u64, ndocs: usize, bigseg: bool) -> (Index, Schema, Value, StdRng) {
    let mut rng = StdRng::seed_from_u64(seed);
    let schema = qlib::rich_schema();
    let docs = qlib::gen_corpus(&mut rng, ndocs, false);
    let nseg = rng.random_range(1..=5usize);
    let mut cuts: Vec<usize> = (0..nseg - 1).map(|_| rng.random_range(1..ndocs)).collect();
    cuts.sort();
    if bigseg {
        cuts = vec![ndocs.saturating_sub(40)];
    }
    let deleted: Vec<u64> = (0..ndocs / 25).map(|_| rng.random_range(0..ndocs as u64)).collect();
    let index = qlib::build_index(&schema, &docs, &cuts, &deleted, false).expect("index");
    let info = json!({"seed":seed,"docs":ndocs,"cuts":cuts,"deleted":deleted.len()});
    (index, schema, info, rng)
}

fn stripes(a: &Args, tracer: &Tracer) {
    let f = std::fs::File::open(a.get("in", "")).expect("open --in");
    let mut idx: HashMap<(u32, u32), (Index, Schema)> = HashMap::new();
    let mut rich: HashMap<String, (Index, Schema)> = HashMap::new();
    tracer.emit(json!({"ev":"reset","mode":"cases"}));
    for line in std::io::BufReader::new(f).lines() {
        let line = line.unwrap();
        if line.trim().is_empty() {
            continue;
        }
        let c: Value = serde_json::from_str(&line).expect("case json");
        let (index, schema) = if let Some(rc) = c.get("rich") {
            let key = rc.to_string();
            if !rich.contains_key(&key) {
                let (i, s, _, _) = rich_index(rc["seed"].as_u64().unwrap(), rc["docs"].as_u64().unwrap() as usize, rc["bigseg"].as_bool().unwrap_or(false));
                rich.insert(key.clone(), (i, s));
            }
            rich.get(&key).unwrap()
        } else {
            let r = c["r"].as_u64().unwrap() as u32;
            let u = c.get("u").and_then(|x| x.as_u64()).unwrap_or(5) as u32;
            if !idx.contains_key(&(r, u)) {
                idx.insert((r, u), stripe_index(r, u).expect("stripe index"));
            }
            idx.get(&(r, u)).unwrap()
        };
        let scoring = c["scoring"].as_bool().unwrap_or(true);
        let progs: Vec<Vec<Value>> = c["progs"].as_array().unwrap().iter().map(|p| p.as_array().unwrap().clone()).collect();
        let mut extra = json!({"abs": c["abs"], "recipe": c["recipe"]});
        if c.get("abs").is_none() {
            extra.as_object_mut().unwrap().remove("abs");
        }
        match weight_of(index, schema, &c["q"], scoring) {
            Ok((w, searcher)) => {
                for (ord, sr) in searcher.segment_readers().iter().enumerate() {
                    run_scorer_case(tracer, w.as_ref(), sr, ord, &c["q"], scoring, &progs, &extra);
                }
            }
            Err(e) => {
                eprintln!("docset_driver: cannot build {}: {e}", c["q"]);
                std::process::exit(3);
            }
        }
    }
}

/// A walk over two consecutive 4096-document windows of a buffered union (inputs only; `seq` is used to place the targets):
/// leave the first bucket of the window (advance / fill_buffer / short seek), seek inside the window over at least one
/// bucket, go to the end of the window and cross it by advance, then visit the next window at the offsets of the documents
/// that were skipped - the score read there must be the one of the plain-advance pass.
fn window_walk(rng: &mut StdRng, seq: &[u32]) -> Vec<Value> {
    let w0 = seq[0];
    let mut prog = vec![];
    match rng.random_range(0..3) {
        0 => { for _ in 0..rng.random_range(1..4) { prog.push(json!({"op":"fill_buffer"})); } }
        1 => { for _ in 0..rng.random_range(3..40) { prog.push(json!({"op":"advance"})); } }
        _ => {}
    }
    let a = w0 + rng.random_range(64..1200);
    prog.push(json!({"op":"seek","t":a}));
    let b = a + rng.random_range(64..1800);
    prog.push(json!({"op":"seek","t":b.min(w0 + 4000)}));
    if rng.random_bool(0.5) {
        prog.push(json!({"op":"advance"}));
        prog.push(json!({"op":"seek","t":(b + rng.random_range(64..600)).min(w0 + 4050)}));
    }
    // to the end of the window, then across by advance
    prog.push(json!({"op":"seek","t":w0 + 4096 - rng.random_range(1..40)}));
    for _ in 0..rng.random_range(2..45) {
        prog.push(json!({"op":"advance"}));
    }
    // the next window starts at the first document at or after w0 + 4096 (only in-window moves were made)
    let i1 = seq.partition_point(|d| *d < w0 + 4096);
    if i1 < seq.len() {
        let w1 = seq[i1];
        let mut t = w1 + (a - w0);
        for _ in 0..rng.random_range(4..14) {
            prog.push(json!({"op":"seek","t":t.min(w1 + 4090)}));
            if rng.random_bool(0.5) {
                prog.push(json!({"op":"advance"}));
            }
            t += rng.random_range(1..((b - a) / 3).max(2));
        }
    }
    prog
}

fn gen_prog(rng: &mut StdRng, seq: &[u32], max_doc: u32, maxlen: usize, allow_after_count: bool) -> Vec<Value> {
    // targets are drawn relative to a *predicted* position only to make them interesting; the
    // driver clamps them to the real cursor, and the judge sees what was really called
    if seq.len() > 200 && seq[seq.len() - 1] - seq[0] > 4600 && rng.random_bool(0.3) {
        return window_walk(rng, seq);
    }
    let n = rng.random_range(1..=maxlen);
    let mut prog = vec![];
    let mut pos = 0usize; // rough position in seq
    let at = |p: usize| -> u32 { if p < seq.len() { seq[p] } else { TERMINATED } };
    let mut i = 0;
    while i < n {
        i += 1;
        let cur = at(pos);
        match rng.random_range(0..20) {
            0..=4 => {
                prog.push(json!({"op":"advance"}));
                pos += 1;
            }
            5..=10 => {
                let t = if cur == TERMINATED {
                    TERMINATED
                } else {
                    match rng.random_range(0..9) {
                        0 => cur,
                        1 => cur + 1,
                        2 => if rng.random_bool(0.3) { TERMINATED } else { max_doc + rng.random_range(0..3) },
                        3 => cur + rng.random_range(0..200),
                        4 => cur + rng.random_range(0..5000),
                        5 => cur + 4095 + rng.random_range(0..3),
                        6 => at(pos + rng.random_range(0..40)),
                        7 => at(pos + rng.random_range(0..400)).saturating_add(1).min(TERMINATED),
                        _ => rng.random_range(cur..=max_doc + 3),
                    }
                };
                prog.push(json!({"op":"seek","t":t}));
                pos = seq.partition_point(|d| *d < t).max(pos);
            }
            11..=13 => {
                // a chain of seek_danger calls that ends on a document of the set (if any is left)
                let k = rng.random_range(1..5);
                let mut t = cur;
                for _ in 0..k {
                    t = match rng.random_range(0..5) {
                        0 => t.saturating_add(1),
                        1 => t.saturating_add(rng.random_range(1..300)),
                        2 => t.saturating_add(rng.random_range(1..6000)),
                        3 => at(seq.partition_point(|d| *d < t) + rng.random_range(0..5)).saturating_sub(rng.random_range(0..2)).max(t),
                        _ => at(seq.partition_point(|d| *d < t) + rng.random_range(0..50)),
                    }
                    .min(TERMINATED);
                    prog.push(json!({"op":"seek_danger","t":t}));
                    t = t.saturating_add(1).min(TERMINATED);
                }
                // finish the chain on a real document so that the scorer is valid again
                let p = seq.partition_point(|d| *d < t) + rng.random_range(0..3);
                if p < seq.len() {
                    prog.push(json!({"op":"seek_danger","t":seq[p]}));
                    pos = p;
                } else {
                    // nothing left: the scorer stays in the danger zone until the program ends
                    break;
                }
            }
            14..=15 => {
                prog.push(json!({"op":"fill_buffer"}));
                pos += 64;
            }
            16..=18 => {
                if cur != TERMINATED {
                    let m = cur + rng.random_range(0..3) * rng.random_range(0..1500);
                    prog.push(json!({"op":"fill_bitset_block","min":m}));
                    pos = seq.partition_point(|d| *d < m + 1024).max(pos);
                }
            }
            _ => {
                prog.push(json!({"op":"count"}));
                pos = seq.len();
                if !allow_after_count {
                    break;
                }
            }
        }
    }
    prog
}

fn random(a: &Args, tracer: &Tracer) {
    let seed = a.num("seed", 1);
    let ndocs = a.num("docs", 3000) as usize;
    let nq = a.num("queries", 100) as usize;
    let nprogs = a.num("progs", 6) as usize;
    let maxlen = a.num("maxlen", 25) as usize;
    let depth = a.num("depth", 2) as u32;
    let (index, schema, info, mut rng) = rich_index(seed, ndocs, a.flag("bigseg"));
    tracer.emit(json!({"ev":"reset","mode":"random","index":info}));
    let opts = qlib::GenOpts::all(depth);
    let mut qi = 0;
    let mut tries = 0;
    while qi < nq && tries < nq * 20 {
        tries += 1;
        let q = qlib::gen_query(&mut rng, depth, &opts);
        qi += 1;
        let scoring = rng.random_bool(0.6);
        let (w, searcher) = match weight_of(&index, &schema, &q, scoring) {
            Ok(x) => x,
            Err(e) => {
                tracer.emit(json!({"ev":"info","skipped":q,"why":e}));
                continue;
            }
        };
        for (ord, sr) in searcher.segment_readers().iter().enumerate() {
            let (seq, _) = match enumerate(w.as_ref(), sr, false) {
                Ok(x) => x,
                Err(_) => (vec![], vec![]),
            };
            let progs: Vec<Vec<Value>> = (0..nprogs).map(|_| gen_prog(&mut rng, &seq, sr.max_doc(), maxlen, !a.flag("stop-at-count"))).collect();
            run_scorer_case(tracer, w.as_ref(), sr, ord, &q, scoring, &progs, &json!({"qi":qi}));
        }
    }
}

fn main() {
    if std::env::var("VERIF_PANIC_TRACE").is_err() {
        std::panic::set_hook(Box::new(|_| {}));
    }
    let a = Args::parse();
    let mode = a.pos.first().cloned().unwrap_or_default();
    let tracer = Tracer::to_file(&a.get("out", "/dev/stdout"));
    match mode.as_str() {
        "stripes" | "cases" => stripes(&a, &tracer),
        "random" => random(&a, &tracer),
        _ => {
            eprintln!("usage: docset_driver stripes|random ...");
            std::process::exit(2);
        }
    }
    tracer.emit(json!({"ev":"end"}));
    tracer.flush();
}
