//! C12 driver: scores are BM25 over the searcher's statistics; explain agrees.
//!
//! Executes cases `{docs, cuts, dels, queries, ks}` on the real tantivy: the same documents are
//! indexed twice (index "multi": one segment per cut, index "single": one segment), every query is
//! run through TopDocs (several K), a scoring collector that records every (doc, score), and
//! `Query::explain`.  What is logged are observations (statistics from the searcher, term
//! frequencies / positions / field-norm ids from the segment readers, score bit patterns) plus the
//! *symbolic score term* this driver fed into its small trusted f32 kernel.  The judge is
//! spec/Bm25StructTrace.tla: it recomputes every integer and the symbolic term from the logged
//! documents.  No expected value is computed here except the kernel's f32 evaluation.
use rand::rngs::StdRng;
use rand::{Rng, SeedableRng};
use serde_json::{json, Map, Value};
use std::collections::BTreeMap;
use std::io::BufRead;
use tantivy::collector::{Collector, SegmentCollector, TopDocs};
use tantivy::fieldnorm::FieldNormReader;
use tantivy::indexer::NoMergePolicy;
use tantivy::postings::Postings;
use tantivy::query::{
    Bm25StatisticsProvider, BooleanQuery, BoostQuery, ConstScoreQuery, DisjunctionMaxQuery, Occur, PhraseQuery, Query, TermQuery,
};
use tantivy::schema::*;
use tantivy::{DocAddress, DocId, DocSet, Index, IndexWriter, Score, Searcher, SegmentOrdinal, SegmentReader, TantivyDocument, Term, TERMINATED};
use vh::{trace::Tracer, Args};

// ------------------------------------------------------------------------------------------
// the trusted f32 kernel (mirrors the operation order of src/query/bm25.rs, score_combiner.rs)
// ------------------------------------------------------------------------------------------
const K1: f32 = 1.2;
const B: f32 = 0.75;

/// The symbolic score term of (query, document): which statistics and which clauses enter.
#[derive(Clone, Debug)]
enum STerm {
    Bm25 { n_docs: u64, n_tokens: u64, ns: Vec<u64>, tf: u32, fnid: u8, boosts: Vec<f32> },
    Const { c: f32, boosts: Vec<f32> },
    Sum(Vec<STerm>),
    Dismax { tie: f32, args: Vec<STerm> },
}

fn k_idf(doc_freq: u64, doc_count: u64) -> f32 {
    let x = ((doc_count - doc_freq) as f32 + 0.5) / (doc_freq as f32 + 0.5);
    (1.0 + x).ln()
}

fn k_boost(boosts: &[f32]) -> f32 {
    let mut boost = 1.0f32;
    for b in boosts {
        boost = boost * *b;
    }
    boost
}

fn k_eval(t: &STerm) -> f32 {
    match t {
        STerm::Bm25 { n_docs, n_tokens, ns, tf, fnid, boosts } => {
            let average_fieldnorm = *n_tokens as f32 / *n_docs as f32;
            let idf = if ns.len() == 1 {
                k_idf(ns[0], *n_docs)
            } else {
                let mut idf_sum: f32 = 0.0;
                for n in ns {
                    idf_sum += k_idf(*n, *n_docs);
                }
                idf_sum
            };
            let mut weight = idf * (1.0 + K1);
            let boost = k_boost(boosts);
            if boost != 1.0f32 {
                weight = weight * boost;
            }
            let fieldnorm = FieldNormReader::id_to_fieldnorm(*fnid);
            let norm = K1 * (1.0 - B + B * fieldnorm as f32 / average_fieldnorm);
            let term_freq = *tf as f32;
            weight * (term_freq / (term_freq + norm))
        }
        STerm::Const { c, boosts } => k_boost(boosts) * *c,
        STerm::Sum(args) => {
            let mut score = 0.0f32;
            for a in args {
                score += k_eval(a);
            }
            score
        }
        STerm::Dismax { tie, args } => {
            let mut max = 0.0f32;
            let mut sum = 0.0f32;
            for a in args {
                let score = k_eval(a);
                max = f32::max(score, max);
                sum += score;
            }
            max + (sum - max) * *tie
        }
    }
}

// ------------------------------------------------------------------------------------------
// encoding
// ------------------------------------------------------------------------------------------
/// f32 as a pair of 16-bit words (TLC integers are 32-bit)
fn words(f: f32) -> Value {
    let b = f.to_bits();
    json!([b >> 16, b & 0xffff])
}
/// an observed score: bit pattern as decimal string and as two 16-bit words
fn score_json(f: f32) -> Value {
    let b = f.to_bits();
    json!({"b": b.to_string(), "hi": b >> 16, "lo": b & 0xffff})
}

fn sterm_json(t: &STerm) -> Value {
    match t {
        STerm::Bm25 { n_docs, n_tokens, ns, tf, fnid, boosts } => json!({
            "k": "bm25", "N": n_docs, "T": n_tokens, "ns": ns, "tf": tf, "fn": fnid,
            "boosts": boosts.iter().map(|b| words(*b)).collect::<Vec<_>>()}),
        STerm::Const { c, boosts } => json!({"k": "const", "c": words(*c), "boosts": boosts.iter().map(|b| words(*b)).collect::<Vec<_>>()}),
        STerm::Sum(args) => json!({"k": "sum", "args": args.iter().map(sterm_json).collect::<Vec<_>>()}),
        STerm::Dismax { tie, args } => json!({"k": "dismax", "tie": words(*tie), "args": args.iter().map(sterm_json).collect::<Vec<_>>()}),
    }
}

/// the query tree as it was built, floats as bit words
/// the scored text fields of an index, in schema order ("body" alone in the single-field families)
type Fields = Vec<(String, Field)>;

fn field_name(q: &Value) -> &str {
    q["f"].as_str().unwrap_or("body")
}
fn field_of(fields: &Fields, q: &Value) -> Field {
    let name = field_name(q);
    fields.iter().find(|(n, _)| n == name).unwrap_or_else(|| panic!("unknown field {name}")).1
}

fn query_json(q: &Value) -> Value {
    match q["k"].as_str().unwrap_or("") {
        "term" => json!({"k": "term", "w": q["w"], "f": field_name(q)}),
        "phrase" => json!({"k": "phrase", "ws": q["ws"], "f": field_name(q)}),
        "bool" => json!({"k": "bool", "cl": q["cl"].as_array().unwrap().iter().map(|c| json!({"o": c["o"], "q": query_json(&c["q"])})).collect::<Vec<_>>()}),
        "boost" => json!({"k": "boost", "b": words(q["b"].as_f64().unwrap() as f32), "q": query_json(&q["q"])}),
        "const" => json!({"k": "const", "c": words(q["c"].as_f64().unwrap() as f32), "q": query_json(&q["q"])}),
        "dismax" => json!({"k": "dismax", "tie": words(q["tie"].as_f64().unwrap() as f32), "qs": q["qs"].as_array().unwrap().iter().map(query_json).collect::<Vec<_>>()}),
        k => panic!("query kind {k}"),
    }
}

fn build_query(q: &Value, fields: &Fields) -> Box<dyn Query> {
    match q["k"].as_str().unwrap_or("") {
        "term" => {
            let opt = if q["opt"].as_str() == Some("pos") { IndexRecordOption::WithFreqsAndPositions } else { IndexRecordOption::WithFreqs };
            Box::new(TermQuery::new(Term::from_field_text(field_of(fields, q), q["w"].as_str().unwrap()), opt))
        }
        "phrase" => Box::new(PhraseQuery::new(
            q["ws"].as_array().unwrap().iter().map(|w| Term::from_field_text(field_of(fields, q), w.as_str().unwrap())).collect(),
        )),
        "bool" => {
            let cl: Vec<(Occur, Box<dyn Query>)> = q["cl"]
                .as_array()
                .unwrap()
                .iter()
                .map(|c| {
                    let o = match c["o"].as_str().unwrap() {
                        "must" => Occur::Must,
                        "should" => Occur::Should,
                        "mustnot" => Occur::MustNot,
                        o => panic!("occur {o}"),
                    };
                    (o, build_query(&c["q"], fields))
                })
                .collect();
            Box::new(BooleanQuery::new(cl))
        }
        "boost" => Box::new(BoostQuery::new(build_query(&q["q"], fields), q["b"].as_f64().unwrap() as f32)),
        "const" => Box::new(ConstScoreQuery::new(build_query(&q["q"], fields), q["c"].as_f64().unwrap() as f32)),
        "dismax" => Box::new(DisjunctionMaxQuery::with_tie_breaker(
            q["qs"].as_array().unwrap().iter().map(|x| build_query(x, fields)).collect(),
            q["tie"].as_f64().unwrap() as f32,
        )),
        k => panic!("query kind {k}"),
    }
}

// ------------------------------------------------------------------------------------------
// a scoring collector that records every (segment, doc, score)
// ------------------------------------------------------------------------------------------
struct AllScores;
struct AllScoresSeg {
    ord: SegmentOrdinal,
    v: Vec<(SegmentOrdinal, DocId, Score)>,
}
impl Collector for AllScores {
    type Fruit = Vec<(SegmentOrdinal, DocId, Score)>;
    type Child = AllScoresSeg;
    fn for_segment(&self, ord: SegmentOrdinal, _r: &SegmentReader) -> tantivy::Result<AllScoresSeg> {
        Ok(AllScoresSeg { ord, v: vec![] })
    }
    fn requires_scoring(&self) -> bool {
        true
    }
    fn merge_fruits(&self, fruits: Vec<Vec<(SegmentOrdinal, DocId, Score)>>) -> tantivy::Result<Self::Fruit> {
        Ok(fruits.into_iter().flatten().collect())
    }
}
impl SegmentCollector for AllScoresSeg {
    type Fruit = Vec<(SegmentOrdinal, DocId, Score)>;
    fn collect(&mut self, doc: DocId, score: Score) {
        self.v.push((self.ord, doc, score));
    }
    fn harvest(self) -> Self::Fruit {
        self.v
    }
}

// ------------------------------------------------------------------------------------------
// index construction and observation
// ------------------------------------------------------------------------------------------
struct Built {
    index: Index,
    fields: Fields,
    /// for the merged index: the source segments (document ids, deleted ones included) and the id of
    /// the segment the merge produced (None: nothing was left alive)
    merge: Option<(Vec<Vec<u64>>, Option<tantivy::index::SegmentId>)>,
}

fn doc_text(d: &Value, filler: &str) -> String {
    let mut s = String::new();
    for t in d["toks"].as_array().unwrap() {
        s.push_str(t.as_str().unwrap());
        s.push(' ');
    }
    for _ in 0..d["pad"].as_u64().unwrap_or(0) {
        s.push_str(filler);
        s.push(' ');
    }
    s
}

/// `merge`: positions (1-based) of the cuts whose segments are merged (`IndexWriter::merge(..).wait()`)
/// after all commits and deletes.
/// the documents of a case, every one as a record field -> {toks, pad} (a single-field document
/// {toks, pad} is the content of the field "body")
fn case_fields(case: &Value) -> Vec<String> {
    case["fields"].as_array().map(|a| a.iter().map(|x| x.as_str().unwrap().to_string()).collect()).unwrap_or_else(|| vec!["body".to_string()])
}
fn case_docs(case: &Value) -> Vec<Value> {
    let fields = case_fields(case);
    case["docs"].as_array().unwrap().iter().map(|d| {
        if d.get("toks").is_some() {
            json!({"body": d})
        } else {
            let mut m = Map::new();
            for f in &fields {
                m.insert(f.clone(), d.get(f).cloned().unwrap_or(json!({"toks": [], "pad": 0})));
            }
            Value::Object(m)
        }
    }).collect()
}

fn build_index(case: &Value, cuts: &[usize], merge: Option<&[usize]>) -> tantivy::Result<Built> {
    let mut sb = Schema::builder();
    let fields: Fields = case_fields(case).into_iter().map(|f| { let fld = sb.add_text_field(&f, TEXT); (f, fld) }).collect();
    let id = sb.add_u64_field("id", INDEXED | FAST | STORED);
    let index = Index::create_in_ram(sb.build());
    let mut w: IndexWriter = index.writer_with_num_threads(1, 15_000_000)?;
    w.set_merge_policy(Box::new(NoMergePolicy));
    let filler = case["filler"].as_str().unwrap_or("z");
    let docs = case_docs(case);
    let mut next = 0usize;
    for c in cuts {
        for _ in 0..*c {
            let mut d = TantivyDocument::new();
            for (name, fld) in &fields {
                d.add_text(*fld, doc_text(&docs[next][name], filler));
            }
            d.add_u64(id, (next + 1) as u64);
            w.add_document(d)?;
            next += 1;
        }
        w.commit()?;
    }
    let dels: Vec<u64> = case["dels"].as_array().map(|a| a.iter().map(|x| x.as_u64().unwrap()).collect()).unwrap_or_default();
    if !dels.is_empty() {
        for x in &dels {
            w.delete_term(Term::from_field_u64(id, *x));
        }
        w.commit()?;
    }
    let mut merge_info = None;
    if let Some(ms) = merge {
        let mut ranges = vec![];
        let mut start = 1u64;
        for c in cuts {
            ranges.push((start, start + *c as u64 - 1));
            start += *c as u64;
        }
        let searcher = index.reader()?.searcher();
        let mut seg_ids_to_merge = vec![];
        let mut srcs: Vec<Vec<u64>> = vec![];
        for sr in searcher.segment_readers() {
            let ids = seg_ids(sr);
            let first = ids[0];
            if ms.iter().any(|k| ranges[*k - 1].0 <= first && first <= ranges[*k - 1].1) {
                seg_ids_to_merge.push(sr.segment_id());
                srcs.push(ids);
            }
        }
        drop(searcher);
        if !seg_ids_to_merge.is_empty() {
            let meta = w.merge(&seg_ids_to_merge).wait()?;
            merge_info = Some((srcs, meta.map(|m| m.id())));
        }
    }
    w.wait_merging_threads()?;
    Ok(Built { index, fields, merge: merge_info })
}

/// id (1-based position in the corpus) of every document of a segment, from the fast field
fn seg_ids(sr: &SegmentReader) -> Vec<u64> {
    let col = sr.fast_fields().u64("id").expect("fast id");
    (0..sr.max_doc()).map(|d| col.first(d).unwrap_or(0)).collect()
}

fn observe_index(searcher: &Searcher, fields: &Fields, vocab: &[String], merged: Option<tantivy::index::SegmentId>) -> Value {
    let mut segs = vec![];
    for sr in searcher.segment_readers() {
        let ids = seg_ids(sr);
        let dead: Vec<u64> = (0..sr.max_doc()).filter(|d| sr.is_deleted(*d)).map(|d| ids[d as usize]).collect();
        let (mut tj, mut dfj, mut fnidj, mut fnj) = (Map::new(), Map::new(), Map::new(), Map::new());
        for (name, fld) in fields {
            let inv = sr.inverted_index(*fld).expect("inverted index");
            let fnr = sr.get_fieldnorms_reader(*fld).expect("fieldnorm reader");
            let fnids: Vec<u8> = (0..sr.max_doc()).map(|d| fnr.fieldnorm_id(d)).collect();
            let fns: Vec<u32> = (0..sr.max_doc()).map(|d| fnr.fieldnorm(d)).collect();
            let mut df = Map::new();
            for w in vocab {
                df.insert(w.clone(), json!(inv.doc_freq(&Term::from_field_text(*fld, w)).expect("doc_freq")));
            }
            tj.insert(name.clone(), json!(inv.total_num_tokens()));
            dfj.insert(name.clone(), Value::Object(df));
            fnidj.insert(name.clone(), json!(fnids));
            fnj.insert(name.clone(), json!(fns));
        }
        let mut seg = json!({"docs": ids, "dead": dead, "max_doc": sr.max_doc(), "num_docs": sr.num_docs(),
            "T": tj, "df": dfj, "fnids": fnidj, "fns": fnj});
        if merged == Some(sr.segment_id()) {
            seg["merged"] = json!(true);
        }
        segs.push(seg);
    }
    json!(segs)
}

/// what the postings of one segment say about one document: per field, tf and positions per word
/// and the field-norm id
struct DocObs {
    tf: BTreeMap<String, BTreeMap<String, u32>>,
    pos: BTreeMap<String, BTreeMap<String, Vec<u32>>>,
    fnid: BTreeMap<String, u8>,
}

fn observe_doc(sr: &SegmentReader, fields: &Fields, vocab: &[String], doc: DocId) -> DocObs {
    let (mut tfs, mut poss, mut fnids) = (BTreeMap::new(), BTreeMap::new(), BTreeMap::new());
    for (name, fld) in fields {
        let inv = sr.inverted_index(*fld).expect("inverted index");
        let mut tf = BTreeMap::new();
        let mut pos = BTreeMap::new();
        for w in vocab {
            let term = Term::from_field_text(*fld, w);
            let mut f = 0u32;
            let mut p: Vec<u32> = vec![];
            if let Some(mut post) = inv.read_postings(&term, IndexRecordOption::WithFreqsAndPositions).expect("postings") {
                if post.doc() != TERMINATED && (post.doc() == doc || (post.doc() < doc && post.seek(doc) == doc)) {
                    f = post.term_freq();
                    post.positions(&mut p);
                }
            }
            tf.insert(w.clone(), f);
            pos.insert(w.clone(), p);
        }
        tfs.insert(name.clone(), tf);
        poss.insert(name.clone(), pos);
        fnids.insert(name.clone(), sr.get_fieldnorms_reader(*fld).expect("fieldnorm reader").fieldnorm_id(doc));
    }
    DocObs { tf: tfs, pos: poss, fnid: fnids }
}

/// number of positions at which the words occur consecutively in the field (read from the index positions)
fn phrase_count(o: &DocObs, field: &str, ws: &[String]) -> u32 {
    let empty = vec![];
    let none = BTreeMap::new();
    let pos = o.pos.get(field).unwrap_or(&none);
    let first = pos.get(&ws[0]).unwrap_or(&empty);
    let mut n = 0;
    for p in first {
        let mut ok = true;
        for (i, w) in ws.iter().enumerate().skip(1) {
            if !pos.get(w).unwrap_or(&empty).contains(&(p + i as u32)) {
                ok = false;
                break;
            }
        }
        if ok {
            n += 1;
        }
    }
    n
}

thread_local! {
    /// which observation path is running (reported with a caught panic)
    static STAGE: std::cell::Cell<&'static str> = const { std::cell::Cell::new("") };
}
fn stage(s: &'static str) {
    STAGE.with(|c| c.set(s));
}

/// the statistics the searcher hands to the weights: N, and per field T and n(t)
struct Stats {
    n_docs: u64,
    n_tokens: BTreeMap<String, u64>,
    df: BTreeMap<String, BTreeMap<String, u64>>,
}
impl Stats {
    fn read(searcher: &Searcher, fields: &Fields, vocab: &[String]) -> Result<Stats, String> {
        let (mut n_tokens, mut df) = (BTreeMap::new(), BTreeMap::new());
        for (name, fld) in fields {
            let mut d = BTreeMap::new();
            for w in vocab {
                d.insert(w.clone(), Bm25StatisticsProvider::doc_freq(searcher, &Term::from_field_text(*fld, w)).map_err(|e| e.to_string())?);
            }
            df.insert(name.clone(), d);
            n_tokens.insert(name.clone(), Bm25StatisticsProvider::total_num_tokens(searcher, *fld).map_err(|e| e.to_string())?);
        }
        Ok(Stats { n_docs: Bm25StatisticsProvider::total_num_docs(searcher).map_err(|e| e.to_string())?, n_tokens, df })
    }
    fn n(&self, f: &str, w: &str) -> u64 {
        self.df.get(f).and_then(|m| m.get(w)).copied().unwrap_or(0)
    }
}

/// the symbolic term of (q, doc) built from what was observed; None = the document does not match
fn sterm(q: &Value, o: &DocObs, st: &Stats, boosts: &mut Vec<f32>) -> Option<STerm> {
    match q["k"].as_str().unwrap_or("") {
        "term" => {
            let w = q["w"].as_str().unwrap();
            let f = field_name(q);
            let tf = o.tf.get(f).and_then(|m| m.get(w)).copied().unwrap_or(0);
            if tf == 0 {
                return None;
            }
            Some(STerm::Bm25 { n_docs: st.n_docs, n_tokens: st.n_tokens[f], ns: vec![st.n(f, w)], tf, fnid: o.fnid[f], boosts: boosts.clone() })
        }
        "phrase" => {
            let ws: Vec<String> = q["ws"].as_array().unwrap().iter().map(|w| w.as_str().unwrap().to_string()).collect();
            let f = field_name(q);
            let tf = phrase_count(o, f, &ws);
            if tf == 0 {
                return None;
            }
            Some(STerm::Bm25 { n_docs: st.n_docs, n_tokens: st.n_tokens[f], ns: ws.iter().map(|w| st.n(f, w)).collect(), tf, fnid: o.fnid[f], boosts: boosts.clone() })
        }
        "bool" => {
            let mut args = vec![];
            let (mut n_must, mut n_should_hit) = (0, 0);
            for c in q["cl"].as_array().unwrap() {
                let t = sterm(&c["q"], o, st, boosts);
                match c["o"].as_str().unwrap() {
                    "must" => {
                        n_must += 1;
                        args.push(t?);
                    }
                    "should" => {
                        if let Some(t) = t {
                            n_should_hit += 1;
                            args.push(t);
                        }
                    }
                    _ => {
                        if t.is_some() {
                            return None;
                        }
                    }
                }
            }
            if n_must == 0 && n_should_hit == 0 {
                return None;
            }
            Some(if args.len() == 1 { args.pop().unwrap() } else { STerm::Sum(args) })
        }
        "boost" => {
            boosts.push(q["b"].as_f64().unwrap() as f32);
            let r = sterm(&q["q"], o, st, boosts);
            boosts.pop();
            r
        }
        "const" => sterm(&q["q"], o, st, &mut vec![]).map(|_| STerm::Const { c: q["c"].as_f64().unwrap() as f32, boosts: boosts.clone() }),
        "dismax" => {
            let mut args: Vec<STerm> = q["qs"].as_array().unwrap().iter().filter_map(|x| sterm(x, o, st, boosts)).collect();
            match args.len() {
                0 => None,
                1 => args.pop(),
                _ => Some(STerm::Dismax { tie: q["tie"].as_f64().unwrap() as f32, args }),
            }
        }
        k => panic!("query kind {k}"),
    }
}

fn run_query(searcher: &Searcher, fields: &Fields, vocab: &[String], q: &Value, ks: &[usize], explain: bool) -> Result<Value, String> {
    stage("build");
    let query = build_query(q, fields);
    let st = Stats::read(searcher, fields, vocab)?;
    let ids: Vec<Vec<u64>> = searcher.segment_readers().iter().map(seg_ids).collect();
    // (b) every (doc, score)
    stage("collector");
    let mut all = searcher.search(&*query, &AllScores).map_err(|e| format!("collector: {e}"))?;
    all.sort_by_key(|(s, d, _)| ids[*s as usize][*d as usize]);
    let mut hits = vec![];
    let mut idx_of: BTreeMap<(u32, u32), usize> = BTreeMap::new();
    for (i, (seg, doc, score)) in all.iter().enumerate() {
        stage("observe");
        let sr = searcher.segment_reader(*seg);
        let o = observe_doc(sr, fields, vocab, *doc);
        let mut h = Map::new();
        h.insert("doc".into(), json!(ids[*seg as usize][*doc as usize]));
        h.insert("tfs".into(), json!(o.tf));
        h.insert("fnid".into(), json!(o.fnid));
        h.insert("coll".into(), score_json(*score));
        match sterm(q, &o, &st, &mut vec![]) {
            Some(t) => {
                h.insert("term".into(), sterm_json(&t));
                h.insert("kernel".into(), score_json(k_eval(&t)));
            }
            None => {
                h.insert("term".into(), json!({"k": "none"}));
            }
        }
        // (c) explain
        if explain {
            stage("explain");
            match query.explain(searcher, DocAddress::new(*seg, *doc)) {
                Ok(e) => {
                    h.insert("expl".into(), score_json(e.value()));
                }
                Err(e) => {
                    h.insert("expl_err".into(), json!(e.to_string()));
                }
            }
        }
        idx_of.insert((*seg, *doc), i + 1);
        hits.push(Value::Object(h));
    }
    // (a) TopDocs with several K
    let mut tops = vec![];
    for k in ks {
        stage("topdocs");
        let r = searcher.search(&*query, &TopDocs::with_limit(*k).order_by_score()).map_err(|e| format!("topdocs: {e}"))?;
        let res: Vec<Value> = r
            .iter()
            .map(|(s, a)| json!({"i": idx_of.get(&(a.segment_ord, a.doc_id)).copied().unwrap_or(0), "doc": ids[a.segment_ord as usize][a.doc_id as usize], "s": score_json(*s)}))
            .collect();
        tops.push(json!({"k": k, "res": res}));
    }
    Ok(json!({"N": st.n_docs, "T": st.n_tokens, "df": st.df, "hits": hits, "tops": tops}))
}

// ------------------------------------------------------------------------------------------
// big cases: segments of several thousand small documents built from a few repeated shapes
// (document i has shape pattern[(i-1) mod p]); the judge expands them arithmetically.  Logged per
// query: the statistics, the number of matches, per (segment, shape) the histogram of score bit
// patterns seen by the collector and by TopDocs(K >= all), and the full observation (as in the
// small cases) for a sample of matching documents: the first / last ones, those around every
// 4096-document boundary of their segment, the TopDocs(10) results and a pseudo-random few.
// ------------------------------------------------------------------------------------------
fn run_big_case(tracer: &Tracer, case: &Value) {
    let vocab: Vec<String> = case["vocab"].as_array().unwrap().iter().map(|w| w.as_str().unwrap().to_string()).collect();
    let filler = case["filler"].as_str().unwrap_or("z");
    let shapes = case["shapes"].as_array().unwrap();
    let pattern: Vec<usize> = case["pattern"].as_array().unwrap().iter().map(|x| x.as_u64().unwrap() as usize).collect();
    let nd = case["nd"].as_u64().unwrap() as usize;
    let cuts: Vec<usize> = case["cuts"].as_array().unwrap().iter().map(|x| x.as_u64().unwrap() as usize).collect();
    assert_eq!(cuts.iter().sum::<usize>(), nd);
    tracer.emit(json!({"ev": "breset", "tag": case["tag"], "filler": filler, "vocab": vocab, "shapes": shapes, "pattern": pattern, "nd": nd, "cuts": cuts}));
    let texts: Vec<String> = shapes.iter().map(|d| doc_text(d, filler)).collect();
    let shape_of = |id: u64| pattern[((id - 1) as usize) % pattern.len()];
    let built = std::panic::catch_unwind(std::panic::AssertUnwindSafe(|| -> tantivy::Result<(Index, Field)> {
        let mut sb = Schema::builder();
        let body = sb.add_text_field("body", TEXT);
        let id = sb.add_u64_field("id", INDEXED | FAST | STORED);
        let index = Index::create_in_ram(sb.build());
        let mut w: IndexWriter = index.writer_with_num_threads(1, 50_000_000)?;
        w.set_merge_policy(Box::new(NoMergePolicy));
        let mut next = 0u64;
        for c in &cuts {
            for _ in 0..*c {
                next += 1;
                let mut d = TantivyDocument::new();
                d.add_text(body, &texts[shape_of(next) - 1]);
                d.add_u64(id, next);
                w.add_document(d)?;
            }
            w.commit()?;
        }
        w.wait_merging_threads()?;
        Ok((index, body))
    }));
    let (index, body) = match built {
        Ok(Ok(x)) => x,
        Ok(Err(e)) => {
            tracer.emit(json!({"ev": "error", "where": "build", "msg": e.to_string()}));
            return;
        }
        Err(p) => {
            tracer.emit(json!({"ev": "panic", "where": "build", "msg": panic_msg(p)}));
            return;
        }
    };
    let opened = std::panic::catch_unwind(std::panic::AssertUnwindSafe(|| -> Result<(Searcher, Vec<Vec<u64>>, Value), String> {
        let searcher = index.reader().map_err(|e| e.to_string())?.searcher();
        let ids: Vec<Vec<u64>> = searcher.segment_readers().iter().map(seg_ids).collect();
        let mut segs = vec![];
        for (k, sr) in searcher.segment_readers().iter().enumerate() {
            let inv = sr.inverted_index(body).map_err(|e| e.to_string())?;
            let fnr = sr.get_fieldnorms_reader(body).map_err(|e| e.to_string())?;
            let mut df = Map::new();
            for w in &vocab {
                df.insert(w.clone(), json!(inv.doc_freq(&Term::from_field_text(body, w)).map_err(|e| e.to_string())?));
            }
            let n = sr.max_doc() as usize;
            // field-norm ids: every document is read; logged as the set of distinct ids per shape
            let mut per_shape: BTreeMap<usize, std::collections::BTreeSet<u8>> = BTreeMap::new();
            for d in 0..n {
                per_shape.entry(shape_of(ids[k][d])).or_default().insert(fnr.fieldnorm_id(d as u32));
            }
            let fnids: Vec<Value> = per_shape.iter().map(|(s, set)| json!({"shape": s, "ids": set.iter().collect::<Vec<_>>()})).collect();
            segs.push(json!({"first": ids[k][0], "last": ids[k][n - 1], "consecutive": ids[k].windows(2).all(|w| w[1] == w[0] + 1),
                "max_doc": sr.max_doc(), "num_docs": sr.num_docs(), "T": inv.total_num_tokens(), "df": df, "fnids": fnids}));
        }
        Ok((searcher, ids, json!(segs)))
    }));
    let (searcher, ids, segs) = match opened {
        Ok(Ok(x)) => x,
        Ok(Err(e)) => {
            tracer.emit(json!({"ev": "error", "where": "open", "msg": e}));
            return;
        }
        Err(p) => {
            tracer.emit(json!({"ev": "panic", "where": "open", "msg": panic_msg(p)}));
            return;
        }
    };
    tracer.emit(json!({"ev": "bindex", "segs": segs}));
    for q in case["queries"].as_array().unwrap() {
        let r = std::panic::catch_unwind(std::panic::AssertUnwindSafe(|| run_big_query(&searcher, body, &vocab, q, &ids, &shape_of, nd)));
        match r {
            Ok(Ok(mut v)) => {
                v["ev"] = json!("bquery");
                v["q"] = query_json(q);
                tracer.emit(v);
            }
            Ok(Err(e)) => {
                tracer.emit(json!({"ev": "error", "where": "query", "q": query_json(q), "msg": e}));
            }
            Err(p) => {
                tracer.emit(json!({"ev": "panic", "where": "query", "stage": STAGE.with(|c| c.get()), "q": query_json(q), "msg": panic_msg(p)}));
            }
        }
    }
}

fn histo_json(h: &BTreeMap<(u32, usize), BTreeMap<u32, u32>>, seg: u32, shape: usize) -> Value {
    json!(h.get(&(seg, shape)).map(|m| m.iter().map(|(b, n)| json!({"hi": b >> 16, "lo": b & 0xffff, "n": n})).collect::<Vec<_>>()).unwrap_or_default())
}

fn run_big_query(searcher: &Searcher, body: Field, vocab: &[String], q: &Value, ids: &[Vec<u64>], shape_of: &dyn Fn(u64) -> usize, nd: usize) -> Result<Value, String> {
    stage("build");
    let fields: Fields = vec![("body".to_string(), body)];
    let fields = &fields;
    let query = build_query(q, fields);
    let st = Stats::read(searcher, fields, vocab)?;
    stage("collector");
    let mut all = searcher.search(&*query, &AllScores).map_err(|e| format!("collector: {e}"))?;
    all.sort_by_key(|(s, d, _)| ids[*s as usize][*d as usize]);
    stage("topdocs");
    let top_all = searcher.search(&*query, &TopDocs::with_limit(nd + 10).order_by_score()).map_err(|e| format!("topdocs: {e}"))?;
    let top10 = searcher.search(&*query, &TopDocs::with_limit(10).order_by_score()).map_err(|e| format!("topdocs: {e}"))?;
    let top_score: BTreeMap<(u32, u32), f32> = top_all.iter().map(|(s, a)| ((a.segment_ord, a.doc_id), *s)).collect();
    // histograms of score bit patterns per (segment, shape)
    let mut h_coll: BTreeMap<(u32, usize), BTreeMap<u32, u32>> = BTreeMap::new();
    let mut h_top: BTreeMap<(u32, usize), BTreeMap<u32, u32>> = BTreeMap::new();
    for (seg, doc, score) in &all {
        *h_coll.entry((*seg, shape_of(ids[*seg as usize][*doc as usize]))).or_default().entry(score.to_bits()).or_default() += 1;
    }
    for (s, a) in &top_all {
        *h_top.entry((a.segment_ord, shape_of(ids[a.segment_ord as usize][a.doc_id as usize]))).or_default().entry(s.to_bits()).or_default() += 1;
    }
    let keys: std::collections::BTreeSet<(u32, usize)> = h_coll.keys().chain(h_top.keys()).cloned().collect();
    let groups: Vec<Value> = keys.iter().map(|(seg, shape)| json!({"seg": seg + 1, "shape": shape, "coll": histo_json(&h_coll, *seg, *shape), "top": histo_json(&h_top, *seg, *shape)})).collect();
    // the sample
    let in_top10: std::collections::BTreeSet<(u32, u32)> = top10.iter().map(|(_, a)| (a.segment_ord, a.doc_id)).collect();
    let n_all = all.len();
    let mut hits = vec![];
    for (i, (seg, doc, score)) in all.iter().enumerate() {
        let id = ids[*seg as usize][*doc as usize];
        let near = *doc % 4096 <= 2 || *doc % 4096 >= 4093;
        // few matches (a sparse required term): every one of them is observed
        let pick = n_all <= 160 || i < 3 || i + 3 >= n_all || near || in_top10.contains(&(*seg, *doc)) || (id.wrapping_mul(2654435761) >> 7) % 401 == 0;
        if !pick || hits.len() >= 200 && !in_top10.contains(&(*seg, *doc)) {
            continue;
        }
        stage("observe");
        let sr = searcher.segment_reader(*seg);
        let o = observe_doc(sr, fields, vocab, *doc);
        let mut h = Map::new();
        h.insert("doc".into(), json!(id));
        h.insert("seg".into(), json!(seg + 1));
        h.insert("local".into(), json!(doc));
        h.insert("tfs".into(), json!(o.tf["body"]));
        h.insert("fnid".into(), json!(o.fnid["body"]));
        h.insert("coll".into(), score_json(*score));
        if let Some(t) = sterm(q, &o, &st, &mut vec![]) {
            h.insert("term".into(), sterm_json(&t));
            h.insert("kernel".into(), score_json(k_eval(&t)));
        } else {
            h.insert("term".into(), json!({"k": "none"}));
        }
        if let Some(s) = top_score.get(&(*seg, *doc)) {
            h.insert("top".into(), score_json(*s));
        }
        stage("explain");
        match query.explain(searcher, DocAddress::new(*seg, *doc)) {
            Ok(e) => {
                h.insert("expl".into(), score_json(e.value()));
            }
            Err(e) => {
                h.insert("expl_err".into(), json!(e.to_string()));
            }
        }
        hits.push(Value::Object(h));
    }
    let top10j: Vec<Value> = top10.iter().map(|(s, a)| json!({"doc": ids[a.segment_ord as usize][a.doc_id as usize], "s": score_json(*s)})).collect();
    Ok(json!({"N": st.n_docs, "T": st.n_tokens["body"], "df": st.df["body"], "nhits": n_all, "ntop": top_all.len(), "groups": groups, "hits": hits, "top10": top10j}))
}

fn panic_msg(e: Box<dyn std::any::Any + Send>) -> String {
    if let Some(s) = e.downcast_ref::<String>() {
        s.clone()
    } else if let Some(s) = e.downcast_ref::<&str>() {
        s.to_string()
    } else {
        "panic".to_string()
    }
}

/// explain_mode: "all" | "none"; avoid "dismaxwand": no TopDocs for queries of that class.
fn run_case(tracer: &Tracer, case: &Value, explain_mode: &str, avoid: &str) {
    let vocab: Vec<String> = case["vocab"].as_array().unwrap().iter().map(|w| w.as_str().unwrap().to_string()).collect();
    let nd = case["docs"].as_array().unwrap().len();
    let cuts: Vec<usize> = case["cuts"].as_array().unwrap().iter().map(|x| x.as_u64().unwrap() as usize).collect();
    assert_eq!(cuts.iter().sum::<usize>(), nd, "cuts must add up to the number of documents");
    let ks: Vec<usize> = case["ks"].as_array().map(|a| a.iter().map(|x| x.as_u64().unwrap() as usize).collect()).unwrap_or_else(|| vec![1, 2, 1000]);
    let explain_mode = case["explain"].as_str().unwrap_or(explain_mode).to_string();
    let avoid = case["avoid"].as_str().unwrap_or(avoid).to_string();
    tracer.emit(json!({"ev": "reset", "tag": case["tag"], "filler": case["filler"].as_str().unwrap_or("z"), "vocab": vocab,
        "fields": case_fields(case), "docs": case_docs(case), "cuts": cuts, "dels": case.get("dels").cloned().unwrap_or(json!([]))}));
    let built = std::panic::catch_unwind(std::panic::AssertUnwindSafe(|| -> Result<Vec<(String, Built)>, String> {
        let multi = build_index(case, &cuts, None).map_err(|e| e.to_string())?;
        let single = build_index(case, &[nd], None).map_err(|e| e.to_string())?;
        let mut v = vec![("multi".to_string(), multi), ("single".to_string(), single)];
        // the many-segment index once more, then some of its segments merged
        if let Some(ms) = case["merge"].as_array() {
            let ms: Vec<usize> = ms.iter().map(|x| x.as_u64().unwrap() as usize).collect();
            let merged = build_index(case, &cuts, Some(&ms)).map_err(|e| format!("merge: {e}"))?;
            if merged.merge.is_some() {
                v.push(("merged".to_string(), merged));
            }
        }
        Ok(v)
    }));
    let built = match built {
        Ok(Ok(b)) => b,
        Ok(Err(e)) => {
            tracer.emit(json!({"ev": "error", "where": "build", "msg": e}));
            return;
        }
        Err(p) => {
            tracer.emit(json!({"ev": "panic", "where": "build", "msg": panic_msg(p)}));
            return;
        }
    };
    let mut searchers = vec![];
    for (name, b) in &built {
        let r = std::panic::catch_unwind(std::panic::AssertUnwindSafe(|| -> Result<(Searcher, Value), String> {
            let searcher = b.index.reader().map_err(|e| e.to_string())?.searcher();
            let merged_id = b.merge.as_ref().and_then(|m| m.1);
            let mut ev = json!({"ev": "index", "ix": name, "segs": observe_index(&searcher, &b.fields, &vocab, merged_id)});
            if let Some((srcs, _)) = &b.merge {
                // certificate: the sources in the order in which the merged segment holds their documents
                let merged_docs: Vec<u64> = ev["segs"].as_array().unwrap().iter().find(|s| s.get("merged").is_some())
                    .map(|s| s["docs"].as_array().unwrap().iter().map(|x| x.as_u64().unwrap()).collect()).unwrap_or_default();
                let mut srcs = srcs.clone();
                srcs.sort_by_key(|src| src.iter().filter_map(|d| merged_docs.iter().position(|x| x == d)).min().unwrap_or(usize::MAX));
                ev["srcs"] = json!(srcs);
            }
            Ok((searcher, ev))
        }));
        match r {
            Ok(Ok((s, ev))) => {
                tracer.emit(ev);
                searchers.push((name.clone(), s, b.fields.clone()));
            }
            Ok(Err(e)) => {
                tracer.emit(json!({"ev": "error", "where": "open", "ix": name, "msg": e}));
                return;
            }
            Err(p) => {
                tracer.emit(json!({"ev": "panic", "where": "open", "ix": name, "msg": panic_msg(p)}));
                return;
            }
        }
    }
    for q in case["queries"].as_array().unwrap() {
        let mut runs = vec![];
        let mut failed = false;
        for (name, s, fields) in &searchers {
            let explain = explain_mode != "none";
            let no_tops: Vec<usize> = vec![];
            let ks_q = if avoid.contains("dismaxwand") && dismax_wand_class(q) { &no_tops } else { &ks };
            let r = std::panic::catch_unwind(std::panic::AssertUnwindSafe(|| run_query(s, fields, &vocab, q, ks_q, explain)));
            match r {
                Ok(Ok(mut v)) => {
                    v["ix"] = json!(name);
                    runs.push(v);
                }
                Ok(Err(e)) => {
                    tracer.emit(json!({"ev": "error", "where": "query", "ix": name, "q": query_json(q), "msg": e}));
                    failed = true;
                }
                Err(p) => {
                    tracer.emit(json!({"ev": "panic", "where": "query", "stage": STAGE.with(|c| c.get()), "ix": name, "q": query_json(q), "msg": panic_msg(p)}));
                    failed = true;
                }
            }
        }
        if !failed {
            tracer.emit(json!({"ev": "query", "q": query_json(q), "runs": runs}));
        }
    }
}

// ------------------------------------------------------------------------------------------
// seeded random cases (T direction)
// ------------------------------------------------------------------------------------------
fn pick<'a, T>(rng: &mut StdRng, xs: &'a [T]) -> &'a T {
    &xs[rng.random_range(0..xs.len())]
}

const BOOSTS: [f64; 8] = [2.0, 0.5, 1.5, 3.7, 0.1, 1.0, 10.0, 0.333];
const TIES: [f64; 5] = [0.0, 0.3, 0.7, 1.0, 0.1];
const CONSTS: [f64; 4] = [1.0, 0.42, 7.5, 2.0];

fn rand_leaf(rng: &mut StdRng, vocab: &[&str]) -> Value {
    if rng.random_range(0..4) == 0 {
        let n = if rng.random_range(0..4) == 0 { 3 } else { 2 };
        let ws: Vec<&str> = (0..n).map(|_| *pick(rng, vocab)).collect();
        json!({"k": "phrase", "ws": ws})
    } else if rng.random_range(0..3) == 0 {
        json!({"k": "term", "w": *pick(rng, vocab), "opt": "pos"})
    } else {
        json!({"k": "term", "w": *pick(rng, vocab)})
    }
}

/// avoid: "boost" = no boost nodes in the random queries.
fn rand_query(rng: &mut StdRng, vocab: &[&str], depth: u32, avoid: &str) -> Value {
    if depth == 0 {
        return rand_leaf(rng, vocab);
    }
    match rng.random_range(0..10) {
        0 | 1 => rand_leaf(rng, vocab),
        2 | 3 | 4 => {
            let n = rng.random_range(1..4);
            let cl: Vec<Value> = (0..n)
                .map(|i| {
                    let o = *pick(rng, &["should", "should", "must", "must", "mustnot"]);
                    let o = if i == 0 && o == "mustnot" { "must" } else { o };
                    json!({"o": o, "q": rand_query(rng, vocab, depth - 1, avoid)})
                })
                .collect();
            json!({"k": "bool", "cl": cl})
        }
        5 | 6 => {
            if avoid.contains("boost") {
                rand_query(rng, vocab, depth - 1, avoid)
            } else {
                json!({"k": "boost", "b": *pick(rng, &BOOSTS), "q": rand_query(rng, vocab, depth - 1, avoid)})
            }
        }
        7 => json!({"k": "const", "c": *pick(rng, &CONSTS), "q": rand_query(rng, vocab, depth - 1, avoid)}),
        _ => {
            let n = rng.random_range(1..4);
            let qs: Vec<Value> = (0..n).map(|_| rand_query(rng, vocab, depth - 1, avoid)).collect();
            json!({"k": "dismax", "tie": *pick(rng, &TIES), "qs": qs})
        }
    }
}

// ------------------------------------------------------------------------------------------
// steering around recorded findings (structural classes of queries, decided before execution)
// ------------------------------------------------------------------------------------------
/// may the scorer of this query be a bare TermScorer in some segment?  (a boolean / dis-max drops
/// clauses whose scorer is empty in the segment - e.g. a phrase with a word the segment lacks -
/// and hands out its only remaining scorer unwrapped)
fn may_yield_term_scorer(q: &Value) -> bool {
    match q["k"].as_str().unwrap_or("") {
        "term" => true,
        "boost" => may_yield_term_scorer(&q["q"]),
        "bool" => q["cl"].as_array().unwrap().iter().any(|c| c["o"] != "mustnot" && may_yield_term_scorer(&c["q"])),
        "dismax" => q["qs"].as_array().unwrap().iter().any(may_yield_term_scorer),
        _ => false,
    }
}
fn const_like(q: &Value) -> bool {
    match q["k"].as_str().unwrap_or("") {
        "const" => true,
        "boost" => const_like(&q["q"]),
        _ => false,
    }
}
/// class "dismaxwand" (conservative, decided on the query alone): a top-level dis-max with >= 2
/// disjuncts that may be bare term scorers and no disjunct that is certainly a non-term,
/// never-removed scorer (const-score).  When all remaining disjunct scorers of a segment are term
/// scorers TopDocs scores the query with block-WAND, which sums the disjuncts.
fn dismax_wand_class(q: &Value) -> bool {
    if q["k"] != "dismax" {
        return false;
    }
    let qs = q["qs"].as_array().unwrap();
    qs.iter().filter(|x| may_yield_term_scorer(x)).count() >= 2 && !qs.iter().any(const_like)
}
/// give every term / phrase leaf of a query a field
fn assign_fields(q: &mut Value, rng: &mut StdRng, fields: &[&str]) {
    match q["k"].as_str().unwrap_or("").to_string().as_str() {
        "term" | "phrase" => {
            q["f"] = json!(*pick(rng, fields));
        }
        "bool" => {
            for c in q["cl"].as_array_mut().unwrap() {
                assign_fields(&mut c["q"], rng, fields);
            }
        }
        "dismax" => {
            for x in q["qs"].as_array_mut().unwrap() {
                assign_fields(x, rng, fields);
            }
        }
        _ => assign_fields(&mut q["q"], rng, fields),
    }
}

/// three scored fields of very different lengths (different field-norm buckets): f1 of 0..4 tokens,
/// f2 padded to 30..300 tokens and more, f3 in between; conjunctions of terms of different fields
/// (TopDocs scores them through the block-max intersection) and random trees over all fields
fn make_multi_field(case: &mut Value, rng: &mut StdRng) {
    let vocab = ["a", "b", "c"];
    let fields = ["f1", "f2", "f3"];
    let docs: Vec<Value> = case["docs"].as_array().unwrap().iter().map(|d| {
        let n1 = rng.random_range(0..5);
        let f1: Vec<&str> = (0..n1).map(|_| *pick(rng, &vocab)).collect();
        let n3 = rng.random_range(0..7);
        let f3: Vec<&str> = (0..n3).map(|_| *pick(rng, &["a", "b", "b", "c", "c", "c"])).collect();
        let pad2 = d["pad"].as_u64().unwrap().max(rng.random_range(30..300));
        json!({"f1": {"toks": f1, "pad": 0}, "f2": {"toks": d["toks"], "pad": pad2}, "f3": {"toks": f3, "pad": rng.random_range(5..41)}})
    }).collect();
    case["docs"] = json!(docs);
    case["fields"] = json!(fields);
    let t = |f: &str, w: &str| json!({"k": "term", "w": w, "f": f});
    let must = |q: Value| json!({"o": "must", "q": q});
    let should = |q: Value| json!({"o": "should", "q": q});
    let (x, y, z) = (*pick(rng, &vocab), *pick(rng, &vocab), *pick(rng, &vocab));
    let mut qs = vec![
        json!({"k": "bool", "cl": [must(t("f1", x)), must(t("f2", y))]}),
        json!({"k": "bool", "cl": [must(t("f2", x)), must(t("f1", y)), must(t("f3", z))]}),
        json!({"k": "bool", "cl": [must(t("f3", y)), must(t("f1", x)), should(t("f2", z))]}),
        json!({"k": "boost", "b": *pick(rng, &BOOSTS), "q": {"k": "bool", "cl": [must(t("f2", z)), must(t("f1", x))]}}),
        json!({"k": "dismax", "tie": *pick(rng, &TIES), "qs": [t("f1", x), t("f2", x), {"k": "bool", "cl": [must(t("f3", y)), must(t("f1", z))]}]}),
    ];
    for q in case["queries"].as_array().unwrap().iter().take(7) {
        let mut q = q.clone();
        assign_fields(&mut q, rng, &fields);
        qs.push(q);
    }
    case["queries"] = json!(qs);
    case["ks"] = json!([1, 3, 10, 1000]);
}

fn rand_case(rng: &mut StdRng, tag: Value, avoid: &str, big: bool) -> Value {
    let vocab = ["a", "b", "c"];
    let nd = *pick(rng, &[1usize, 2, 3, 4, 5, 6, 8, 12, 20, 30]);
    // long pads hit the quantising buckets of the field-norm table; small ones the exact ones
    let pads: [u64; 24] = [0, 0, 0, 0, 0, 0, 1, 2, 7, 30, 36, 39, 40, 41, 43, 57, 100, 101, 255, 1000, 1023, 2500, 5000, 20000];
    let mut docs = vec![];
    for _ in 0..nd {
        let len = *pick(rng, &[0usize, 1, 1, 2, 2, 3, 3, 4, 5, 6, 8, 12]);
        let skew = rng.random_range(0..3);
        let toks: Vec<&str> = (0..len)
            .map(|_| match skew {
                0 => *pick(rng, &vocab),
                1 => *pick(rng, &["a", "a", "a", "b", "c"]),
                _ => *pick(rng, &["a", "b", "b", "b", "b", "c"]),
            })
            .collect();
        let pad = if big && rng.random_range(0..10) == 0 {
            // very long documents: higher buckets of the quantisation table (log-uniform 6k..300k)
            (6000.0 * 50f64.powf(rng.random_range(0.0..1.0))) as u64
        } else if rng.random_range(0..3) == 0 {
            rng.random_range(0..300u64)
        } else if rng.random_range(0..4) == 0 {
            // log-uniform 300..6000: the quantising buckets in between
            (300.0 * 20f64.powf(rng.random_range(0.0..1.0))) as u64
        } else {
            *pick(rng, &pads)
        };
        docs.push(json!({"toks": toks, "pad": pad}));
    }
    let mut cuts = vec![];
    let mut left = nd;
    while left > 0 {
        let c = rng.random_range(1..=left.min(1 + nd / 2));
        cuts.push(c);
        left -= c;
    }
    let mut dels = vec![];
    if rng.random_range(0..10) < 3 {
        for i in 1..=nd {
            if rng.random_range(0..4) == 0 {
                dels.push(i);
            }
        }
    }
    // which segments are merged afterwards: all of them, a strict subset of 2..4 (merged and unmerged
    // segments then coexist), or a single one (only purges its deletes)
    let nseg = cuts.len();
    let mut merge: Vec<usize> = vec![];
    if rng.random_range(0..10) < 9 {
        let r = rng.random_range(0..10);
        if r == 0 {
            merge.push(rng.random_range(1..=nseg));
        } else if r < 5 || nseg <= 2 {
            merge = (1..=nseg).collect();
        } else {
            let k = (*pick(rng, &[2usize, 3, 4])).min(nseg - 1);
            while merge.len() < k {
                let x = rng.random_range(1..=nseg);
                if !merge.contains(&x) {
                    merge.push(x);
                }
            }
            merge.sort();
        }
    }
    let nq = 10;
    let queries: Vec<Value> = (0..nq).map(|_| { let d = rng.random_range(0..4); rand_query(rng, &vocab, d, avoid) }).collect();
    let mut case = json!({"tag": tag, "filler": "z", "vocab": vocab, "docs": docs, "cuts": cuts, "dels": dels, "merge": merge, "queries": queries, "ks": [1, 3, 1000]});
    if rng.random_range(0..10) < 4 {
        make_multi_field(&mut case, rng);
    }
    case
}

fn main() {
    let a = Args::parse();
    let mode = a.pos.get(0).cloned().unwrap_or_default();
    let out = a.get("out", "/dev/stdout");
    let tracer = Tracer::to_file(&out);
    // panics of the code under test are caught and logged as events; keep stderr quiet
    std::panic::set_hook(Box::new(|_| {}));
    // the quantisation table, once, as a certificate (TLC checks id = largest i with tab[i] <= len)
    let tab: Vec<u32> = (0..=255u8).map(FieldNormReader::id_to_fieldnorm).collect();
    tracer.emit(json!({"ev": "table", "tab": tab}));
    let explain_mode = a.get("explain", "all");
    let avoid = a.get("avoid", "");
    match mode.as_str() {
        "random" => {
            let seed = a.num("seed", 1);
            let runs = a.num("runs", 10);
            let mut rng = StdRng::seed_from_u64(seed);
            for r in 0..runs {
                let case = rand_case(&mut rng, json!(format!("rand-{seed}-{r}")), &avoid, a.flag("bigpads"));
                run_case(&tracer, &case, &explain_mode, &avoid);
            }
        }
        "replay" => {
            let f = std::fs::File::open(a.get("in", "")).expect("open --in");
            for line in std::io::BufReader::new(f).lines() {
                let line = line.unwrap();
                if line.trim().is_empty() {
                    continue;
                }
                let case: Value = serde_json::from_str(&line).expect("case json");
                if case["big"].as_bool() == Some(true) {
                    run_big_case(&tracer, &case);
                } else {
                    run_case(&tracer, &case, &explain_mode, &avoid);
                }
            }
        }
        _ => {
            eprintln!("usage: bm25_driver random|replay --out trace.ndjson [--explain all|none] [--avoid boost,dismaxwand] [--seed N --runs N [--bigpads] | --in cases.ndjson]");
            std::process::exit(2);
        }
    }
    tracer.flush();
}
