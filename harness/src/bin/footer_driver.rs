//! C20 driver: footers and checksum validation, on a SimDir.  The driver computes no expected
//! value: it runs what it is told and records what happened; spec/FooterTrace.tla judges.
//!   footer_driver programs --in cases.ndjson --out trace.ndjson
//!       case: {"id":n,"max_write":k,"ops":[{"op":"write","n":8191},{"op":"flush"},...]}
//!       (terminate is implicit at the end). Byte i of the data is (i*131 + i/256 + 7) % 256.
//!   footer_driver versions --in cases.ndjson --out trace.ndjson
//!       case: {"id":n,"v":9,"body":12}     (file level)  or {"id":n,"v":9,"ext":"term"} (index level)
//!   footer_driver damage --seed S --indexes N --out trace.ndjson [--full 600] [--sample 200]
//!        [--big]   every bit of files up to --full bytes, stratified bits of larger ones,
//!        truncations, extensions, insertions, deletions, small multi-byte damage
use rand::prelude::*;
use serde_json::{json, Value};
use std::io::{BufRead, Write};
use std::panic::{catch_unwind, AssertUnwindSafe};
use std::path::{Path, PathBuf};
use tantivy::directory::error::OpenReadError;
use tantivy::directory::{Directory, ManagedDirectory, TerminatingWrite};
use tantivy::indexer::NoMergePolicy;
use tantivy::schema::*;
use tantivy::{Index, IndexWriter, TantivyDocument, TantivyError, Term};
use vh::simdir::SimDir;
use vh::trace::Tracer;
use vh::Args;

fn byte_at(i: usize) -> u8 {
    ((i * 131 + i / 256 + 7) % 256) as u8
}

fn sink_len(sim: &SimDir, p: &Path) -> usize {
    sim.st.lock().unwrap().fs.reg.get(p).map(|f| f.data.len()).unwrap_or(0)
}
fn file_bytes(sim: &SimDir, p: &Path) -> Vec<u8> {
    sim.st.lock().unwrap().fs.reg.get(p).map(|f| f.data.clone()).unwrap_or_default()
}
fn set_file(sim: &SimDir, p: &Path, data: Vec<u8>) {
    let mut g = sim.st.lock().unwrap();
    if let Some(f) = g.fs.reg.get_mut(p) {
        f.data = data;
    }
}
fn ints(b: &[u8]) -> Value {
    json!(b.iter().map(|x| *x as u32).collect::<Vec<u32>>())
}
fn panic_msg(e: Box<dyn std::any::Any + Send>) -> String {
    if let Some(s) = e.downcast_ref::<String>() {
        s.clone()
    } else if let Some(s) = e.downcast_ref::<&str>() {
        s.to_string()
    } else {
        "?".to_string()
    }
}

/// what the last 8 bytes and the payload of a file say (read with serde_json, like tantivy does)
fn footer_view(file: &[u8]) -> Value {
    if file.len() < 8 {
        return json!({"ok":false});
    }
    let n = file.len();
    let plen = u32::from_le_bytes([file[n - 8], file[n - 7], file[n - 6], file[n - 5]]) as usize;
    if n < 8 + plen {
        return json!({"ok":false});
    }
    let payload = &file[n - 8 - plen..n - 8];
    let v: Value = match serde_json::from_slice(payload) {
        Ok(v) => v,
        Err(_) => return json!({"ok":false}),
    };
    let crc = v.get("crc").and_then(|c| c.as_u64()).unwrap_or(u64::MAX);
    json!({"ok":true,"plen":plen,
           "fmt": v["version"]["index_format_version"],
           "crc16":[(crc >> 16) & 0xffff, crc & 0xffff], "crc_fits": crc <= u32::MAX as u64})
}

fn open_read_class(md: &ManagedDirectory, p: &Path) -> (String, Option<Vec<u8>>) {
    match catch_unwind(AssertUnwindSafe(|| md.open_read(p))) {
        Err(e) => (format!("panic:{}", panic_msg(e)), None),
        Ok(Ok(slice)) => match slice.read_bytes() {
            Ok(b) => ("ok".to_string(), Some(b.as_slice().to_vec())),
            Err(_) => ("err".to_string(), None),
        },
        Ok(Err(OpenReadError::IncompatibleIndex(_))) => ("incompatible".to_string(), None),
        Ok(Err(OpenReadError::FileDoesNotExist(_))) => ("missing".to_string(), None),
        Ok(Err(_)) => ("err".to_string(), None),
    }
}
fn validate_one(md: &ManagedDirectory, p: &Path) -> String {
    match catch_unwind(AssertUnwindSafe(|| md.validate_checksum(p))) {
        Err(e) => format!("panic:{}", panic_msg(e)),
        Ok(Ok(true)) => "ok".to_string(),
        Ok(Ok(false)) => "bad".to_string(),
        Ok(Err(_)) => "err".to_string(),
    }
}

// ------------------------------------------------------------------ write programs
fn run_program(tracer: &Tracer, case: &Value) {
    let sim = SimDir::new(tracer.clone());
    sim.set_quiet(true);
    let md = ManagedDirectory::wrap(Box::new(sim.clone())).expect("wrap");
    let p = PathBuf::from("prog.bin");
    let maxw = case["max_write"].as_u64().unwrap_or(0) as usize;
    tracer.emit(json!({"ev":"open","case":case["id"],"max_write":maxw}));
    let mut w = md.open_write(&p).expect("open_write");
    sim.st.lock().unwrap().max_write = maxw;
    let mut off = 0usize;
    for op in case["ops"].as_array().unwrap() {
        match op["op"].as_str().unwrap() {
            "write" => {
                let n = op["n"].as_u64().unwrap() as usize;
                let data: Vec<u8> = (off..off + n).map(byte_at).collect();
                let r = catch_unwind(AssertUnwindSafe(|| w.write_all(&data)));
                off += n;
                match r {
                    Ok(Ok(())) => tracer.emit(json!({"ev":"write","n":n,"sink":sink_len(&sim, &p)})),
                    Ok(Err(e)) => tracer.emit(json!({"ev":"write","n":n,"error":e.to_string()})),
                    Err(e) => tracer.emit(json!({"ev":"panic","in":"write","msg":panic_msg(e)})),
                };
            }
            "flush" => {
                let r = catch_unwind(AssertUnwindSafe(|| w.flush()));
                match r {
                    Ok(Ok(())) => tracer.emit(json!({"ev":"flush","sink":sink_len(&sim, &p)})),
                    Ok(Err(e)) => tracer.emit(json!({"ev":"flush","error":e.to_string()})),
                    Err(e) => tracer.emit(json!({"ev":"panic","in":"flush","msg":panic_msg(e)})),
                };
            }
            _ => panic!("unknown op"),
        }
    }
    let r = catch_unwind(AssertUnwindSafe(|| w.terminate()));
    sim.st.lock().unwrap().max_write = 0;
    match r {
        Ok(Ok(())) => {}
        Ok(Err(e)) => {
            tracer.emit(json!({"ev":"close","error":e.to_string()}));
            return;
        }
        Err(e) => {
            tracer.emit(json!({"ev":"panic","in":"terminate","msg":panic_msg(e)}));
            return;
        }
    }
    let file = file_bytes(&sim, &p);
    let (rc, rb) = open_read_class(&md, &p);
    tracer.emit(json!({"ev":"close","file":ints(&file),"footer":footer_view(&file),
        "read":rc,"read_bytes":rb.map(|b| ints(&b)),"validate":validate_one(&md, &p)}));
}

// ------------------------------------------------------------------ versions
fn patch_version(file: &[u8], v: u64) -> Vec<u8> {
    let n = file.len();
    let plen = u32::from_le_bytes([file[n - 8], file[n - 7], file[n - 6], file[n - 5]]) as usize;
    let body = &file[..n - 8 - plen];
    let mut pv: Value = serde_json::from_slice(&file[n - 8 - plen..n - 8]).expect("payload");
    pv["version"]["index_format_version"] = json!(v);
    let np = serde_json::to_vec(&pv).unwrap();
    let mut out = body.to_vec();
    out.extend_from_slice(&np);
    out.extend_from_slice(&(np.len() as u32).to_le_bytes());
    out.extend_from_slice(&file[n - 4..]);
    out
}

/// give canonical numbers to the segments in creation order (meta.json's order is a hash order)
fn note_segments(index: &Index, tracer: &Tracer) {
    for m in index.searchable_segment_metas().unwrap() {
        tracer.seg(&m.id().uuid_string());
    }
}

fn build_index(sim: &SimDir, rng: &mut StdRng, big: bool, may_merge: bool, tracer: &Tracer) -> (Index, usize) {
    let mut sb = Schema::builder();
    let idf = sb.add_u64_field("id", STORED | FAST | INDEXED);
    let text = sb.add_text_field("text", TEXT | STORED);
    let bf = sb.add_bytes_field("b", FAST | STORED);
    let index = Index::create(sim.clone(), sb.build(), tantivy::IndexSettings::default()).expect("create");
    let mut w: IndexWriter = index.writer_with_num_threads(1, 15_000_000).expect("writer");
    w.set_merge_policy(Box::new(NoMergePolicy));
    let nseg = rng.random_range(1..=3);
    let mut id = 0u64;
    for _ in 0..nseg {
        let nd = if big { rng.random_range(150..400) } else { rng.random_range((if may_merge { 1 } else { 2 })..=6) };
        for _ in 0..nd {
            let mut d = TantivyDocument::default();
            d.add_u64(idf, id);
            let nt = rng.random_range(0..(if big { 30 } else { 5 }));
            let t: Vec<String> = (0..nt).map(|_| format!("w{}", rng.random_range(0..(if big { 200 } else { 6 })))).collect();
            d.add_text(text, t.join(" "));
            if rng.random_bool(0.5) {
                let b: Vec<u8> = (0..rng.random_range(1..6)).map(|_| rng.random()).collect();
                d.add_bytes(bf, &b);
            }
            w.add_document(d).unwrap();
            id += 1;
        }
        w.commit().unwrap();
        note_segments(&index, tracer);
    }
    // deletes -> .del files
    if id > 1 {
        for _ in 0..rng.random_range(1..=2) {
            w.delete_term(Term::from_field_u64(idf, rng.random_range(0..id)));
        }
        w.commit().unwrap();
    }
    if may_merge && rng.random_bool(0.3) {
        let ids = index.searchable_segment_ids().unwrap();
        if ids.len() >= 2 {
            let _ = w.merge(&ids).wait();
        }
    }
    w.wait_merging_threads().unwrap();
    note_segments(&index, tracer);
    (index, id as usize)
}

/// files of the searchable segments, in the order of meta.json then by extension (deterministic;
/// canonical names are assigned in this order)
fn searchable_files(index: &Index, tracer: &Tracer) -> Vec<PathBuf> {
    let mut v: Vec<PathBuf> = vec![];
    let managed = index.directory().list_managed_files();
    let mut metas = index.searchable_segment_metas().unwrap();
    metas.sort_by_key(|m| tracer.seg(&m.id().uuid_string()));
    for m in metas {
        let mut fs: Vec<PathBuf> = m.list_files().into_iter().filter(|f| managed.contains(f)).collect();
        fs.sort_by_key(|f| f.to_string_lossy()[32..].to_string());
        for f in fs {
            tracer.path(&f);
            v.push(f);
        }
    }
    v
}

fn open_index_class(sim: &SimDir) -> Value {
    let r = catch_unwind(AssertUnwindSafe(|| -> Result<u64, TantivyError> {
        let index = Index::open(sim.clone())?;
        let reader: tantivy::IndexReader = index.reader_builder().reload_policy(tantivy::ReloadPolicy::Manual).try_into()?;
        let s = reader.searcher();
        Ok(s.segment_readers().iter().map(|r| r.num_docs() as u64).sum())
    }));
    match r {
        Err(e) => json!({"st":format!("panic:{}", panic_msg(e))}),
        Ok(Ok(n)) => json!({"st":"ok","ndocs":n}),
        Ok(Err(TantivyError::IncompatibleIndex(_))) => json!({"st":"incompatible"}),
        Ok(Err(TantivyError::OpenReadError(OpenReadError::IncompatibleIndex(_)))) => json!({"st":"incompatible"}),
        Ok(Err(e)) => json!({"st":"err","msg":e.to_string()}),
    }
}

fn run_version(tracer: &Tracer, case: &Value, rng: &mut StdRng) {
    let v = case["v"].as_u64().unwrap();
    if let Some(ext) = case.get("ext").and_then(|x| x.as_str()) {
        tracer.reset_canon();
        let sim = SimDir::new(tracer.clone());
        sim.set_quiet(true);
        let (index, _) = build_index(&sim, rng, false, false, tracer);
        let before = open_index_class(&sim);
        let files = searchable_files(&index, tracer);
        let Some(target) = files.iter().find(|p| p.to_string_lossy().ends_with(&format!(".{ext}"))) else {
            return;
        };
        let orig = file_bytes(&sim, target);
        set_file(&sim, target, patch_version(&orig, v));
        drop(index);
        let after = open_index_class(&sim);
        let md = ManagedDirectory::wrap(Box::new(sim.clone())).expect("wrap");
        let (rc, _) = open_read_class(&md, target);
        tracer.emit(json!({"ev":"ver_index","case":case["id"],"v":v,"f":tracer.path(target),"before":before,"after":after,
            "read":rc,"validate":validate_one(&md, target)}));
    } else {
        let sim = SimDir::new(tracer.clone());
        sim.set_quiet(true);
        let md = ManagedDirectory::wrap(Box::new(sim.clone())).expect("wrap");
        let p = PathBuf::from("ver.bin");
        let n = case["body"].as_u64().unwrap_or(10) as usize;
        let data: Vec<u8> = (0..n).map(byte_at).collect();
        let mut w = md.open_write(&p).unwrap();
        w.write_all(&data).unwrap();
        w.terminate().unwrap();
        let orig = file_bytes(&sim, &p);
        let patched = patch_version(&orig, v);
        set_file(&sim, &p, patched.clone());
        let (rc, rb) = open_read_class(&md, &p);
        tracer.emit(json!({"ev":"ver_file","case":case["id"],"v":v,"n":n,"footer":footer_view(&patched),
            "read":rc,"read_bytes":rb.map(|b| ints(&b)),"validate":validate_one(&md, &p)}));
    }
}

// ------------------------------------------------------------------ damage
struct Dmg<'a> {
    tracer: &'a Tracer,
    #[allow(dead_code)]
    sim: &'a SimDir,
    index: &'a Index,
    n: u64,
}

impl<'a> Dmg<'a> {
    /// run the validation on the current (damaged) state; returns (err, reported, one) or a panic message
    fn observe(&mut self, target: &Path) -> Result<(u8, Vec<String>, u8), String> {
        self.n += 1;
        let r = catch_unwind(AssertUnwindSafe(|| self.index.validate_checksum()));
        let (err, rep) = match r {
            Err(e) => return Err(format!("Index::validate_checksum: {}", panic_msg(e))),
            Ok(Ok(set)) => {
                let mut v: Vec<String> = set.iter().map(|p| self.tracer.path(p)).collect();
                v.sort();
                (0u8, v)
            }
            Ok(Err(_)) => (1u8, vec![]),
        };
        let one = match validate_one(self.index.directory(), target).as_str() {
            "ok" => 0u8,
            "bad" => 1,
            "err" => 2,
            other => return Err(format!("ManagedDirectory::validate_checksum: {other}")),
        };
        Ok((err, rep, one))
    }
}

fn damage_index(tracer: &Tracer, rng: &mut StdRng, idx_no: u64, big: bool, full: usize, sample: usize) -> u64 {
    tracer.reset_canon();
    let sim = SimDir::new(tracer.clone());
    sim.set_quiet(true);
    let (index, ndocs) = build_index(&sim, rng, big, true, tracer);
    let files = searchable_files(&index, tracer);
    if files.is_empty() {
        return 0;
    }
    let mut d = Dmg { tracer, sim: &sim, index: &index, n: 0 };
    let clean = d.observe(&files[0]);
    let finfo: Vec<Value> = files
        .iter()
        .map(|p| {
            let b = file_bytes(&sim, p);
            let n = b.len();
            json!({"f":tracer.path(p),"len":n,"tail":ints(&b[n.saturating_sub(8)..])})
        })
        .collect();
    let cl = |c: &Result<(u8, Vec<String>, u8), String>| match c {
        Ok((e, r, o)) => json!({"err":e,"rep":r,"one":o}),
        Err(m) => json!({"panic":m}),
    };
    tracer.emit(json!({"ev":"index","id":idx_no,"ndocs":ndocs,"files":finfo,"clean":cl(&clean)}));
    let base: u64 = rng.random();
    for (fno, p) in files.iter().enumerate() {
        let rng = &mut StdRng::seed_from_u64(base ^ (fno as u64).wrapping_mul(0x9E37_79B9_7F4A_7C15));
        let name = tracer.path(p);
        let orig = file_bytes(&sim, p);
        let n = orig.len();
        let plen = if n >= 8 { u32::from_le_bytes([orig[n - 8], orig[n - 7], orig[n - 6], orig[n - 5]]) as usize } else { 0 };
        let bodylen = n.saturating_sub(8 + plen);
        // positions: all, or the edges + the body/footer boundary + a stratified sample
        let positions: Vec<usize> = if n <= full {
            (0..n).collect()
        } else {
            let mut v: Vec<usize> = (0..32.min(n)).collect();
            v.extend(bodylen.saturating_sub(24)..n);
            let strata = sample.max(1);
            for s in 0..strata {
                let lo = 32 + (bodylen.saturating_sub(56)) * s / strata;
                let hi = 32 + (bodylen.saturating_sub(56)) * (s + 1) / strata;
                if hi > lo {
                    v.push(rng.random_range(lo..hi));
                }
            }
            v.sort();
            v.dedup();
            v
        };
        let mut group: Vec<Value> = vec![];
        let mut kind = "bit";
        macro_rules! flush_group {
            () => {
                if !group.is_empty() {
                    tracer.emit(json!({"ev":"dmg","f":name,"k":kind,"obs":group}));
                    group = vec![];
                }
            };
        }
        macro_rules! run {
            ($data:expr, $a:expr, $b:expr, $c:expr) => {{
                set_file(&sim, p, $data);
                match d.observe(p) {
                    Ok((e, r, o)) => group.push(json!([$a, $b, $c, e, r, o])),
                    Err(m) => {
                        flush_group!();
                        tracer.emit(json!({"ev":"panic","f":name,"k":kind,"a":$a,"b":$b,"c":$c,"msg":m}));
                    }
                }
                if group.len() >= 400 {
                    flush_group!();
                }
            }};
        }
        // single bit flips
        for &pos in &positions {
            for bit in 0..8u8 {
                let mut x = orig.clone();
                x[pos] ^= 1 << bit;
                run!(x, pos, bit, 0);
            }
        }
        flush_group!();
        kind = "byte";
        for &pos in &positions {
            for _ in 0..2 {
                let nv: u8 = rng.random();
                let mut x = orig.clone();
                x[pos] = nv;
                run!(x, pos, nv, orig[pos]);
            }
        }
        flush_group!();
        kind = "multi";
        for _ in 0..(if n <= full { 60 } else { sample / 2 + 20 }) {
            let k = rng.random_range(2..=8usize).min(n);
            let pos = rng.random_range(0..=n - k);
            let mut x = orig.clone();
            let nb: Vec<u8> = (0..k).map(|_| rng.random()).collect();
            x[pos..pos + k].copy_from_slice(&nb);
            run!(x, pos, ints(&nb), ints(&orig[pos..pos + k]));
        }
        flush_group!();
        kind = "trunc";
        let lens: Vec<usize> = if n <= full.max(4096) {
            (0..n).collect()
        } else {
            let mut v: Vec<usize> = (0..64).collect();
            v.extend(n - 256..n);
            for _ in 0..sample {
                v.push(rng.random_range(64..n - 256));
            }
            v.sort();
            v.dedup();
            v
        };
        for &l in &lens {
            run!(orig[..l].to_vec(), l, 0, 0);
        }
        flush_group!();
        kind = "append";
        for k in [1usize, 2, 3, 4, 7, 8, 9, 16, 64] {
            let mut x = orig.clone();
            x.extend((0..k).map(|_| rng.random::<u8>()));
            run!(x, k, 0, 0);
        }
        // appended zeros, and an appended copy of the file's own tail
        let mut x = orig.clone();
        x.extend(std::iter::repeat(0u8).take(8));
        run!(x, 8, 1, 0);
        flush_group!();
        kind = "insert";
        let mut ipos: Vec<usize> = vec![0, bodylen / 2, bodylen.saturating_sub(1), bodylen, (bodylen + 1).min(n), n.saturating_sub(8)];
        for _ in 0..8 {
            ipos.push(rng.random_range(0..=n));
        }
        for pos in ipos {
            for k in [1usize, 4] {
                let mut x = orig[..pos].to_vec();
                x.extend((0..k).map(|_| rng.random::<u8>()));
                x.extend_from_slice(&orig[pos..]);
                run!(x, pos, k, 0);
            }
        }
        flush_group!();
        kind = "delete";
        let mut dpos: Vec<usize> = vec![0, bodylen / 2, bodylen.saturating_sub(1), bodylen.saturating_sub(2)];
        for _ in 0..8 {
            dpos.push(rng.random_range(0..n));
        }
        for pos in dpos {
            for k in [1usize, 3] {
                if pos + k <= n {
                    let mut x = orig[..pos].to_vec();
                    x.extend_from_slice(&orig[pos + k..]);
                    run!(x, pos, k, 0);
                }
            }
        }
        flush_group!();
        set_file(&sim, p, orig);
    }
    let clean2 = d.observe(&files[0]);
    tracer.emit(json!({"ev":"index_end","id":idx_no,"clean":cl(&clean2),"n":d.n}));
    d.n
}

fn main() {
    let a = Args::parse();
    // panics of the code under test are caught and logged as events; anything else is reported
    std::panic::set_hook(Box::new(|info| {
        let s = info.to_string();
        if s.contains("footer_driver.rs") {
            eprintln!("{s}");
        }
    }));
    let mode = a.pos.get(0).cloned().unwrap_or_default();
    let tracer = Tracer::to_file(&a.get("out", "/dev/stdout"));
    let read_cases = || -> Vec<Value> {
        let f = std::fs::File::open(a.get("in", "")).expect("open --in");
        std::io::BufReader::new(f).lines().map(|l| l.unwrap()).filter(|l| !l.trim().is_empty()).map(|l| serde_json::from_str(&l).expect("case json")).collect()
    };
    match mode.as_str() {
        "programs" => {
            for c in read_cases() {
                run_program(&tracer, &c);
            }
        }
        "versions" => {
            let mut rng = StdRng::seed_from_u64(a.num("seed", 1));
            for c in read_cases() {
                run_version(&tracer, &c, &mut rng);
            }
        }
        "damage" => {
            let seed = a.num("seed", 1);
            let mut rng = StdRng::seed_from_u64(seed);
            let mut total = 0;
            for i in 0..a.num("indexes", 2) {
                total += damage_index(&tracer, &mut rng, i, a.flag("big"), a.num("full", 600) as usize, a.num("sample", 200) as usize);
            }
            eprintln!("damage: {total} damaged copies validated");
        }
        _ => {
            eprintln!("usage: footer_driver programs|versions|damage ...");
            std::process::exit(2);
        }
    }
    tracer.flush();
}
