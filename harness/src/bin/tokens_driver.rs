//! C19 driver: runs the real analyzer chains (tokenizers x filters) and the SnippetGenerator on
//! texts and records what they emitted; spec/TokensTrace.tla judges the record.  The driver never
//! computes an expected token or offset.
//!   tokens_driver run --in inputs.ndjson --out trace.ndjson
//! inputs: line 1 = {"chains":[{"tok":[kind,..],"filters":[[kind,..],..],"exact":bool},..]}
//!   [cp,..]                                             every chain on this text  -> ev "tok"
//!   {"sn":{"text":[cp..],"chain":i,"terms":[[cp..]..],"max":n}}   a snippet        -> ev "snip"
//!   {"big":{"runs":[[cp,n]..],"chain":i}}               a huge run-length text     -> ev "big"
//!   {"tk":{"text":[cp..],"chain":{chain}}}              one chain given in line    -> ev "tok1"
//! "chain" of a snippet may also be a chain object (a compound splitter whose dictionary was cut
//! out of the words of that text).
//! A panic of the code under test is recorded ("panic" in place of the observation).
use serde_json::{json, Value};
use std::collections::BTreeMap;
use std::io::{BufRead, Write};
use std::panic::{catch_unwind, AssertUnwindSafe};
use tantivy::schema::Field;
use tantivy::snippet::SnippetGenerator;
use tantivy::tokenizer::*;
use vh::Args;

fn text_of(v: &Value) -> String {
    v.as_array().unwrap().iter().map(|c| char::from_u32(c.as_u64().unwrap() as u32).unwrap()).collect()
}
fn cps(s: &str) -> Value {
    Value::Array(s.chars().map(|c| json!(c as u32)).collect())
}
fn panic_msg(e: Box<dyn std::any::Any + Send>) -> String {
    e.downcast_ref::<String>().cloned().or(e.downcast_ref::<&str>().map(|s| s.to_string())).unwrap_or_else(|| "?".into())
}

fn build_chain(c: &Value) -> TextAnalyzer {
    let tok = c["tok"].as_array().unwrap();
    let b = match tok[0].as_str().unwrap() {
        "raw" => TextAnalyzer::builder(RawTokenizer::default()).dynamic(),
        "whitespace" => TextAnalyzer::builder(WhitespaceTokenizer::default()).dynamic(),
        "simple" => TextAnalyzer::builder(SimpleTokenizer::default()).dynamic(),
        "ngram" => TextAnalyzer::builder(NgramTokenizer::new(tok[1].as_u64().unwrap() as usize, tok[2].as_u64().unwrap() as usize, tok[3].as_bool().unwrap()).unwrap()).dynamic(),
        "facet" => TextAnalyzer::builder(FacetTokenizer::default()).dynamic(),
        "regex" => TextAnalyzer::builder(RegexTokenizer::new(&text_of(&tok[1])).unwrap()).dynamic(),
        x => panic!("tokenizer {x}"),
    };
    let mut b = b;
    for f in c["filters"].as_array().unwrap() {
        let f = f.as_array().unwrap();
        b = match f[0].as_str().unwrap() {
            "lower" => b.filter_dynamic(LowerCaser),
            "asciifold" => b.filter_dynamic(AsciiFoldingFilter),
            "removelong" => b.filter_dynamic(RemoveLongFilter::limit(f[1].as_u64().unwrap() as usize)),
            "alphanum" => b.filter_dynamic(AlphaNumOnlyFilter),
            "stop" => b.filter_dynamic(StopWordFilter::remove(f[1].as_array().unwrap().iter().map(text_of))),
            "stemmer" => b.filter_dynamic(Stemmer::new(Language::English)),
            "splitcompound" => b.filter_dynamic(SplitCompoundWords::from_dictionary(f[1].as_array().unwrap().iter().map(text_of)).unwrap()),
            x => panic!("filter {x}"),
        };
    }
    b.build()
}

fn tokens(an: &mut TextAnalyzer, text: &str) -> Vec<Value> {
    let mut out = vec![];
    let mut st = an.token_stream(text);
    while st.advance() {
        let t = st.token();
        out.push(json!([t.offset_from, t.offset_to, t.position, cps(&t.text)]));
    }
    out
}

fn main() {
    std::panic::set_hook(Box::new(|_| {}));
    let a = Args::parse();
    if a.pos.get(0).map(|s| s.as_str()) != Some("run") {
        eprintln!("usage: tokens_driver run --in inputs.ndjson --out trace.ndjson");
        std::process::exit(2);
    }
    let f = std::fs::File::open(a.get("in", "")).expect("open --in");
    let mut out = std::io::BufWriter::new(std::fs::File::create(a.get("out", "")).unwrap());
    let mut lines = std::io::BufReader::new(f).lines();
    let header: Value = serde_json::from_str(&lines.next().unwrap().unwrap()).unwrap();
    let chains: Vec<Value> = header["chains"].as_array().unwrap().clone();
    let mut analyzers: Vec<TextAnalyzer> = chains.iter().map(build_chain).collect();
    writeln!(out, "{}", json!({"ev":"reset","chains":chains})).unwrap();
    for line in lines {
        let line = line.unwrap();
        if line.trim().is_empty() {
            continue;
        }
        let v: Value = serde_json::from_str(&line).expect("input json");
        if v.is_array() {
            let text = text_of(&v);
            let mut obs = vec![];
            for (i, an) in analyzers.iter_mut().enumerate() {
                match catch_unwind(AssertUnwindSafe(|| tokens(an, &text))) {
                    Ok(ts) => obs.push(json!([i + 1, ts])),
                    Err(e) => obs.push(json!([i + 1, "panic", panic_msg(e)])),
                }
            }
            writeln!(out, "{}", json!({"ev":"tok","text":v,"obs":obs})).unwrap();
        } else if let Some(sn) = v.get("sn") {
            let text = text_of(&sn["text"]);
            // the chain: an index into the header's chains, or a chain of its own
            let inline = sn["chain"].is_object();
            let chain_id: Value = sn["chain"].clone();
            let ci = chain_id.as_u64().unwrap_or(0) as usize;
            let base: TextAnalyzer = if inline { build_chain(&chain_id) } else { analyzers[ci - 1].clone() };
            let max = sn["max"].as_u64().unwrap() as usize;
            let terms: BTreeMap<String, f32> = sn["terms"].as_array().unwrap().iter().enumerate().map(|(i, t)| (text_of(t), 1.0 / (1.0 + i as f32))).collect();
            let an = base.clone();
            let r = catch_unwind(AssertUnwindSafe(|| {
                let g = SnippetGenerator::new(terms.clone(), an.clone(), Field::from_field_id(0), max);
                let s = g.snippet(&text);
                let frag = s.fragment().to_string();
                let hl: Vec<(usize, usize)> = s.highlighted().iter().map(|r| (r.start, r.end)).collect();
                let html = s.to_html();
                (frag, hl, html)
            }));
            match r {
                Ok((frag, hl, html)) => {
                    // what the chain yields on the text under each highlighted range (an observation:
                    // slicing at a non-boundary would panic - recorded as such)
                    let mut an2 = base.clone();
                    let hl_tokens: Vec<Value> = hl
                        .iter()
                        .map(|(f, t)| match catch_unwind(AssertUnwindSafe(|| frag[*f..*t].to_string())) {
                            Ok(slice) => match catch_unwind(AssertUnwindSafe(|| tokens(&mut an2, &slice))) {
                                Ok(ts) => Value::Array(ts.into_iter().map(|t| t[3].clone()).collect()),
                                Err(_) => json!("the analyzer panicked on the highlighted slice"),
                            },
                            Err(_) => json!("not a character boundary"),
                        })
                        .collect();
                    writeln!(out, "{}", json!({"ev":"snip","text":sn["text"],"chain":chain_id,"terms":sn["terms"],"max":max,
                        "fragment":cps(&frag),"highlighted":hl.iter().map(|(f, t)| json!([f, t])).collect::<Vec<_>>(),"html":cps(&html),"hl_tokens":hl_tokens})).unwrap();
                }
                Err(e) => {
                    writeln!(out, "{}", json!({"ev":"panic","op":"snippet","text":sn["text"],"chain":chain_id,"terms":sn["terms"],"max":max,"msg":panic_msg(e)})).unwrap();
                }
            }
        } else if let Some(tk) = v.get("tk") {
            let text = text_of(&tk["text"]);
            let mut an = build_chain(&tk["chain"]);
            match catch_unwind(AssertUnwindSafe(|| tokens(&mut an, &text))) {
                Ok(ts) => writeln!(out, "{}", json!({"ev":"tok1","text":tk["text"],"chain":tk["chain"],"tokens":ts})).unwrap(),
                Err(e) => writeln!(out, "{}", json!({"ev":"panic","op":"tokens","text":tk["text"],"chain":tk["chain"],"msg":panic_msg(e)})).unwrap(),
            }
        } else if let Some(big) = v.get("big") {
            let ci = big["chain"].as_u64().unwrap() as usize;
            let mut text = String::new();
            for r in big["runs"].as_array().unwrap() {
                let c = char::from_u32(r[0].as_u64().unwrap() as u32).unwrap();
                for _ in 0..r[1].as_u64().unwrap() {
                    text.push(c);
                }
            }
            let an = &mut analyzers[ci - 1];
            let r = catch_unwind(AssertUnwindSafe(|| {
                let mut n = 0u64;
                let mut toks = vec![];
                let mut st = an.token_stream(&text);
                while st.advance() {
                    let t = st.token();
                    n += 1;
                    if toks.len() < 400 {
                        // [from, to, position, byte length of the token text, its first and last code point]
                        toks.push(json!([t.offset_from, t.offset_to, t.position, t.text.len(),
                            t.text.chars().next().map(|c| c as i64).unwrap_or(-1), t.text.chars().last().map(|c| c as i64).unwrap_or(-1)]));
                    }
                }
                (n, toks)
            }));
            match r {
                Ok((n, toks)) => writeln!(out, "{}", json!({"ev":"big","runs":big["runs"],"chain":ci,"bytes":text.len(),"ntokens":n,"tokens":toks})).unwrap(),
                Err(e) => writeln!(out, "{}", json!({"ev":"panic","op":"big","runs":big["runs"],"chain":ci,"msg":panic_msg(e)})).unwrap(),
            }
        }
    }
    out.flush().unwrap();
}
