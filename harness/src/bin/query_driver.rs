//! C03: runs query trees through every collector path and records what came back.
//!   query_driver stripes --in cases.ndjson --out trace.ndjson --r 129 --segments 2 [--merge] [--deletes n]
//!       the abstract 8-document universe of spec/QuerySem.tla (document i = stripe of r real documents),
//!       queries enumerated by TLC (R direction); answers are logged as maximal intervals of ids
//!   query_driver random --seed S --docs N --queries Q --out trace.ndjson [--fixed file]
//!       random query trees on a rich corpus, several segmentations of the same documents (T direction)
//! The expected answer is computed by TLC (QuerySemTrace) from the logged corpus, never here.
#[path = "qlib/mod.rs"]
mod qlib;

use rand::prelude::*;
use serde_json::{json, Value};
use std::io::BufRead;
use std::panic::{catch_unwind, AssertUnwindSafe};
use tantivy::collector::{Collector, Count, DocSetCollector, FilterCollector, MultiCollector, SegmentCollector, TopDocs};
use tantivy::query::Query;
use tantivy::schema::Schema;
use tantivy::{DocAddress, Index, Order, Searcher, SegmentReader};
use vh::trace::Tracer;
use vh::Args;

fn panic_msg(e: Box<dyn std::any::Any + Send>) -> String {
    e.downcast_ref::<String>().cloned().or_else(|| e.downcast_ref::<&str>().map(|s| s.to_string())).unwrap_or_else(|| "panic".into())
}

/// scoring, non-pruning collector (Weight::for_each)
struct Scored;
struct ScoredSeg(u32, Vec<DocAddress>);
impl Collector for Scored {
    type Fruit = Vec<DocAddress>;
    type Child = ScoredSeg;
    fn for_segment(&self, ord: u32, _r: &SegmentReader) -> tantivy::Result<ScoredSeg> {
        Ok(ScoredSeg(ord, vec![]))
    }
    fn requires_scoring(&self) -> bool {
        true
    }
    fn merge_fruits(&self, f: Vec<Vec<DocAddress>>) -> tantivy::Result<Vec<DocAddress>> {
        Ok(f.into_iter().flatten().collect())
    }
}
impl SegmentCollector for ScoredSeg {
    type Fruit = Vec<DocAddress>;
    fn collect(&mut self, doc: u32, _score: f32) {
        self.1.push(DocAddress::new(self.0, doc));
    }
    fn harvest(self) -> Vec<DocAddress> {
        self.1
    }
}

struct Ids {
    cols: Vec<tantivy::columnar::Column<u64>>,
}
impl Ids {
    fn new(s: &Searcher) -> Ids {
        Ids { cols: s.segment_readers().iter().map(|r| r.fast_fields().u64("id").unwrap()).collect() }
    }
    fn of(&self, addrs: impl IntoIterator<Item = DocAddress>) -> Vec<u64> {
        let mut v: Vec<u64> = addrs.into_iter().map(|a| self.cols[a.segment_ord as usize].first(a.doc_id).unwrap_or(u64::MAX)).collect();
        v.sort();
        v
    }
}

/// lossless run-length form of a sorted id list: maximal [lo, hi] intervals (duplicates stay visible as [x,x],[x,x])
fn intervals(ids: &[u64]) -> Vec<[u64; 2]> {
    let mut out: Vec<[u64; 2]> = vec![];
    for &x in ids {
        match out.last_mut() {
            Some(l) if l[1] + 1 == x => l[1] = x,
            _ => out.push([x, x]),
        }
    }
    out
}

/// every collector path on one searcher
fn observe(s: &Searcher, q: &dyn Query, ndocs: usize, filter_ge: i64, rle: bool) -> tantivy::Result<Value> {
    let ids = Ids::new(s);
    let enc = |v: Vec<u64>| if rle { json!(intervals(&v)) } else { json!(v) };
    let count = s.search(q, &Count)?;
    let qcount = q.count(s)?;
    let docset = ids.of(s.search(q, &DocSetCollector)?);
    let top = ids.of(s.search(q, &TopDocs::with_limit(ndocs + 1).order_by_score())?.into_iter().map(|(_, a)| a));
    let topff = ids.of(s.search(q, &TopDocs::with_limit(ndocs + 1).order_by_u64_field("id", Order::Asc))?.into_iter().map(|(_, a)| a));
    let scored = ids.of(s.search(q, &Scored)?);
    let mut mc = MultiCollector::new();
    let hc = mc.add_collector(Count);
    let hd = mc.add_collector(DocSetCollector);
    let ht = mc.add_collector(TopDocs::with_limit(ndocs + 1).order_by_score());
    let mut fruits = s.search(q, &mc)?;
    let mcount = hc.extract(&mut fruits);
    let mdocset = ids.of(hd.extract(&mut fruits));
    let mtop = ids.of(ht.extract(&mut fruits).into_iter().map(|(_, a)| a));
    let fc = FilterCollector::new("num".to_string(), move |v: i64| v >= filter_ge, DocSetCollector);
    let filtered = ids.of(s.search(q, &fc)?);
    let fcount = s.search(q, &FilterCollector::new("num".to_string(), move |v: i64| v >= filter_ge, Count))?;
    Ok(json!({"count":count,"qcount":qcount,"docset":enc(docset),"top":enc(top),"topff":enc(topff),"scored":enc(scored),
              "mcount":mcount,"mdocset":enc(mdocset),"mtop":enc(mtop),"filter_ge":filter_ge,"filtered":enc(filtered),"fcount":fcount}))
}

fn guarded(tracer: &Tracer, qj: &Value, f: impl FnOnce() -> tantivy::Result<Value>) {
    match catch_unwind(AssertUnwindSafe(f)) {
        Ok(Ok(ev)) => {
            tracer.emit(ev);
        }
        Ok(Err(e)) => {
            tracer.emit(json!({"ev":"error","q":qj,"err":e.to_string()}));
        }
        Err(e) => {
            tracer.emit(json!({"ev":"panic","q":qj,"msg":panic_msg(e)}));
        }
    }
}

// ------------------------------------------------------------------------------------------ stripes
fn stripes(a: &Args, tracer: &Tracer) {
    let r = a.num("r", 1) as usize;
    let nseg = a.num("segments", 1) as usize;
    let ndel = a.num("deletes", 0) as usize;
    let seed = a.num("seed", 1);
    let mut rng = StdRng::seed_from_u64(seed);
    let schema = qlib::rich_schema();
    // the 8 abstract documents of QuerySem!ADocs, r real documents each
    let mut abs = vec![];
    let mut docs = vec![];
    for i in 0..8u64 {
        let mut title = vec![];
        if (i / 4) % 2 == 1 { title.push("ta"); }
        if (i / 2) % 2 == 1 { title.push("tb"); }
        if i % 2 == 1 { title.push("tc"); }
        let num = if i % 4 == 1 || i % 4 == 2 { 5 } else { 50 };
        abs.push(json!({"id":i,"title":title,"num":[num]}));
        for j in 0..r as u64 {
            docs.push(json!({"id": i * r as u64 + j, "title": title, "num": [num], "fl": [0]}));
        }
    }
    let n = docs.len();
    let mut cuts: Vec<usize> = (0..nseg.saturating_sub(1)).map(|_| rng.random_range(1..n.max(2))).collect();
    cuts.sort();
    let mut deleted: Vec<u64> = (0..ndel).map(|_| rng.random_range(0..n as u64)).collect();
    deleted.sort();
    deleted.dedup();
    let index = qlib::build_index(&schema, &docs, &cuts, &deleted, a.flag("merge")).expect("index");
    let s = index.reader().unwrap().searcher();
    tracer.emit(json!({"ev":"scorpus","docs":abs,"r":r,"deleted":deleted,"segments":s.segment_readers().len(),"cuts":cuts,"merged":a.flag("merge")}));
    let f = std::fs::File::open(a.get("in", "")).expect("open --in");
    for line in std::io::BufReader::new(f).lines() {
        let line = line.unwrap();
        if line.trim().is_empty() {
            continue;
        }
        let qj: Value = serde_json::from_str(&line).expect("query json");
        let q = match qlib::build_query(&schema, &qj) {
            Ok(q) => q,
            Err(e) => {
                eprintln!("query_driver: cannot build {qj}: {e}");
                std::process::exit(3);
            }
        };
        guarded(tracer, &qj, || {
            let res = observe(&s, &*q, n, 10, true)?;
            Ok(json!({"ev":"ssearch","q":qj,"res":res}))
        });
    }
}

// ------------------------------------------------------------------------------------------ random
fn corpus_event(docs: &[Value], deleted: &[u64]) -> Value {
    let mut words = std::collections::BTreeSet::new();
    let mut toks = std::collections::BTreeSet::new();
    for d in docs {
        for f in ["tag", "cat"] {
            if let Some(a) = d.get(f).and_then(|x| x.as_array()) {
                for w in a {
                    words.insert(w.to_string());
                }
            }
        }
        if let Some(a) = d.get("title").and_then(|x| x.as_array()) {
            for t in a {
                toks.insert(t.as_str().unwrap().to_string());
            }
        }
    }
    let words: Vec<Value> = words.into_iter().map(|w| serde_json::from_str(&w).unwrap()).collect();
    let mut tokmap = serde_json::Map::new();
    for t in toks {
        tokmap.insert(t.clone(), json!(t.bytes().collect::<Vec<u8>>()));
    }
    json!({"ev":"corpus","docs":docs,"deleted":deleted,"words":words,"tok":tokmap})
}

fn annotate_prefix(q: &mut Value) {
    // the letters of a phrase-prefix (strings cannot be indexed in TLA+)
    match q["k"].as_str().unwrap_or("") {
        "pprefix" => {
            let p = q["ts"].as_array().unwrap().last().unwrap().as_str().unwrap().to_string();
            q["pc"] = json!(p.bytes().collect::<Vec<u8>>());
        }
        "bool" => {
            for c in q["cl"].as_array_mut().unwrap() {
                annotate_prefix(&mut c["q"]);
            }
        }
        "dismax" => {
            for x in q["qs"].as_array_mut().unwrap() {
                annotate_prefix(x);
            }
        }
        "boost" | "const" => annotate_prefix(&mut q["q"]),
        _ => {}
    }
}

fn random(a: &Args, tracer: &Tracer) {
    let seed = a.num("seed", 1);
    let ndocs = a.num("docs", 2000) as usize;
    let nq = a.num("queries", 100) as usize;
    let depth = a.num("depth", 2) as u32;
    let mut rng = StdRng::seed_from_u64(seed);
    let schema: Schema = qlib::rich_schema();
    let docs = qlib::gen_corpus(&mut rng, ndocs, a.flag("dense"));
    let deleted: Vec<u64> = {
        let mut d: Vec<u64> = (0..ndocs / 15).map(|_| rng.random_range(0..ndocs as u64)).collect();
        d.sort();
        d.dedup();
        d
    };
    // several segmentations of the same documents
    let mut indexes: Vec<(Index, Value)> = vec![];
    let nidx = a.num("indexes", 3) as usize;
    for k in 0..nidx {
        let nseg = match k { 0 => rng.random_range(2..6), 1 => 1, _ => rng.random_range(2..8) };
        let mut cuts: Vec<usize> = (0..nseg - 1).map(|_| rng.random_range(1..ndocs)).collect();
        if k == 2 && ndocs > 10 {
            cuts.push(1); // a single-document segment
        }
        cuts.sort();
        cuts.dedup();
        let merge = k == 2 && rng.random_bool(0.5);
        let idx = qlib::build_index(&schema, &docs, &cuts, &deleted, merge).expect("index");
        indexes.push((idx, json!({"cuts":cuts,"merged":merge})));
    }
    let searchers: Vec<Searcher> = indexes.iter().map(|(i, _)| i.reader().unwrap().searcher()).collect();
    tracer.emit(corpus_event(&docs, &deleted));
    tracer.emit(json!({"ev":"info","indexes":indexes.iter().map(|(_, j)| j.clone()).collect::<Vec<_>>(),
                       "segments":searchers.iter().map(|s| s.segment_readers().len()).collect::<Vec<_>>()}));
    let fixed: Vec<Value> = match a.kv.get("fixed") {
        Some(p) => std::io::BufReader::new(std::fs::File::open(p).expect("open --fixed")).lines()
            .map(|l| l.unwrap()).filter(|l| !l.trim().is_empty()).map(|l| serde_json::from_str(&l).expect("fixed query")).collect(),
        None => vec![],
    };
    let mut opts = qlib::GenOpts::all(depth);
    opts.avoid_single_should_msm = false;
    let total = if fixed.is_empty() { nq } else { fixed.len() };
    for qi in 0..total {
        let mut qj = if !fixed.is_empty() {
            fixed[qi].clone()
        } else if rng.random_bool(0.07) {
            // a top-level phrase of three terms with slop: judged by the two documented bounds and by the independence of the
            // answer from the collector and from scoring (Count / Query::count / DocSetCollector do not score)
            let mut ws = vec!["t0", "t1", "t2", "t3", "all"];
            ws.shuffle(&mut rng);
            json!({"k":"phrase","f":"title","ts":ws[..3],"slop":rng.random_range(1..3)})
        } else {
            qlib::gen_query(&mut rng, depth, &opts)
        };
        annotate_prefix(&mut qj);
        let q = match qlib::build_query(&schema, &qj) {
            Ok(q) => q,
            Err(e) => {
                tracer.emit(json!({"ev":"info","skipped":qj,"why":e}));
                continue;
            }
        };
        let filter_ge = rng.random_range(-3..25i64);
        guarded(tracer, &qj, || {
            let mut res = vec![];
            for s in &searchers {
                res.push(observe(s, &*q, ndocs, filter_ge, false)?);
            }
            Ok(json!({"ev":"search","qi":qi,"q":qj,"res":res}))
        });
    }
}

fn main() {
    if std::env::var("VERIF_PANIC_TRACE").is_err() {
        std::panic::set_hook(Box::new(|_| {}));
    }
    let a = Args::parse();
    let tracer = Tracer::to_file(&a.get("out", "/dev/stdout"));
    tracer.emit(json!({"ev":"reset"}));
    match a.pos.first().map(|s| s.as_str()).unwrap_or("") {
        "stripes" => stripes(&a, &tracer),
        "random" => random(&a, &tracer),
        _ => {
            eprintln!("usage: query_driver stripes|random ...");
            std::process::exit(2);
        }
    }
    tracer.emit(json!({"ev":"end"}));
    tracer.flush();
}
