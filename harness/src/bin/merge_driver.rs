//! C04: every merge as a translation from its inputs to its output, and merges pre-empted
//! relative to deletes / commits / rollbacks.
//!   merge_driver tv --seed S --runs N --out trace.ndjson
//!       builds an index with several segments (deletes, multi-token text, optional sort),
//!       dumps every source segment canonically, merges explicitly, dumps the merged segment.
//!   merge_driver gated --seed S --runs N --out trace.ndjson
//!       parks the merge thread at its first file creation while the user thread deletes and
//!       commits (end_merge reconciliation), rolls back, or deletes everything.
use rand::prelude::*;
use serde_json::{json, Value};
use std::sync::{Arc, Condvar, Mutex};
use std::time::Duration;
use tantivy::postings::Postings;
use tantivy::schema::{IndexRecordOption, Value as TValue};
use tantivy::{DocSet, Index, SegmentReader, TantivyDocument, TERMINATED};
use vh::core::{install_sink, Cfg, World};
use vh::simdir::{quietly, OpInfo};
use vh::trace::Tracer;
use vh::Args;

fn pick<T: Clone>(rng: &mut StdRng, xs: &[T]) -> T {
    xs[rng.random_range(0..xs.len())].clone()
}

/// canonical logical dump of one segment
fn dump_segment(sr: &SegmentReader, tracer: &Tracer) -> Result<Value, String> {
    let schema = sr.schema().clone();
    let idf = schema.get_field("id").unwrap();
    let tf = schema.get_field("t").unwrap();
    let vf = schema.get_field("v").unwrap();
    let bf = schema.get_field("body").unwrap();
    let max_doc = sr.max_doc();
    let store = sr.get_store_reader(1).map_err(|e| format!("store: {e}"))?;
    let idcol = sr.fast_fields().u64("id").map_err(|e| format!("{e:?}"))?;
    let vcol = sr.fast_fields().i64("v").map_err(|e| format!("{e:?}"))?;
    // invert the postings of the text fields: per doc, per field: [[term, [positions]]...]
    let mut toks: Vec<Vec<Vec<Value>>> = vec![vec![vec![], vec![]]; max_doc as usize];
    let mut terms_out = vec![];
    for (fi, (field, with_pos)) in [(tf, false), (bf, true)].iter().enumerate() {
        let inv = sr.inverted_index(*field).map_err(|e| format!("{e:?}"))?;
        let mut stream = inv.terms().stream().map_err(|e| format!("{e:?}"))?;
        let mut tlist = vec![];
        while stream.advance() {
            let key = stream.key().to_vec();
            let term_str = String::from_utf8_lossy(&key).to_string();
            let ti = stream.value().clone();
            let opt = if *with_pos { IndexRecordOption::WithFreqsAndPositions } else { IndexRecordOption::Basic };
            let mut p = inv.read_postings_from_terminfo(&ti, opt).map_err(|e| format!("{e:?}"))?;
            let mut n_alive = 0u32;
            let mut d = p.doc();
            while d != TERMINATED {
                let mut pos = vec![];
                if *with_pos {
                    p.positions(&mut pos);
                }
                toks[d as usize][fi].push(json!([term_str, p.term_freq(), pos]));
                if !sr.is_deleted(d) {
                    n_alive += 1;
                }
                d = p.advance();
            }
            tlist.push(json!([term_str, key, ti.doc_freq, n_alive]));
        }
        terms_out.push(tlist);
    }
    let fn_t = sr.get_fieldnorms_reader(tf).map_err(|e| format!("{e:?}"))?;
    let fn_b = sr.get_fieldnorms_reader(bf).map_err(|e| format!("{e:?}"))?;
    let mut docs = vec![];
    for d in 0..max_doc {
        let doc: TantivyDocument = store.get(d).map_err(|e| format!("doc {d}: {e:?}"))?;
        let id = doc.get_first(idf).and_then(|v| v.as_u64()).unwrap_or(0);
        let t = doc.get_first(tf).and_then(|v| v.as_str().map(|s| s.to_string())).unwrap_or_default();
        let v = doc.get_first(vf).and_then(|v| v.as_i64()).unwrap_or(0);
        let body = doc.get_first(bf).and_then(|v| v.as_str().map(|s| s.to_string())).unwrap_or_default();
        let fid: Vec<u64> = idcol.values_for_doc(d).collect();
        let fv: Vec<i64> = vcol.values_for_doc(d).collect();
        let rec = json!({"id":id,"stored":[id, t, v, body],"fast":[fid, fv],"norm":[fn_t.fieldnorm_id(d), fn_b.fieldnorm_id(d)],
                         "toks_t":toks[d as usize][0],"toks_body":toks[d as usize][1]});
        docs.push(json!({"alive": !sr.is_deleted(d), "v": v, "rec": rec}));
    }
    Ok(json!({"sid": tracer.seg(&sr.segment_id().uuid_string()), "max_doc": max_doc, "ndel": sr.num_deleted_docs(),
              "docs": docs, "terms_t": terms_out[0], "terms_body": terms_out[1]}))
}

fn dump_all(index: &Index, tracer: &Tracer) -> Result<Vec<Value>, String> {
    quietly(|| {
        let reader = index.reader_builder().reload_policy(tantivy::ReloadPolicy::Manual).try_into().map_err(|e: tantivy::TantivyError| format!("{e:?}"))?;
        let reader: tantivy::IndexReader = reader;
        let s = reader.searcher();
        let mut out = vec![];
        for sr in s.segment_readers() {
            out.push(dump_segment(sr, tracer)?);
        }
        Ok(out)
    })
}

fn run_tv(tracer: &Tracer, rng: &mut StdRng, tag: Value) {
    tracer.reset_canon();
    let mut cfg = Cfg::default();
    cfg.threads = 1;
    cfg.flush_after = pick(rng, &[1u32, 2, 3, 5, 40]);
    cfg.merge = "none".into();
    cfg.sorted = pick(rng, &["", "", "v_asc", "v_desc"]).to_string();
    cfg.blocksize = pick(rng, &[0usize, 64, 512]);
    tracer.emit(json!({"ev":"reset","cfg":cfg.to_json(),"tag":tag}));
    let mut w = World::new_quiet(tracer, &cfg, true);
    install_sink(tracer, w.regs.clone(), None);
    w.exec(&json!({"op":"new_writer"}));
    let terms = ["a", "b", "c", "dd"];
    let nseg_docs = rng.random_range(2..40u64);
    let mut id = 0u64;
    for _ in 0..nseg_docs {
        id += 1;
        w.exec(&json!({"op":"add","id":id,"t":pick(rng, &terms),"v":rng.random_range(-5..12)}));
        if rng.random_bool(0.08) {
            w.exec(&json!({"op":"commit"}));
        }
    }
    w.exec(&json!({"op":"commit"}));
    // deletes (sometimes everything of a term, sometimes single ids), committed
    let ndel = pick(rng, &[0usize, 0, 1, 2, 5]);
    for _ in 0..ndel {
        if rng.random_bool(0.5) {
            w.exec(&json!({"op":"del","pred":{"k":"term","t":pick(rng, &terms)}}));
        } else {
            w.exec(&json!({"op":"del","pred":{"k":"id","id":rng.random_range(1..=id)}}));
        }
    }
    if ndel > 0 {
        w.exec(&json!({"op":"commit"}));
    }
    let sources = match dump_all(&w.index, tracer) {
        Ok(v) => v,
        Err(e) => {
            tracer.emit(json!({"ev":"merge_tv","ok":false,"err":e}));
            return;
        }
    };
    if sources.is_empty() {
        w.exec(&json!({"op":"wait_merges"}));
        tantivy::verif::set_sink(None);
        tracer.emit(json!({"ev":"end","listing":w.dir.listing(),"locks":w.dir.lock_files()}));
        return;
    }
    // choose 1..5 source segments
    let mut sids: Vec<u64> = sources.iter().map(|s| s["sid"].as_u64().unwrap()).collect();
    sids.shuffle(rng);
    let k = rng.random_range(1..=sids.len().min(5));
    sids.truncate(k);
    let ev = w.exec(&json!({"op":"merge","sids":sids}));
    let after = dump_all(&w.index, tracer);
    let merged_sid = ev.get("res").and_then(|r| r.as_u64());
    // sources in the order the merge operation used = the order given to IndexWriter::merge
    let used: Vec<u64> = ev["sids"].as_array().map(|a| a.iter().filter_map(|x| x.as_u64()).collect()).unwrap_or_default();
    let src: Vec<Value> = used.iter().filter_map(|sid| sources.iter().find(|s| s["sid"].as_u64() == Some(*sid)).cloned()).collect();
    match after {
        Ok(segs) => {
            let merged = merged_sid.and_then(|m| segs.iter().find(|s| s["sid"].as_u64() == Some(m)).cloned());
            let others: Vec<u64> = segs.iter().map(|s| s["sid"].as_u64().unwrap()).filter(|s| Some(*s) != merged_sid).collect();
            tracer.emit(json!({"ev":"merge_tv","ok":ev["ok"],"sorted":cfg.sorted,"blocksize":cfg.blocksize,"sources":src,"merged":merged,
                               "untouched":others,"all_before":sources.iter().map(|s| s["sid"].clone()).collect::<Vec<_>>()}));
        }
        Err(e) => {
            tracer.emit(json!({"ev":"merge_tv","ok":false,"err":e}));
        }
    }
    w.exec(&json!({"op":"wait_merges"}));
    tantivy::verif::set_sink(None);
    tracer.emit(json!({"ev":"end","listing":w.dir.listing(),"locks":w.dir.lock_files()}));
}

struct Gate {
    parked: bool,
    release: bool,
    armed: bool,
    /// second park point (drop_during_merge_reload): the user thread right after it read .managed.json
    armed2: bool,
    parked2: bool,
    zombie_created: u32,
}

/// the merge thread is parked at its first `open_write` (after it advanced the deletes of its
/// sources to the target opstamp) while the user thread runs `during`; then it is released.
fn run_gated(tracer: &Tracer, rng: &mut StdRng, scenario: &str, tag: Value) {
    tracer.reset_canon();
    let mut cfg = Cfg::default();
    cfg.threads = 1;
    cfg.flush_after = pick(rng, &[1u32, 2]);
    if scenario == "uncommitted_delete_commit" {
        cfg.flush_after = 2; // two documents per segment: a source that loses one of them survives the commit
    }
    // the sources already have delete files when the merge starts; the merge thread is parked BEFORE it
    // opens them, while a commit gives the same segment a newer delete file and collects garbage: the
    // older delete file belongs to the segment metas the merge holds and has to survive
    let predeleted = scenario == "predeleted_delete_commit";
    if predeleted {
        cfg.flush_after = 3;
    }
    cfg.merge = "none".into();
    tracer.emit(json!({"ev":"reset","cfg":cfg.to_json(),"tag":tag}));
    let mut w = World::new_quiet(tracer, &cfg, true);
    install_sink(tracer, w.regs.clone(), None);
    w.exec(&json!({"op":"new_writer"}));
    let n0 = if scenario == "uncommitted_delete_commit" { 4 } else if predeleted { rng.random_range(6..10u64) } else { rng.random_range(3..8u64) };
    for id in 1..=n0 {
        w.exec(&json!({"op":"add","id":id,"t":pick(rng, &["a","b"]),"v":id as i64}));
    }
    w.exec(&json!({"op":"commit"}));
    if predeleted {
        w.exec(&json!({"op":"del","pred":{"k":"id","id":1}}));
        w.exec(&json!({"op":"del","pred":{"k":"id","id":4}}));
        w.exec(&json!({"op":"commit"}));
    }
    let st = Arc::new((Mutex::new(Gate { parked: false, release: false, armed: true, armed2: false, parked2: false, zombie_created: 0 }), Condvar::new()));
    let st2 = st.clone();
    // stale_end_merge parks the UPDATER thread inside the end_merge task, right before it replaces
    // meta.json; every other scenario parks the merge thread at its first open_write
    let stale = scenario == "stale_end_merge";
    w.dir.set_gate(Some(Arc::new(move |op: &OpInfo, after: bool| {
        // drop_during_merge_reload: the new writer's creation reads .managed.json; the user thread is parked
        // right after that read, the merge thread of the dropped writer is released and registers / creates
        // the files of its merged segment meanwhile
        if op.role == "main" && op.op == "atomic_read" && op.path == ".managed.json" && after {
            let (m, cv) = &*st2;
            let mut g = m.lock().unwrap();
            if g.armed2 {
                g.armed2 = false;
                g.parked2 = true;
                g.release = true;
                cv.notify_all();
                let t0 = std::time::Instant::now();
                while g.zombie_created < 2 && t0.elapsed() < Duration::from_millis(300) {
                    let (g2, _) = cv.wait_timeout(g, Duration::from_millis(10)).unwrap();
                    g = g2;
                }
            }
            return;
        }
        if op.role == "merge" && op.op == "open_write" && after {
            let (m, cv) = &*st2;
            let mut g = m.lock().unwrap();
            if g.parked2 {
                g.zombie_created += 1;
                cv.notify_all();
            }
        }
        let here = if stale {
            op.role == "updater" && op.op == "atomic_write" && op.path == "meta.json" && !after
        } else if predeleted {
            op.role == "merge" && op.op == "open_read" && !after
        } else {
            op.role == "merge" && op.op == "open_write" && !after
        };
        if here {
            let (m, cv) = &*st2;
            let mut g = m.lock().unwrap();
            if g.armed {
                g.armed = false;
                g.parked = true;
                cv.notify_all();
                let t0 = std::time::Instant::now();
                // (with kill() waiting for the running task, the stale scenario ends by this time-out)
                while !g.release && t0.elapsed() < if stale { Duration::from_millis(1200) } else { Duration::from_secs(5) } {
                    let (g2, _) = cv.wait_timeout(g, Duration::from_millis(50)).unwrap();
                    g = g2;
                }
            }
        }
    })));
    if scenario == "fresh_writer_delete" {
        // the first operation after a rollback / re-open is an uncommitted delete: a merge of the
        // committed segments must not apply it (the repaired defect F0)
        if rng.random_bool(0.5) {
            w.exec(&json!({"op":"rollback"}));
        } else {
            w.exec(&json!({"op":"drop_writer"}));
            w.exec(&json!({"op":"new_writer"}));
        }
        w.exec(&json!({"op":"del","pred":{"k":"term","t":pick(rng, &["a","b"])}}));
    }
    if scenario == "uncommitted_delete_commit" {
        // segments of the transaction in progress: the merge is one of UNCOMMITTED segments, overtaken
        // by a commit that deletes from them - the merged segment must catch up with that delete
        for id in (n0 + 1)..=(n0 + 4) {
            w.exec(&json!({"op":"add","id":id,"t":pick(rng, &["a","b"]),"v":id as i64}));
        }
        w.exec(&json!({"op":"wait_uncommitted","n":2,"docs":4}));
    }
    // start the merge without waiting for it
    let ids = if scenario == "uncommitted_delete_commit" {
        let uuids: Vec<String> = w.regs.lock().unwrap().0.clone();
        uuids.iter().filter_map(|u| tantivy::index::SegmentId::from_uuid_string(u).ok()).collect()
    } else {
        w.index.searchable_segment_ids().unwrap_or_default()
    };
    let mut fut = w.writer.as_mut().map(|wr| wr.merge(&ids));
    let canon_sids: Vec<usize> = ids.iter().map(|id| tracer.seg(&id.uuid_string())).collect();
    tracer.emit(json!({"ev":"merge_started","n":ids.len(),"sids":canon_sids}));
    {
        let (m, cv) = &*st;
        let mut g = m.lock().unwrap();
        let t0 = std::time::Instant::now();
        while !g.parked && t0.elapsed() < Duration::from_secs(3) {
            let (g2, _) = cv.wait_timeout(g, Duration::from_millis(20)).unwrap();
            g = g2;
        }
    }
    let realised = st.0.lock().unwrap().parked;
    if scenario == "wait_with_intruder" {
        // the user thread waits for the (parked) merge inside wait_merging_threads while another
        // thread tries to create a writer through a second Index instance: the lock must hold
        let dir2 = w.dir.clone();
        let tr = tracer.clone();
        let stop = Arc::new(std::sync::atomic::AtomicBool::new(false));
        let stop2 = stop.clone();
        let st3 = st.clone();
        let intruder = std::thread::Builder::new().name("intruder".into()).spawn(move || {
            let index2 = match vh::simdir::quietly(|| Index::open(dir2.clone())) {
                Ok(i) => i,
                Err(_) => return,
            };
            let mut attempts = 0;
            while !stop2.load(std::sync::atomic::Ordering::SeqCst) && attempts < 40 {
                attempts += 1;
                let r: tantivy::Result<tantivy::IndexWriter> = index2.writer_with_num_threads(1, 15_000_000);
                let ok = r.is_ok();
                tr.emit(json!({"ev":"intruder_create","ok":ok,"attempt":attempts}));
                drop(r);
                if ok {
                    break;
                }
                std::thread::sleep(Duration::from_millis(5));
            }
            // let the merge go on
            let (m, cv) = &*st3;
            m.lock().unwrap().release = true;
            cv.notify_all();
        }).unwrap();
        drop(fut);
        w.exec(&json!({"op":"wait_merges"}));
        stop.store(true, std::sync::atomic::Ordering::SeqCst);
        let _ = intruder.join();
        w.dir.set_gate(None);
        tracer.emit(json!({"ev":"schedule","name":"writer creation attempts during wait_merging_threads with a parked merge","realised":realised}));
        w.exec(&json!({"op":"observe"}));
        tantivy::verif::set_sink(None);
        tracer.emit(json!({"ev":"end","listing":w.dir.listing(),"locks":w.dir.lock_files()}));
        return;
    }
    match scenario {
        "delete_commit" | "delete_commit_fault" => {
            if scenario == "delete_commit_fault" {
                w.exec(&json!({"op":"del","pred":{"k":"id","id":1}}));      // certainly hits a merged document
            }
            w.exec(&json!({"op":"del","pred":{"k":"term","t":"a"}}));
            w.exec(&json!({"op":"add","id":n0 + 1,"t":"a","v":0}));
            w.exec(&json!({"op":"commit"}));
            if scenario == "delete_commit_fault" {
                // the merge now has to catch up with the committed delete: the creation of the merged
                // segment's delete file fails -> the merge must be discarded, nothing published
                let now = w.dir.opcount();
                w.dir.set_fault(vh::simdir::FaultPlan { k: now + 1, ops: vec!["open_write".into()], only_suffix: ".del".into(), skip_locks: true, ..Default::default() });
            }
        }
        "rollback" => {
            w.exec(&json!({"op":"add","id":n0 + 1,"t":"c","v":0}));
            w.exec(&json!({"op":"rollback"}));
        }
        "delete_all_commit" => {
            w.exec(&json!({"op":"delete_all"}));
            w.exec(&json!({"op":"add","id":n0 + 1,"t":"b","v":0}));
            w.exec(&json!({"op":"commit"}));
        }
        "fresh_writer_delete" => {
            w.exec(&json!({"op":"add","id":n0 + 1,"t":"c","v":0}));
        }
        "drop_during_merge" => {
            // the writer is dropped while its merge thread is still inside merge(): the directory lock
            // goes with the writer object, a new writer can be created at once (C18)
            drop(fut.take());
            w.exec(&json!({"op":"drop_writer"}));
            w.exec(&json!({"op":"new_writer"}));
            w.exec(&json!({"op":"add","id":n0 + 1,"t":"c","v":0}));
            w.exec(&json!({"op":"commit"}));
        }
        "drop_during_merge_reload" => {
            // as drop_during_merge, but the merge thread goes on while the NEW writer is being created: it
            // registers the files of its merged segment right after the new writer read the managed list
            drop(fut.take());
            w.exec(&json!({"op":"drop_writer"}));
            st.0.lock().unwrap().armed2 = true;
            w.exec(&json!({"op":"new_writer"}));
            w.exec(&json!({"op":"add","id":n0 + 1,"t":"c","v":0}));
            w.exec(&json!({"op":"commit"}));
            // let the merge thread of the dropped writer finish (its result is discarded)
            let mut last = w.dir.opcount();
            let mut stable = 0;
            let t0 = std::time::Instant::now();
            while stable < 10 && t0.elapsed() < Duration::from_secs(3) {
                std::thread::sleep(Duration::from_millis(10));
                let now = w.dir.opcount();
                stable = if now == last { stable + 1 } else { 0 };
                last = now;
            }
            w.exec(&json!({"op":"gc"}));
            w.exec(&json!({"op":"gc"}));
        }
        "predeleted_delete_commit" => {
            w.exec(&json!({"op":"del","pred":{"k":"id","id":2}}));
            w.exec(&json!({"op":"add","id":n0 + 1,"t":"c","v":0}));
            w.exec(&json!({"op":"commit"}));
            w.exec(&json!({"op":"gc"}));
        }
        "uncommitted_delete_commit" => {
            w.exec(&json!({"op":"del","pred":{"k":"id","id":n0 + 1}}));
            w.exec(&json!({"op":"del","pred":{"k":"id","id":n0 + 3}}));
            w.exec(&json!({"op":"commit"}));
        }
        "stale_end_merge" => {
            // the old updater is inside its end_merge task (past the `killed` test); the writer is
            // rolled back and the NEW writer commits; then the old task goes on and saves ITS metas
            w.exec(&json!({"op":"rollback"}));
            w.exec(&json!({"op":"add","id":n0 + 1,"t":"c","v":0}));
            w.exec(&json!({"op":"commit"}));
            w.exec(&json!({"op":"reload"}));
        }
        _ => {
            w.exec(&json!({"op":"del","pred":{"k":"id","id":1}}));
            w.exec(&json!({"op":"commit"}));
            w.exec(&json!({"op":"del","pred":{"k":"id","id":2}}));
            w.exec(&json!({"op":"commit"}));
        }
    }
    {
        let (m, cv) = &*st;
        m.lock().unwrap().release = true;
        cv.notify_all();
    }
    if let Some(f) = fut {
        let r = f.wait();
        let obs = w.observe();
        tracer.emit(json!({"ev":"merge","ok":r.is_ok(),"sids":[],"obs":obs}));
    }
    w.dir.set_fault(vh::simdir::FaultPlan::default());
    if stale {
        w.exec(&json!({"op":"reload"}));
        w.exec(&json!({"op":"gc"}));
        w.exec(&json!({"op":"observe"}));
        w.exec(&json!({"op":"reload"}));
    }
    w.dir.set_gate(None);
    if scenario == "drop_during_merge_reload" {
        let g = st.0.lock().unwrap();
        tracer.emit(json!({"ev":"schedule","name":"new writer parked right after it read .managed.json while the dropped writer's merge thread registers its files","realised":g.parked2,"zombie_files_created_by_the_end":g.zombie_created}));
    }
    tracer.emit(json!({"ev":"schedule","name":if stale { "updater parked inside end_merge before the meta.json replacement; rollback + commit by the new writer in between".to_string() } else { format!("merge thread parked at its first {} during {scenario}", if predeleted { "open_read" } else { "open_write" }) },"realised":realised}));
    w.exec(&json!({"op":"observe"}));
    w.exec(&json!({"op":"wait_merges"}));
    tantivy::verif::set_sink(None);
    tracer.emit(json!({"ev":"end","listing":w.dir.listing(),"locks":w.dir.lock_files(),"managed":w.managed()}));
}

fn main() {
    let a = Args::parse();
    let mode = a.pos.get(0).cloned().unwrap_or_default();
    let tracer = Tracer::to_file(&a.get("out", "/dev/stdout"));
    let seed = a.num("seed", 1);
    let runs = a.num("runs", 10);
    let mut rng = StdRng::seed_from_u64(seed);
    match mode.as_str() {
        "tv" => {
            for r in 0..runs {
                run_tv(&tracer, &mut rng, json!({"seed":seed,"run":r}));
            }
        }
        "gated" => {
            let scen = ["delete_commit", "rollback", "delete_all_commit", "two_commits", "fresh_writer_delete", "wait_with_intruder", "stale_end_merge", "delete_commit_fault", "uncommitted_delete_commit", "drop_during_merge", "predeleted_delete_commit", "drop_during_merge_reload"];
            let only = a.get("only", "");
            for r in 0..runs {
                let s = if only.is_empty() { scen[(r as usize) % scen.len()] } else { only.as_str() };
                run_gated(&tracer, &mut rng, s, json!({"seed":seed,"run":r,"scenario":s}));
            }
        }
        _ => {
            eprintln!("usage: merge_driver tv|gated ...");
            std::process::exit(2);
        }
    }
    tracer.flush();
}
