//! C15 driver: builds real dictionaries (tantivy_sstable::Dictionary with any block length,
//! tantivy::termdict (fst), columnar byte columns) and records what every call returned.
//! The driver never computes an expected answer: spec/DictTrace.tla judges the record.
//!   dict_driver replay --in cases.ndjson --out trace.ndjson
//!   dict_driver random --seed S --runs N --profile small|big|long|search --out trace.ndjson
//! case: {"tag":..,"keys":[[b,..],..],"vk":"u64|void|range|vec","block_len":n,"impls":["sstable","fst"],"ops":[..]}
//!    or {"tag":..,"merge":{"impl":"sstable-sum|sstable-first|sstable-void|fst|columnar","srcs":[[[b..]..]..],"block_len":n}}
use rand::prelude::*;
use serde_json::{json, Value};
use std::io::BufRead;
use std::ops::Bound;
use std::panic::{catch_unwind, AssertUnwindSafe};
use tantivy::directory::FileSlice;
use tantivy::postings::TermInfo;
use tantivy::termdict::{TermDictionary, TermDictionaryBuilder, TermMerger};
use tantivy_common::OwnedBytes;
use tantivy_fst::Automaton;
use tantivy_sstable::{
    Dictionary, MonotonicU64SSTable, RangeSSTable, SSTable, TermOrdHit, VecU32ValueSSTable, VoidSSTable,
};
use vh::trace::Tracer;
use vh::Args;

const BIG: u64 = 1_000_000_000; // ordinals beyond this are reported as this (u64::MAX does not fit TLC)

// ------------------------------------------------------------------------------------------
// automata (prefix, Levenshtein as a dynamic programme over bytes, tantivy_fst::Regex)
#[derive(Clone)]
enum AutSt {
    All,
    Pre(Option<usize>),
    Lev(Option<LevSt>),
    Re(Option<usize>),
}
#[derive(Clone)]
struct LevSt {
    prev: Vec<u32>,
    pp: Vec<u32>, // empty = none
    pc: u8,
    done: bool, // (prefix mode) some prefix was within the distance
}
enum Aut {
    All,
    Prefix(Vec<u8>),
    Lev { q: Vec<u8>, d: u32, tr: bool, pre: bool },
    Re(tantivy_fst::Regex),
}
impl Automaton for Aut {
    type State = AutSt;
    fn start(&self) -> AutSt {
        match self {
            Aut::All => AutSt::All,
            Aut::Prefix(_) => AutSt::Pre(Some(0)),
            Aut::Lev { q, d, pre, .. } => {
                let prev: Vec<u32> = (0..=q.len() as u32).collect();
                let done = *pre && prev[q.len()] <= *d;
                AutSt::Lev(Some(LevSt { prev, pp: vec![], pc: 0, done }))
            }
            Aut::Re(r) => AutSt::Re(r.start()),
        }
    }
    fn is_match(&self, s: &AutSt) -> bool {
        match (self, s) {
            (Aut::All, _) => true,
            (Aut::Prefix(p), AutSt::Pre(Some(n))) => *n == p.len(),
            (Aut::Lev { q, d, .. }, AutSt::Lev(Some(st))) => st.done || st.prev[q.len()] <= *d,
            (Aut::Re(r), AutSt::Re(x)) => r.is_match(x),
            _ => false,
        }
    }
    fn can_match(&self, s: &AutSt) -> bool {
        match (self, s) {
            (Aut::All, _) => true,
            (Aut::Prefix(_), AutSt::Pre(x)) => x.is_some(),
            (Aut::Lev { d, .. }, AutSt::Lev(Some(st))) => {
                st.done || st.prev.iter().any(|x| x <= d) || st.pp.iter().any(|x| x <= d)
            }
            (Aut::Re(r), AutSt::Re(x)) => r.can_match(x),
            _ => false,
        }
    }
    fn will_always_match(&self, s: &AutSt) -> bool {
        match (self, s) {
            (Aut::All, _) => true,
            (Aut::Prefix(p), AutSt::Pre(Some(n))) => *n == p.len(),
            (Aut::Lev { .. }, AutSt::Lev(Some(st))) => st.done,
            (Aut::Re(r), AutSt::Re(x)) => r.will_always_match(x),
            _ => false,
        }
    }
    fn accept(&self, s: &AutSt, b: u8) -> AutSt {
        match (self, s) {
            (Aut::All, _) => AutSt::All,
            (Aut::Prefix(p), AutSt::Pre(Some(n))) => {
                if *n == p.len() {
                    AutSt::Pre(Some(*n))
                } else if p[*n] == b {
                    AutSt::Pre(Some(*n + 1))
                } else {
                    AutSt::Pre(None)
                }
            }
            (Aut::Prefix(_), _) => AutSt::Pre(None),
            (Aut::Lev { q, d, tr, pre }, AutSt::Lev(Some(st))) => {
                if st.done {
                    return AutSt::Lev(Some(st.clone()));
                }
                let m = q.len();
                let mut row = Vec::with_capacity(m + 1);
                row.push(st.prev[0] + 1);
                for j in 1..=m {
                    let sub = st.prev[j - 1] + if q[j - 1] == b { 0 } else { 1 };
                    let mut c = sub.min(st.prev[j] + 1).min(row[j - 1] + 1);
                    if *tr && !st.pp.is_empty() && j >= 2 && q[j - 1] == st.pc && q[j - 2] == b {
                        c = c.min(st.pp[j - 2] + 1);
                    }
                    row.push(c);
                }
                let done = *pre && row[m] <= *d;
                AutSt::Lev(Some(LevSt { prev: row, pp: st.prev.clone(), pc: b, done }))
            }
            (Aut::Lev { .. }, _) => AutSt::Lev(None),
            (Aut::Re(r), AutSt::Re(x)) => AutSt::Re(r.accept(x, b)),
            _ => s.clone(),
        }
    }
}

fn re_pattern(ast: &Value) -> String {
    let a = ast.as_array().expect("regex ast");
    match a[0].as_str().unwrap() {
        "eps" => "(?:)".to_string(),
        "lit" => {
            let b = a[1].as_u64().unwrap() as u8;
            if b.is_ascii_alphanumeric() {
                (b as char).to_string()
            } else {
                format!("\\x{:02x}", b)
            }
        }
        "dot" => ".".to_string(),
        "cat" => format!("(?:{})(?:{})", re_pattern(&a[1]), re_pattern(&a[2])),
        "alt" => format!("(?:(?:{})|(?:{}))", re_pattern(&a[1]), re_pattern(&a[2])),
        "opt" => format!("(?:{})?", re_pattern(&a[1])),
        "star" => format!("(?:{})*", re_pattern(&a[1])),
        "plus" => format!("(?:{})+", re_pattern(&a[1])),
        x => panic!("regex node {x}"),
    }
}

fn aut_from(v: &Value) -> Option<Aut> {
    match v["t"].as_str().unwrap() {
        "all" => Some(Aut::All),
        "prefix" => Some(Aut::Prefix(bytes_of(&v["p"]))),
        "lev" => Some(Aut::Lev {
            q: bytes_of(&v["q"]),
            d: v["d"].as_u64().unwrap() as u32,
            tr: v["tr"].as_bool().unwrap(),
            pre: v["pre"].as_bool().unwrap(),
        }),
        "re" => tantivy_fst::Regex::new(&re_pattern(&v["ast"])).ok().map(Aut::Re),
        x => panic!("automaton {x}"),
    }
}

// ------------------------------------------------------------------------------------------
fn bytes_of(v: &Value) -> Vec<u8> {
    v.as_array().map(|a| a.iter().map(|x| x.as_u64().unwrap() as u8).collect()).unwrap_or_default()
}
fn jbytes(b: &[u8]) -> Value {
    Value::Array(b.iter().map(|x| json!(*x)).collect())
}
fn clip(o: u64) -> u64 {
    o.min(BIG)
}
fn panic_msg(e: Box<dyn std::any::Any + Send>) -> String {
    e.downcast_ref::<String>().cloned().or(e.downcast_ref::<&str>().map(|s| s.to_string())).unwrap_or_else(|| "?".into())
}
/// run a call of the code under test; a panic becomes an event
fn guarded<T>(tr: &Tracer, what: &str, arg: Value, f: impl FnOnce() -> T) -> Option<T> {
    match catch_unwind(AssertUnwindSafe(f)) {
        Ok(x) => Some(x),
        Err(e) => {
            tr.emit(json!({"ev":"panic","op":what,"arg":arg,"msg":panic_msg(e)}));
            None
        }
    }
}
fn bound_of(v: &Value) -> (String, Vec<u8>) {
    (v[0].as_str().unwrap().to_string(), bytes_of(&v[1]))
}

// ------------------------------------------------------------------------------------------
// the three dictionary implementations behind one set of observations
trait ValKind {
    type T: SSTable;
    fn mk(i: usize) -> <Self::T as SSTable>::Value;
    fn js(v: &<Self::T as SSTable>::Value) -> Value;
}
struct KU64;
impl ValKind for KU64 {
    type T = MonotonicU64SSTable;
    fn mk(i: usize) -> u64 {
        3 + 7 * i as u64
    }
    fn js(v: &u64) -> Value {
        json!(v)
    }
}
struct KVoid;
impl ValKind for KVoid {
    type T = VoidSSTable;
    fn mk(_: usize) {}
    fn js(_: &()) -> Value {
        json!(0)
    }
}
struct KRange;
fn cut(i: usize) -> u64 {
    (3 * i + (i % 2)) as u64
}
impl ValKind for KRange {
    type T = RangeSSTable;
    fn mk(i: usize) -> std::ops::Range<u64> {
        cut(i)..cut(i + 1)
    }
    fn js(v: &std::ops::Range<u64>) -> Value {
        json!([v.start, v.end])
    }
}
struct KVec;
impl ValKind for KVec {
    type T = VecU32ValueSSTable;
    fn mk(i: usize) -> Vec<u32> {
        (0..(i % 3)).map(|j| (i * 2 + j) as u32).collect()
    }
    fn js(v: &Vec<u32>) -> Value {
        json!(v)
    }
}

fn build_sstable<K: ValKind>(keys: &[Vec<u8>], vals: &[<K::T as SSTable>::Value], block_len: usize) -> std::io::Result<Dictionary<K::T>> {
    let mut w = Dictionary::<K::T>::builder(Vec::new())?;
    // (0 is a legal block length: every key gets a block of its own, the empty key included)
    w.set_block_len(block_len);
    for (k, v) in keys.iter().zip(vals.iter()) {
        w.insert(k, v)?;
    }
    let buf = w.finish()?;
    Dictionary::<K::T>::from_bytes(OwnedBytes::new(buf))
}

fn emit_build(tr: &Tracer, keys: &[Vec<u8>], vals: Vec<Value>, res: Option<Result<(), String>>) -> bool {
    let (ok, how) = match res {
        Some(Ok(())) => (true, "ok".to_string()),
        Some(Err(e)) => (false, format!("err: {e}")),
        None => (false, "panic".to_string()),
    };
    tr.emit(json!({"ev":"build","keys":keys.iter().map(|k| jbytes(k)).collect::<Vec<_>>(),"vals":vals,"ok":ok,"how":how}));
    ok
}

fn run_sstable_case<K: ValKind>(tr: &Tracer, case: &Value, keys: &[Vec<u8>], block_len: usize) {
    let vals: Vec<<K::T as SSTable>::Value> = (0..keys.len()).map(K::mk).collect();
    let jvals: Vec<Value> = vals.iter().map(K::js).collect();
    let built = catch_unwind(AssertUnwindSafe(|| build_sstable::<K>(keys, &vals, block_len)));
    let d = match built {
        Ok(Ok(d)) => {
            emit_build(tr, keys, jvals, Some(Ok(())));
            d
        }
        Ok(Err(e)) => {
            emit_build(tr, keys, jvals, Some(Err(e.to_string())));
            return;
        }
        Err(_) => {
            emit_build(tr, keys, jvals, None);
            return;
        }
    };
    tr.emit(json!({"ev":"num_terms","n":d.num_terms()}));
    for op in case["ops"].as_array().cloned().unwrap_or_default() {
        sstable_op::<K>(tr, &d, &op);
    }
}

fn collect_sst<K: ValKind, A: Automaton>(mut st: tantivy_sstable::Streamer<'_, K::T, A>, with_ord: bool) -> Vec<Value>
where A::State: Clone {
    let mut got = vec![];
    while st.advance() {
        let o = if with_ord { json!(clip(st.term_ord())) } else { json!(-1) };
        got.push(json!([jbytes(st.key()), o, K::js(st.value())]));
    }
    got
}

fn sst_bounds<'a, K: ValKind, A: Automaton>(mut b: tantivy_sstable::StreamerBuilder<'a, K::T, A>, lo: &(String, Vec<u8>), hi: &(String, Vec<u8>)) -> tantivy_sstable::StreamerBuilder<'a, K::T, A>
where A::State: Clone {
    b = match lo.0.as_str() {
        "ge" => b.ge(&lo.1),
        "gt" => b.gt(&lo.1),
        _ => b,
    };
    match hi.0.as_str() {
        "le" => b.le(&hi.1),
        "lt" => b.lt(&hi.1),
        _ => b,
    }
}

fn sstable_op<K: ValKind>(tr: &Tracer, d: &Dictionary<K::T>, op: &Value) {
    let kind = op["op"].as_str().unwrap();
    match kind {
        "probe" => {
            let k = bytes_of(&op["k"]);
            if let Some(r) = guarded(tr, "get", op.clone(), || d.get(&k).unwrap()) {
                tr.emit(json!({"ev":"get","k":jbytes(&k),"found":r.is_some(),"v":r.as_ref().map(K::js)}));
            }
            if let Some(r) = guarded(tr, "term_ord", op.clone(), || d.term_ord(&k).unwrap()) {
                tr.emit(json!({"ev":"ord","k":jbytes(&k),"found":r.is_some(),"ord":r}));
            }
            if let Some(r) = guarded(tr, "term_ord_or_next", op.clone(), || d.term_ord_or_next(&k).unwrap()) {
                let (exact, o) = match r {
                    TermOrdHit::Exact(o) => (true, o),
                    TermOrdHit::Next(o) => (false, o),
                };
                tr.emit(json!({"ev":"ord_or_next","k":jbytes(&k),"exact":exact,"ord":clip(o)}));
            }
        }
        "key_of_ord" => {
            let o = op["ord"].as_u64().unwrap();
            let mut buf = vec![];
            if let Some(found) = guarded(tr, "ord_to_term", op.clone(), || d.ord_to_term(o, &mut buf).unwrap()) {
                tr.emit(json!({"ev":"key_of_ord","ord":o,"found":found,"k":if found { Some(jbytes(&buf)) } else { None }}));
            }
            if let Some(r) = guarded(tr, "term_info_from_ord", op.clone(), || d.term_info_from_ord(o).unwrap()) {
                tr.emit(json!({"ev":"val_of_ord","ord":o,"found":r.is_some(),"v":r.as_ref().map(K::js)}));
            }
        }
        "ords_to_terms" => {
            let ords: Vec<u64> = op["ords"].as_array().unwrap().iter().map(|x| x.as_u64().unwrap()).collect();
            let mut got: Vec<Value> = vec![];
            let r = guarded(tr, "sorted_ords_to_term_cb", op.clone(), || {
                d.sorted_ords_to_term_cb(&ords, |b| {
                    got.push(jbytes(b));
                })
                .unwrap()
            });
            if let Some(all) = r {
                tr.emit(json!({"ev":"ords_to_terms","ords":ords,"all":all,"got":got}));
            }
        }
        "bounds_to_ord" => {
            let lo = bound_of(&op["lo"]);
            let hi = bound_of(&op["hi"]);
            let lb: Bound<&[u8]> = match lo.0.as_str() {
                "ge" => Bound::Included(&lo.1[..]),
                "gt" => Bound::Excluded(&lo.1[..]),
                _ => Bound::Unbounded,
            };
            let hb: Bound<&[u8]> = match hi.0.as_str() {
                "le" => Bound::Included(&hi.1[..]),
                "lt" => Bound::Excluded(&hi.1[..]),
                _ => Bound::Unbounded,
            };
            if let Some((a, b)) = guarded(tr, "term_bounds_to_ord", op.clone(), || d.term_bounds_to_ord(lb, hb).unwrap()) {
                let js = |x: Bound<u64>| match x {
                    Bound::Included(o) => json!(["incl", clip(o)]),
                    Bound::Excluded(o) => json!(["excl", clip(o)]),
                    Bound::Unbounded => json!(["unb", 0]),
                };
                tr.emit(json!({"ev":"bounds_to_ord","lo":op["lo"],"hi":op["hi"],"olo":js(a),"ohi":js(b)}));
            }
        }
        "stream" => {
            if let Some(got) = guarded(tr, "stream", op.clone(), || collect_sst::<K, _>(d.stream().unwrap(), true)) {
                tr.emit(json!({"ev":"range","lo":["unb",[]],"hi":["unb",[]],"limit":-1,"got":got}));
            }
        }
        "range" => {
            let lo = bound_of(&op["lo"]);
            let hi = bound_of(&op["hi"]);
            let limit = op["limit"].as_i64().unwrap_or(-1);
            let r = guarded(tr, "range", op.clone(), || {
                let mut b = sst_bounds::<K, _>(d.range(), &lo, &hi);
                if limit >= 0 {
                    b = b.limit(limit as u64);
                }
                collect_sst::<K, _>(b.into_stream().unwrap(), true)
            });
            if let Some(got) = r {
                tr.emit(json!({"ev":"range","lo":op["lo"],"hi":op["hi"],"limit":limit,"got":got}));
            }
        }
        "prefix" => {
            let p = bytes_of(&op["p"]);
            if let Some(got) = guarded(tr, "prefix_range", op.clone(), || collect_sst::<K, _>(d.prefix_range(&p).into_stream().unwrap(), true)) {
                tr.emit(json!({"ev":"prefix","p":jbytes(&p),"got":got}));
            }
        }
        "search" => {
            let Some(aut) = aut_from(&op["aut"]) else {
                tr.emit(json!({"ev":"skipped","why":"regex rejected by tantivy_fst::Regex","op":op}));
                return;
            };
            let lo = bound_of(&op["lo"]);
            let hi = bound_of(&op["hi"]);
            // the ordinal reported by a stream that skips blocks is observed separately ("ords": true)
            let r = guarded(tr, "search", op.clone(), || collect_sst::<K, _>(sst_bounds::<K, _>(d.search(aut), &lo, &hi).into_stream().unwrap(), true));
            if let Some(got) = r {
                tr.emit(json!({"ev":"search","aut":op["aut"],"lo":op["lo"],"hi":op["hi"],"got":got}));
            }
        }
        x => panic!("unknown op {x}"),
    }
}

// --- fst based tantivy::termdict -------------------------------------------------------------
fn ti_mk(i: usize) -> TermInfo {
    let p = |i: usize| 10 * i + (i % 4);
    let q = |i: usize| 3 * i + (i % 2);
    TermInfo { doc_freq: (i + 1) as u32, postings_range: p(i)..p(i + 1), positions_range: q(i)..q(i + 1) }
}
fn ti_js(t: &TermInfo) -> Value {
    json!([t.doc_freq, t.postings_range.start, t.postings_range.end, t.positions_range.start, t.positions_range.end])
}
fn build_fst(keys: &[Vec<u8>], vals: &[TermInfo]) -> std::io::Result<TermDictionary> {
    let mut b = TermDictionaryBuilder::create(Vec::new())?;
    for (k, v) in keys.iter().zip(vals.iter()) {
        b.insert(k, v)?;
    }
    let buf = b.finish()?;
    TermDictionary::open(FileSlice::from(buf))
}
fn collect_fst<A: Automaton>(mut st: tantivy::termdict::TermStreamer<'_, A>) -> Vec<Value>
where A::State: Clone {
    let mut got = vec![];
    while st.advance() {
        got.push(json!([jbytes(st.key()), clip(st.term_ord()), ti_js(st.value())]));
    }
    got
}
fn run_fst_case(tr: &Tracer, case: &Value, keys: &[Vec<u8>]) {
    let vals: Vec<TermInfo> = (0..keys.len()).map(ti_mk).collect();
    let jvals: Vec<Value> = vals.iter().map(ti_js).collect();
    let d = match catch_unwind(AssertUnwindSafe(|| build_fst(keys, &vals))) {
        Ok(Ok(d)) => {
            emit_build(tr, keys, jvals, Some(Ok(())));
            d
        }
        Ok(Err(e)) => {
            emit_build(tr, keys, jvals, Some(Err(e.to_string())));
            return;
        }
        Err(_) => {
            emit_build(tr, keys, jvals, None);
            return;
        }
    };
    tr.emit(json!({"ev":"num_terms","n":d.num_terms()}));
    for op in case["ops"].as_array().cloned().unwrap_or_default() {
        let kind = op["op"].as_str().unwrap();
        match kind {
            "probe" => {
                let k = bytes_of(&op["k"]);
                if let Some(r) = guarded(tr, "get", op.clone(), || d.get(&k).unwrap()) {
                    tr.emit(json!({"ev":"get","k":jbytes(&k),"found":r.is_some(),"v":r.as_ref().map(ti_js)}));
                }
                if let Some(r) = guarded(tr, "term_ord", op.clone(), || d.term_ord(&k).unwrap()) {
                    tr.emit(json!({"ev":"ord","k":jbytes(&k),"found":r.is_some(),"ord":r}));
                }
            }
            "key_of_ord" => {
                let o = op["ord"].as_u64().unwrap();
                let mut buf = vec![];
                if let Some(found) = guarded(tr, "ord_to_term", op.clone(), || d.ord_to_term(o, &mut buf).unwrap()) {
                    tr.emit(json!({"ev":"key_of_ord","ord":o,"found":found,"k":if found { Some(jbytes(&buf)) } else { None }}));
                }
            }
            "stream" => {
                if let Some(got) = guarded(tr, "stream", op.clone(), || collect_fst(d.stream().unwrap())) {
                    tr.emit(json!({"ev":"range","lo":["unb",[]],"hi":["unb",[]],"limit":-1,"got":got}));
                }
            }
            "range" | "search" | "prefix" => {
                let (autv, lo, hi) = if kind == "prefix" {
                    (json!({"t":"prefix","p":op["p"]}), ("unb".to_string(), vec![]), ("unb".to_string(), vec![]))
                } else {
                    (if kind == "range" { json!({"t":"all"}) } else { op["aut"].clone() }, bound_of(&op["lo"]), bound_of(&op["hi"]))
                };
                let Some(aut) = aut_from(&autv) else {
                    tr.emit(json!({"ev":"skipped","why":"regex rejected by tantivy_fst::Regex","op":op}));
                    continue;
                };
                let r = guarded(tr, kind, op.clone(), || {
                    let mut b = d.search(aut);
                    b = match lo.0.as_str() {
                        "ge" => b.ge(&lo.1),
                        "gt" => b.gt(&lo.1),
                        _ => b,
                    };
                    b = match hi.0.as_str() {
                        "le" => b.le(&hi.1),
                        "lt" => b.lt(&hi.1),
                        _ => b,
                    };
                    collect_fst(b.into_stream().unwrap())
                });
                if let Some(got) = r {
                    match kind {
                        "range" => tr.emit(json!({"ev":"range","lo":op["lo"],"hi":op["hi"],"limit":-1,"got":got})),
                        "prefix" => tr.emit(json!({"ev":"prefix","p":op["p"],"got":got})),
                        _ => tr.emit(json!({"ev":"search","aut":op["aut"],"lo":op["lo"],"hi":op["hi"],"got":got})),
                    };
                }
            }
            _ => {} // operations the fst dictionary does not offer
        }
    }
}

// --- merges ----------------------------------------------------------------------------------
fn sorted_union(srcs: &[Vec<Vec<u8>>]) -> Vec<Vec<u8>> {
    // only used to choose *input values* that satisfy the precondition of MonotonicU64SSTable
    let mut s: std::collections::BTreeSet<Vec<u8>> = Default::default();
    for x in srcs {
        for k in x {
            s.insert(k.clone());
        }
    }
    s.into_iter().collect()
}

fn run_merge(tr: &Tracer, m: &Value) {
    let imp = m["impl"].as_str().unwrap();
    let block_len = m["block_len"].as_u64().unwrap_or(0) as usize;
    let srcs: Vec<Vec<Vec<u8>>> = m["srcs"].as_array().unwrap().iter().map(|s| s.as_array().unwrap().iter().map(bytes_of).collect()).collect();
    let jsrc = |vals: &Vec<Vec<Value>>| -> Vec<Value> {
        srcs.iter().zip(vals.iter()).map(|(ks, vs)| json!({"keys":ks.iter().map(|k| jbytes(k)).collect::<Vec<_>>(),"vals":vs})).collect()
    };
    match imp {
        "sstable-sum" | "sstable-first" | "sstable-void" => {
            let uni = sorted_union(&srcs);
            let rank = |k: &Vec<u8>| uni.binary_search(k).unwrap();
            let nsrc = srcs.len() as u64;
            let r = guarded(tr, "merge", m.clone(), || {
                if imp == "sstable-void" {
                    let mut bufs = vec![];
                    for ks in &srcs {
                        let vals: Vec<()> = ks.iter().map(|_| ()).collect();
                        let mut w = Dictionary::<VoidSSTable>::builder(Vec::new()).unwrap();
                        w.set_block_len(block_len);
                        for (k, v) in ks.iter().zip(vals.iter()) {
                            w.insert(k, v).unwrap();
                        }
                        let whole = w.finish().unwrap();
                        bufs.push(whole);
                    }
                    let mut out = Vec::new();
                    let readers: Vec<OwnedBytes> = bufs.iter().map(|b| OwnedBytes::new(b.clone())).collect();
                    VoidSSTable::merge(readers, &mut out, tantivy_sstable::VoidMerge).unwrap();
                    let d = Dictionary::<VoidSSTable>::from_bytes(OwnedBytes::new(out)).unwrap();
                    let vals: Vec<Vec<Value>> = srcs.iter().map(|ks| ks.iter().map(|_| json!(0)).collect()).collect();
                    (vals, collect_sst::<KVoid, _>(d.stream().unwrap(), true), "void")
                } else {
                    // values: (#sources+1)^rank for "sum" (sums stay monotonic), 3+7*rank for "first"
                    let f = |k: &Vec<u8>| -> u64 {
                        if imp == "sstable-sum" {
                            (nsrc + 1).pow(rank(k) as u32)
                        } else {
                            3 + 7 * rank(k) as u64
                        }
                    };
                    let mut bufs = vec![];
                    let mut vals: Vec<Vec<Value>> = vec![];
                    for ks in &srcs {
                        let mut w = Dictionary::<MonotonicU64SSTable>::builder(Vec::new()).unwrap();
                        w.set_block_len(block_len);
                        let mut vs = vec![];
                        for k in ks {
                            let v = f(k);
                            w.insert(k, &v).unwrap();
                            vs.push(json!(v));
                        }
                        vals.push(vs);
                        bufs.push(w.finish().unwrap());
                    }
                    let readers: Vec<OwnedBytes> = bufs.iter().map(|b| OwnedBytes::new(b.clone())).collect();
                    let mut out = Vec::new();
                    if imp == "sstable-sum" {
                        MonotonicU64SSTable::merge(readers, &mut out, tantivy_sstable::merge::U64Merge).unwrap();
                    } else {
                        MonotonicU64SSTable::merge(readers, &mut out, tantivy_sstable::merge::KeepFirst).unwrap();
                    }
                    let d = Dictionary::<MonotonicU64SSTable>::from_bytes(OwnedBytes::new(out)).unwrap();
                    (vals, collect_sst::<KU64, _>(d.stream().unwrap(), true), if imp == "sstable-sum" { "sum" } else { "first" })
                }
            });
            if let Some((vals, got, how)) = r {
                tr.emit(json!({"ev":"merge","impl":imp,"how":how,"srcs":jsrc(&vals),"out":got}));
            }
        }
        "fst" => {
            let r = guarded(tr, "merge", m.clone(), || {
                let mut dicts = vec![];
                let mut vals: Vec<Vec<Value>> = vec![];
                for ks in &srcs {
                    let tis: Vec<TermInfo> = (0..ks.len()).map(ti_mk).collect();
                    vals.push(tis.iter().map(ti_js).collect());
                    dicts.push(build_fst(ks, &tis).unwrap());
                }
                let streams: Vec<_> = dicts.iter().map(|d| d.stream().unwrap()).collect();
                let mut merger = TermMerger::new(streams);
                let mut out = vec![];
                let mut maps: Vec<Vec<Value>> = srcs.iter().map(|ks| vec![json!(-1); ks.len()]).collect();
                let mut extra = vec![];
                let mut n = 0u64;
                while merger.advance() {
                    out.push(json!([jbytes(merger.key()), n, 0]));
                    for (seg, old) in merger.matching_segments() {
                        if (old as usize) < maps[seg].len() && maps[seg][old as usize] == json!(-1) {
                            maps[seg][old as usize] = json!(n);
                        } else {
                            extra.push(json!([seg, clip(old), n]));
                        }
                    }
                    n += 1;
                }
                (vals, out, maps, extra)
            });
            if let Some((vals, out, maps, extra)) = r {
                tr.emit(json!({"ev":"merge","impl":imp,"how":"maps","srcs":jsrc(&vals),"out":out,"maps":maps,"extra":extra}));
            }
        }
        "columnar" => {
            use tantivy_columnar::{ColumnarReader, ColumnarWriter, DynamicColumn, MergeRowOrder, StackMergeOrder};
            let r = guarded(tr, "merge", m.clone(), || {
                let read = |c: &ColumnarReader| -> (Vec<Value>, Vec<Value>) {
                    let cols = c.read_columns("c").unwrap();
                    if cols.is_empty() {
                        return (vec![], (0..c.num_docs()).map(|_| json!([])).collect());
                    }
                    let DynamicColumn::Bytes(col) = cols[0].open().unwrap() else { panic!("not a bytes column") };
                    let mut dict = vec![];
                    let mut st = col.dictionary().stream().unwrap();
                    while st.advance() {
                        dict.push(json!([jbytes(st.key()), clip(st.term_ord()), 0]));
                    }
                    let ords: Vec<Value> = (0..c.num_docs()).map(|row| json!(col.term_ords(row).map(clip).collect::<Vec<_>>())).collect();
                    (dict, ords)
                };
                let mut readers = vec![];
                for ks in &srcs {
                    // one row per key, in the given (arbitrary) order
                    let mut w = ColumnarWriter::default();
                    for (row, k) in ks.iter().enumerate() {
                        w.record_bytes(row as u32, "c", k);
                    }
                    let mut buf = Vec::new();
                    w.serialize(ks.len() as u32, None, &mut buf).unwrap();
                    readers.push(ColumnarReader::open(buf).unwrap());
                }
                let refs: Vec<&ColumnarReader> = readers.iter().collect();
                let mut out = Vec::new();
                tantivy_columnar::merge_columnar(&refs, &[], MergeRowOrder::Stack(StackMergeOrder::stack(&refs)), &mut out).unwrap();
                let merged = ColumnarReader::open(out).unwrap();
                let s: Vec<Value> = readers.iter().zip(srcs.iter()).map(|(c, ks)| {
                    let (dict, ords) = read(c);
                    json!({"rows":ks.iter().map(|k| jbytes(k)).collect::<Vec<_>>(),"dict":dict,"ords":ords})
                }).collect();
                let (dict, ords) = read(&merged);
                (s, dict, ords)
            });
            if let Some((s, dict, ords)) = r {
                tr.emit(json!({"ev":"cmerge","srcs":s,"out":{"dict":dict,"ords":ords}}));
            }
        }
        x => panic!("merge impl {x}"),
    }
}

// ------------------------------------------------------------------------------------------
fn run_case(tr: &Tracer, case: &Value) {
    if let Some(m) = case.get("merge") {
        tr.emit(json!({"ev":"reset","impl":m["impl"],"block_len":m["block_len"],"vk":"-","tag":case["tag"]}));
        run_merge(tr, m);
        return;
    }
    let keys: Vec<Vec<u8>> = case["keys"].as_array().unwrap().iter().map(bytes_of).collect();
    let block_len = case["block_len"].as_u64().unwrap_or(0) as usize;
    let vk = case["vk"].as_str().unwrap_or("u64");
    for imp in case["impls"].as_array().cloned().unwrap_or_else(|| vec![json!("sstable")]) {
        let imp = imp.as_str().unwrap();
        tr.emit(json!({"ev":"reset","impl":imp,"block_len":block_len,"vk":if imp == "fst" { "terminfo" } else { vk },"tag":case["tag"]}));
        match imp {
            "sstable" => match vk {
                "u64" => run_sstable_case::<KU64>(tr, case, &keys, block_len),
                "void" => run_sstable_case::<KVoid>(tr, case, &keys, block_len),
                "range" => run_sstable_case::<KRange>(tr, case, &keys, block_len),
                "vec" => run_sstable_case::<KVec>(tr, case, &keys, block_len),
                x => panic!("value kind {x}"),
            },
            "fst" => run_fst_case(tr, case, &keys),
            x => panic!("impl {x}"),
        }
    }
}

// ------------------------------------------------------------------------------------------
// random cases (T): choosing inputs only
fn gen_key(rng: &mut StdRng, long: bool) -> Vec<u8> {
    let alpha: [u8; 6] = [0x00, 0x01, 0x61, 0x62, 0x7f, 0xff];
    let lens: &[usize] = if long { &[1, 3, 40, 300, 2000, 9000, 30000] } else { &[0, 1, 2, 3, 5, 9, 17, 40] };
    let len = *lens.choose(rng).unwrap();
    let mut k: Vec<u8> = vec![];
    if rng.random_bool(0.5) {
        k.extend(std::iter::repeat(0x61).take(rng.random_range(0..30)));
    }
    if long && len >= 2000 {
        // long shared prefixes: a run of one byte, then a short random tail
        let b = *alpha.choose(rng).unwrap();
        k.extend(std::iter::repeat(b).take(len));
        for _ in 0..rng.random_range(0..4) {
            k.push(*alpha.choose(rng).unwrap());
        }
    } else {
        for _ in 0..len {
            k.push(*alpha.choose(rng).unwrap());
        }
    }
    k
}
fn mutate(rng: &mut StdRng, keys: &[Vec<u8>], long: bool) -> Vec<u8> {
    if keys.is_empty() || rng.random_bool(0.25) {
        let l = long && rng.random_bool(0.2);
        return gen_key(rng, l);
    }
    let mut k = keys.choose(rng).unwrap().clone();
    match rng.random_range(0..6) {
        0 => k.push(0),
        1 => {
            k.pop();
        }
        2 => {
            if let Some(l) = k.last_mut() {
                *l = l.wrapping_add(1);
            }
        }
        3 => {
            if let Some(l) = k.last_mut() {
                *l = l.wrapping_sub(1);
            }
        }
        4 => k.push(0xff),
        _ => {}
    }
    k
}
fn jb(kind: &str, k: &[u8]) -> Value {
    json!([kind, jbytes(k)])
}
fn gen_case(rng: &mut StdRng, profile: &str, tag: Value) -> Value {
    let long = profile == "long";
    let sizes: &[usize] = match profile {
        "big" => &[130, 300, 700, 1500],
        "long" => &[1, 3, 6],
        "search" => &[5, 30, 200],
        _ => &[0, 1, 2, 3, 10, 50],
    };
    let n = *sizes.choose(rng).unwrap();
    let block_len = *(if profile == "big" { &[0usize, 1, 16, 64, 400, 4000][..] } else { &[0usize, 1, 16, 64, 400, 4000][..] }).choose(rng).unwrap();
    let mut set: std::collections::BTreeSet<Vec<u8>> = Default::default();
    for _ in 0..n {
        let k = if profile == "search" {
            (0..rng.random_range(0..6)).map(|_| *[0x61u8, 0x62, 0x63, 0x01, 0xff].choose(rng).unwrap()).collect()
        } else {
            gen_key(rng, long)
        };
        set.insert(k);
    }
    let keys: Vec<Vec<u8>> = set.into_iter().collect();
    let mut ops = vec![json!({"op":"stream"})];
    let nops = if long { 8 } else { 30 };
    for _ in 0..nops {
        let probe = mutate(rng, &keys, long);
        match rng.random_range(0..10) {
            0..=2 => ops.push(json!({"op":"probe","k":jbytes(&probe)})),
            3 => ops.push(json!({"op":"key_of_ord","ord":rng.random_range(0..keys.len() as u64 + 2)})),
            4..=6 => {
                // bounded answers on big dictionaries: the other bound is a near neighbour
                let other = if keys.len() > 60 {
                    let i = keys.binary_search(&probe).unwrap_or_else(|x| x).min(keys.len() - 1);
                    let j = (i + rng.random_range(0..40)).min(keys.len() - 1);
                    let mut o = keys[j].clone();
                    if rng.random_bool(0.3) {
                        o.push(1);
                    }
                    o
                } else {
                    mutate(rng, &keys, long)
                };
                // mostly well-ordered bounds; one range in seven is inverted (must stream nothing)
                let inv = rng.random_range(0..7) == 0;
                let (a, b) = if (probe <= other) != inv { (probe.clone(), other) } else { (other, probe.clone()) };
                let lk = ["ge", "gt", "unb"][rng.random_range(0..if keys.len() > 60 { 2 } else { 3 })];
                let hk = ["le", "lt", "unb"][rng.random_range(0..if keys.len() > 60 { 2 } else { 3 })];
                let limit: i64 = if rng.random_bool(0.3) { rng.random_range(0..5) } else { -1 };
                let lo = if lk == "unb" { jb("unb", &[]) } else { jb(lk, &a) };
                let hi = if hk == "unb" { jb("unb", &[]) } else { jb(hk, &b) };
                if rng.random_bool(0.15) {
                    ops.push(json!({"op":"bounds_to_ord","lo":lo,"hi":hi}));
                } else {
                    ops.push(json!({"op":"range","lo":lo,"hi":hi,"limit":limit}));
                }
            }
            7 => {
                let cut = rng.random_range(0..=probe.len().min(3));
                let drop = rng.random_range(0..3usize).min(probe.len());
                let p: Vec<u8> = if keys.len() > 60 { probe[..probe.len() - drop].to_vec() } else { probe[..cut].to_vec() };
                ops.push(json!({"op":"prefix","p":jbytes(&p)}));
            }
            8 => {
                let mut ords: Vec<u64> = (0..rng.random_range(0..6)).map(|_| rng.random_range(0..keys.len() as u64 + 1)).collect();
                ords.sort();
                ops.push(json!({"op":"ords_to_terms","ords":ords}));
            }
            _ => {
                if profile == "search" {
                    let q: Vec<u8> = probe.iter().cloned().take(5).collect();
                    let aut = match rng.random_range(0..3) {
                        0 => json!({"t":"prefix","p":jbytes(&q[..q.len().min(2)])}),
                        _ => json!({"t":"lev","q":jbytes(&q),"d":rng.random_range(0..3),"tr":rng.random_bool(0.5),"pre":rng.random_bool(0.3)}),
                    };
                    ops.push(json!({"op":"search","aut":aut,"lo":jb("unb", &[]),"hi":jb("unb", &[])}));
                }
            }
        }
    }
    let vk = *["u64", "u64", "void", "range", "vec"].choose(rng).unwrap();
    json!({"tag":tag,"keys":keys.iter().map(|k| jbytes(k)).collect::<Vec<_>>(),"vk":vk,"block_len":block_len,
           "impls": if long { json!(["sstable"]) } else { json!(["sstable","fst"]) },"ops":ops})
}
fn gen_merge(rng: &mut StdRng, tag: Value) -> Value {
    let nsrc = rng.random_range(1..4);
    let size = *[0usize, 1, 5, 40, 400].choose(rng).unwrap();
    let mut pool: Vec<Vec<u8>> = (0..size * 2).map(|_| gen_key(rng, false)).collect();
    pool.push(vec![]);
    let imp = *["sstable-first", "sstable-void", "fst", "columnar"].choose(rng).unwrap();
    let mut srcs = vec![];
    for _ in 0..nsrc {
        let mut s: std::collections::BTreeSet<Vec<u8>> = Default::default();
        for _ in 0..size {
            s.insert(pool.choose(rng).unwrap().clone());
        }
        let mut ks: Vec<Vec<u8>> = s.into_iter().collect();
        if imp == "columnar" {
            ks.shuffle(rng);
        }
        srcs.push(json!(ks.iter().map(|k| jbytes(k)).collect::<Vec<_>>()));
    }
    json!({"tag":tag,"merge":{"impl":imp,"srcs":srcs,"block_len":*[0usize, 1, 16, 400, 4000].choose(rng).unwrap()}})
}

fn main() {
    std::panic::set_hook(Box::new(|_| {}));
    let a = Args::parse();
    let mode = a.pos.get(0).cloned().unwrap_or_default();
    let tracer = Tracer::to_file(&a.get("out", "/dev/stdout"));
    match mode.as_str() {
        "replay" => {
            let f = std::fs::File::open(a.get("in", "")).expect("open --in");
            for line in std::io::BufReader::new(f).lines() {
                let line = line.unwrap();
                if line.trim().is_empty() {
                    continue;
                }
                let case: Value = serde_json::from_str(&line).expect("case json");
                run_case(&tracer, &case);
            }
        }
        "random" => {
            let seed = a.num("seed", 1);
            let runs = a.num("runs", 10);
            let profile = a.get("profile", "small");
            let mut rng = StdRng::seed_from_u64(seed);
            for r in 0..runs {
                let tag = json!({"seed":seed,"run":r,"profile":profile});
                let case = if profile == "merge" { gen_merge(&mut rng, tag) } else { gen_case(&mut rng, &profile, tag) };
                if a.flag("dump") {
                    println!("{}", case);
                }
                run_case(&tracer, &case);
            }
        }
        _ => {
            eprintln!("usage: dict_driver replay|random ...");
            std::process::exit(2);
        }
    }
    tracer.flush();
}
