//! C05 / C10 / C18 (lock files): threads, each with its OWN Directory object on the same directory
//! (as separate processes have), contend for a Directory lock; every thread logs `enter` while it
//! holds the guard and `exit` right before it drops it.  spec/LockMutexTrace.tla judges that no two
//! threads were ever inside at the same time.
//!   flock_driver run --seed S --rounds N --out trace.ndjson [--threads k]
//! Directory kinds: mmap (MmapDirectory on a fresh directory under /tmp: flock), ram (RamDirectory
//! clones: the default lock-file protocol of `Directory::acquire_lock`), sim (the harness SimDir).
//! Locks: meta (blocking) and writer (non-blocking: a refused attempt is logged as `busy`).
use rand::prelude::*;
use serde_json::json;
use std::sync::{Arc, Barrier};
use tantivy::directory::error::LockError;
use tantivy::directory::{Directory, MmapDirectory, RamDirectory, INDEX_WRITER_LOCK, META_LOCK};
use vh::simdir::SimDir;
use vh::trace::Tracer;
use vh::Args;

fn run_round(tracer: &Tracer, rng: &mut StdRng, kind: &str, lockname: &str, nthreads: usize, round: u64) {
    tracer.emit(json!({"ev":"reset","kind":kind,"lock":lockname,"threads":nthreads,"round":round}));
    let tmp = std::env::temp_dir().join(format!("vh_flock_{}_{}", std::process::id(), round));
    let _ = std::fs::remove_dir_all(&tmp);
    let sim = SimDir::new(Tracer::sink());
    sim.set_quiet(true);
    let ram = RamDirectory::create();
    if kind == "mmap" {
        std::fs::create_dir_all(&tmp).unwrap();
    }
    let barrier = Arc::new(Barrier::new(nthreads));
    let iters: u32 = rng.random_range(20..120);
    let mut handles = vec![];
    for t in 0..nthreads {
        let dir: Box<dyn Directory> = match kind {
            "mmap" => Box::new(MmapDirectory::open(&tmp).unwrap()),
            "ram" => Box::new(ram.clone()),
            _ => Box::new(sim.clone()),
        };
        let (tr, b, lockname) = (tracer.clone(), barrier.clone(), lockname.to_string());
        let seed: u64 = rng.random();
        handles.push(std::thread::spawn(move || {
            let mut rng = StdRng::seed_from_u64(seed);
            let lock = if lockname == "meta" { &*META_LOCK } else { &*INDEX_WRITER_LOCK };
            b.wait();
            for _ in 0..iters {
                match dir.acquire_lock(lock) {
                    Ok(guard) => {
                        tr.emit(json!({"ev":"enter","t":t}));
                        for _ in 0..rng.random_range(0..400u32) {
                            std::hint::spin_loop();
                        }
                        if rng.random_bool(0.2) {
                            std::thread::yield_now();
                        }
                        tr.emit(json!({"ev":"exit","t":t}));
                        drop(guard);
                    }
                    Err(LockError::LockBusy) => {
                        tr.emit(json!({"ev":"busy","t":t}));
                    }
                    Err(e) => {
                        tr.emit(json!({"ev":"lock_error","t":t,"err":format!("{e:?}")}));
                    }
                }
                for _ in 0..rng.random_range(0..200u32) {
                    std::hint::spin_loop();
                }
            }
        }));
    }
    for h in handles {
        let _ = h.join();
    }
    let _ = std::fs::remove_dir_all(&tmp);
}

fn main() {
    let a = Args::parse();
    let tracer = Tracer::to_file(&a.get("out", "/dev/stdout"));
    let mut rng = StdRng::seed_from_u64(a.num("seed", 1));
    let nthreads = a.num("threads", 4) as usize;
    let kinds = ["mmap", "mmap", "ram", "sim"];
    for round in 0..a.num("rounds", 12) {
        let kind = kinds[(round as usize) % kinds.len()];
        let lockname = if (round / 4) % 2 == 0 { "meta" } else { "writer" };
        run_round(&tracer, &mut rng, kind, lockname, nthreads, round);
    }
    tracer.flush();
}
