//! Shared by docset_driver (C13), topk_driver (C06) and query_driver (C03): the logical corpus,
//! the index built from it, queries described as JSON and turned into real tantivy queries,
//! seeded random generators for both.  Nothing here computes an expected result.
//!
//! Logical document (what the trace specifications see):
//!   {"id":7,"title":["t0","all"],"tag":[[1,2],[3]],"num":[3,-2],"u":[5],"fl":[4],"flag":[1],"dt":[3],"ip":[9]}
//! every field is a list of values; numbers are small order-preserving integers `k`
//! (f64 value = k/2, date = k days, ip = ::k); tag words are lists of letter codes (1='a').
//! Query JSON: see `build_query`.
#![allow(dead_code)]
use rand::prelude::*;
use serde_json::{json, Value};
use std::net::Ipv6Addr;
use std::ops::Bound;
use tantivy::indexer::NoMergePolicy;
use tantivy::query::*;
use tantivy::schema::*;
use tantivy::{DateTime, Index, IndexWriter, TantivyDocument, Term};

pub fn rich_schema() -> Schema {
    let mut sb = Schema::builder();
    sb.add_u64_field("id", FAST | INDEXED | STORED);
    sb.add_text_field("title", TEXT);
    sb.add_text_field("tag", STRING | FAST);
    sb.add_text_field("tagi", STRING);
    sb.add_i64_field("num", INDEXED | FAST);
    sb.add_i64_field("numi", INDEXED);
    sb.add_u64_field("u", INDEXED | FAST);
    sb.add_f64_field("fl", INDEXED | FAST);
    sb.add_bool_field("flag", INDEXED | FAST);
    sb.add_bool_field("flagi", INDEXED);
    sb.add_date_field("dt", INDEXED | FAST);
    sb.add_ip_addr_field("ip", INDEXED | FAST);
    sb.add_i64_field("pop", INDEXED | FAST);
    sb.add_text_field("cat", STRING | FAST);
    // the `num` values again under the path `v` of a JSON fast field (an i64 column queried with f64 bounds)
    sb.add_json_field("js", FAST);
    // the title tokens again, indexed with frequencies but without fieldnorms
    let nf = TextOptions::default().set_indexing_options(
        TextFieldIndexing::default().set_tokenizer("default").set_index_option(IndexRecordOption::WithFreqs).set_fieldnorms(false));
    sb.add_text_field("nf", nf);
    // the title tokens again, indexed without frequencies (IndexRecordOption::Basic) but with fieldnorms
    let bt = TextOptions::default().set_indexing_options(
        TextFieldIndexing::default().set_tokenizer("default").set_index_option(IndexRecordOption::Basic).set_fieldnorms(true));
    sb.add_text_field("bt", bt);
    // a sparse scored field: present in about one document out of six, 1..4 tokens of two words (fewer tokens than documents:
    // the segment's average field length is below 1)
    sb.add_text_field("note", TEXT);
    // longer texts over 8 words with skewed frequencies: conjunctions / unions of 4..6 terms have many matches (block-WAND paths of C06)
    sb.add_text_field("body", TEXT);
    sb.build()
}

pub fn word(v: &Value) -> String {
    match v {
        Value::String(s) => s.clone(),
        Value::Array(a) => a.iter().map(|c| (b'a' + (c.as_u64().unwrap() as u8) - 1) as char).collect(),
        _ => panic!("word: {v}"),
    }
}

fn ints(d: &Value, k: &str) -> Vec<i64> {
    d.get(k).and_then(|x| x.as_array()).map(|a| a.iter().map(|x| x.as_i64().unwrap()).collect()).unwrap_or_default()
}

pub fn date_of(k: i64) -> DateTime {
    DateTime::from_timestamp_secs(k * 86_400)
}
pub fn ip_of(k: i64) -> Ipv6Addr {
    Ipv6Addr::from(k as u128)
}

pub fn to_doc(schema: &Schema, d: &Value) -> TantivyDocument {
    let f = |n: &str| schema.get_field(n).unwrap();
    let mut doc = TantivyDocument::default();
    doc.add_u64(f("id"), d["id"].as_u64().unwrap());
    if let Some(t) = d.get("title").and_then(|x| x.as_array()) {
        let toks: Vec<String> = t.iter().map(|x| x.as_str().unwrap().to_string()).collect();
        doc.add_text(f("title"), toks.join(" "));
        doc.add_text(f("nf"), toks.join(" "));
        doc.add_text(f("bt"), toks.join(" "));
    }
    if let Some(t) = d.get("note").and_then(|x| x.as_array()) {
        if !t.is_empty() {
            let toks: Vec<String> = t.iter().map(|x| x.as_str().unwrap().to_string()).collect();
            doc.add_text(f("note"), toks.join(" "));
        }
    }
    if let Some(t) = d.get("body").and_then(|x| x.as_array()) {
        let toks: Vec<String> = t.iter().map(|x| x.as_str().unwrap().to_string()).collect();
        doc.add_text(f("body"), toks.join(" "));
    }
    if let Some(t) = d.get("tag").and_then(|x| x.as_array()) {
        for w in t {
            doc.add_text(f("tag"), word(w));
            doc.add_text(f("tagi"), word(w));
        }
    }
    for v in ints(d, "num") {
        doc.add_i64(f("num"), v);
        doc.add_i64(f("numi"), v);
    }
    if !ints(d, "num").is_empty() {
        let vals: Vec<OwnedValue> = ints(d, "num").into_iter().map(OwnedValue::I64).collect();
        let mut obj = std::collections::BTreeMap::new();
        obj.insert("v".to_string(), OwnedValue::Array(vals));
        doc.add_object(f("js"), obj);
    }
    for v in ints(d, "u") {
        doc.add_u64(f("u"), v as u64);
    }
    for v in ints(d, "fl") {
        doc.add_f64(f("fl"), v as f64 / 2.0);
    }
    for v in ints(d, "flag") {
        doc.add_bool(f("flag"), v != 0);
        doc.add_bool(f("flagi"), v != 0);
    }
    for v in ints(d, "dt") {
        doc.add_date(f("dt"), date_of(v));
    }
    for v in ints(d, "ip") {
        doc.add_ip_addr(f("ip"), ip_of(v));
    }
    for v in ints(d, "pop") {
        doc.add_i64(f("pop"), v);
    }
    if let Some(t) = d.get("cat").and_then(|x| x.as_array()) {
        for w in t {
            doc.add_text(f("cat"), word(w));
        }
    }
    doc
}

pub const VOCAB: [&str; 8] = ["t0", "t1", "t2", "t3", "t4", "t5", "t6", "t7"];
pub const RARE: [(&str, usize); 4] = [("r1", 1), ("r127", 127), ("r128", 128), ("r129", 129)];

fn skew(rng: &mut StdRng) -> usize {
    let mut i = 0;
    while i < 7 && rng.random_bool(0.5) {
        i += 1;
    }
    i
}

pub fn gen_word(rng: &mut StdRng) -> Vec<u8> {
    let n = rng.random_range(1..=4);
    (0..n).map(|_| rng.random_range(1..=3u8)).collect()
}

/// `n` logical documents.  `ties`: few distinct token lengths / frequencies (C06).
pub fn gen_corpus(rng: &mut StdRng, n: usize, dense_all: bool) -> Vec<Value> {
    let mut docs = vec![];
    // documents that carry the rare terms
    let mut rare_at: Vec<Vec<usize>> = vec![];
    for (_, df) in RARE.iter() {
        let df = (*df).min(n);
        let mut ix: Vec<usize> = (0..n).collect();
        ix.shuffle(rng);
        ix.truncate(df);
        rare_at.push(ix);
    }
    for id in 0..n {
        let ntok = rng.random_range(0..7);
        let mut toks: Vec<String> = (0..ntok).map(|_| VOCAB[skew(rng)].to_string()).collect();
        if dense_all || rng.random_bool(0.97) {
            let p = rng.random_range(0..=toks.len());
            toks.insert(p, "all".to_string());
        }
        for (k, (name, _)) in RARE.iter().enumerate() {
            if rare_at[k].contains(&id) {
                let p = rng.random_range(0..=toks.len());
                toks.insert(p, name.to_string());
            }
        }
        let ntag = rng.random_range(0..3);
        let tags: Vec<Vec<u8>> = (0..ntag).map(|_| gen_word(rng)).collect();
        let nnum = rng.random_range(0..3);
        let nums: Vec<i64> = (0..nnum).map(|_| rng.random_range(-5..30)).collect();
        let mut d = json!({"id": id, "title": toks, "tag": tags, "num": nums, "fl": [rng.random_range(-10..=10)]});
        let m = d.as_object_mut().unwrap();
        m.insert("u".into(), if rng.random_bool(0.6) { json!([rng.random_range(0..20)]) } else { json!([]) });
        m.insert("flag".into(), if rng.random_bool(0.7) { json!([rng.random_range(0..2)]) } else { json!([]) });
        m.insert("dt".into(), if rng.random_bool(0.5) { json!([rng.random_range(0..15)]) } else { json!([]) });
        m.insert("ip".into(), if rng.random_bool(0.5) { json!([rng.random_range(0..15)]) } else { json!([]) });
        // few distinct values: massive ties for the sort keys of C06
        m.insert("pop".into(), if rng.random_bool(0.8) { json!([rng.random_range(-2..4)]) } else { json!([]) });
        m.insert("cat".into(), if rng.random_bool(0.8) { json!([gen_word(rng)]) } else { json!([]) });
        // body: few length classes (ties through equal fieldnorms), skewed term frequencies, most of the 8 words in most documents
        let blen = *[6usize, 10, 10, 16, 16, 24].choose(rng).unwrap();
        let body: Vec<String> = (0..blen).map(|_| {
            let mut i = 0;
            while i < 7 && rng.random_bool(0.62) { i += 1; }
            format!("b{i}")
        }).collect();
        let mut body = body;
        // words that only occur in a prefix of the corpus (their posting lists end in the middle of a segment, so a union
        // scorer is exhausted by a pivot seek while others go on) and rare words with a high frequency (strong single clauses)
        let frac = id as f64 / n.max(1) as f64;
        for (j, cut) in [0.2, 0.4, 0.6, 0.8].iter().enumerate() {
            if frac < *cut && rng.random_bool(0.7) {
                for _ in 0..rng.random_range(1..3) {
                    let p = rng.random_range(0..=body.len());
                    body.insert(p, format!("c{j}"));
                }
            }
        }
        for j in 0..3 {
            if rng.random_bool(0.03) {
                for _ in 0..rng.random_range(2..6) {
                    let p = rng.random_range(0..=body.len());
                    body.insert(p, format!("g{j}"));
                }
            }
        }
        // a few very long documents: a term frequency above 255 saturates the one-byte block-WAND code
        // By default two words alternate, so that a term frequency stays near half of the field length.  With
        // VERIF_HEAVY_SINGLE=1 one word fills the document: the quantised field norm then decodes to a length below the term
        // frequency and the real score exceeds Bm25Weight::max_score (recorded finding F47, dedicated sub-run of C06).
        if rng.random_bool(0.02) {
            let single = std::env::var("VERIF_HEAVY_SINGLE").is_ok();
            let w = format!("b{}", rng.random_range(0..2));
            let other = if w == "b0" { "b1".to_string() } else { "b0".to_string() };
            for _ in 0..rng.random_range(200..700) {
                body.push(w.clone());
                if !single {
                    body.push(other.clone());
                }
            }
        }
        m.insert("body".into(), json!(body));

        docs.push(d);
    }
    // Fields added later draw from their own generators, seeded from the documents generated so far: the main stream (and with
    // it every corpus-dependent regression case, the segment cuts and the queries of a seed) stays what it was.
    let base = docs.iter().take(64).fold(0xcbf29ce484222325u64, |h, d| {
        d.to_string().bytes().fold(h, |h, b| (h ^ b as u64).wrapping_mul(0x100000001b3))
    });
    for (id, d) in docs.iter_mut().enumerate() {
        let mut r = StdRng::seed_from_u64(base ^ 0x6e6f7465 ^ ((id as u64) << 24));
        // note: present in about one document out of six, 1..4 tokens of two words
        let note: Vec<String> = if r.random_bool(0.17) {
            (0..r.random_range(1..5)).map(|_| if r.random_bool(0.65) { "n0".to_string() } else { "n1".to_string() }).collect()
        } else {
            vec![]
        };
        d.as_object_mut().unwrap().insert("note".into(), json!(note));
    }
    docs
}

/// Builds an index: documents in order, a commit after each position in `cuts` (document
/// counts), then the deletes (by id) in one more commit, optionally a merge of everything.
pub fn build_index(schema: &Schema, docs: &[Value], cuts: &[usize], deleted: &[u64], merge_all: bool) -> tantivy::Result<Index> {
    let index = Index::create_in_ram(schema.clone());
    let mut w: IndexWriter = index.writer_with_num_threads(1, 60_000_000)?;
    w.set_merge_policy(Box::new(NoMergePolicy));
    for (i, d) in docs.iter().enumerate() {
        w.add_document(to_doc(schema, d))?;
        if cuts.contains(&(i + 1)) {
            w.commit()?;
        }
    }
    w.commit()?;
    if !deleted.is_empty() {
        let idf = schema.get_field("id").unwrap();
        for id in deleted {
            w.delete_term(Term::from_field_u64(idf, *id));
        }
        w.commit()?;
    }
    if merge_all {
        let ids = index.searchable_segment_ids()?;
        if ids.len() > 1 {
            w.merge(&ids).wait()?;
        }
    }
    w.wait_merging_threads()?;
    Ok(index)
}

fn field_term(schema: &Schema, fname: &str, v: &Value) -> Result<Term, String> {
    let field = schema.get_field(fname).map_err(|e| e.to_string())?;
    let ty = schema.get_field_entry(field).field_type().value_type();
    Ok(match ty {
        Type::Str => Term::from_field_text(field, &word(v)),
        Type::I64 => Term::from_field_i64(field, v.as_i64().ok_or("i64")?),
        Type::U64 => Term::from_field_u64(field, v.as_u64().ok_or("u64")?),
        Type::F64 => Term::from_field_f64(field, v.as_i64().ok_or("f64")? as f64 / 2.0),
        Type::Bool => Term::from_field_bool(field, v.as_i64().ok_or("bool")? != 0),
        Type::Date => Term::from_field_date(field, date_of(v.as_i64().ok_or("date")?)),
        Type::IpAddr => Term::from_field_ip_addr(field, ip_of(v.as_i64().ok_or("ip")?)),
        _ => return Err(format!("unsupported field type {ty:?}")),
    })
}

fn bound(schema: &Schema, f: &str, b: &Value) -> Result<Bound<Term>, String> {
    Ok(match b["b"].as_str().unwrap_or("un") {
        "in" => Bound::Included(field_term(schema, f, &b["v"])?),
        "ex" => Bound::Excluded(field_term(schema, f, &b["v"])?),
        _ => Bound::Unbounded,
    })
}

/// regex AST -> pattern:  {"r":"lit","c":1} {"r":"any"} {"r":"cat","a":..,"b":..} {"r":"alt",..} {"r":"star","a":..} {"r":"opt","a":..}
pub fn regex_pattern(r: &Value) -> String {
    match r["r"].as_str().unwrap() {
        "lit" => ((b'a' + r["c"].as_u64().unwrap() as u8 - 1) as char).to_string(),
        "any" => ".".to_string(),
        "cat" => format!("{}{}", regex_pattern(&r["a"]), regex_pattern(&r["b"])),
        "alt" => format!("({}|{})", regex_pattern(&r["a"]), regex_pattern(&r["b"])),
        "star" => format!("({})*", regex_pattern(&r["a"])),
        "opt" => format!("({})?", regex_pattern(&r["a"])),
        x => panic!("regex node {x}"),
    }
}

/// Query JSON -> tantivy query.
///  {"k":"term","f":F,"t":V,"opt":"basic|freq|pos"}     {"k":"all"}  {"k":"empty"}
///  {"k":"phrase","f":F,"ts":[..],"slop":n}  {"k":"pprefix","f":F,"ts":[..]}  {"k":"rphrase","f":F,"ts":[patterns]}
///  {"k":"range","f":F,"lo":{"b":"in|ex|un","v":V},"hi":{..}}   {"k":"set","f":F,"ts":[V..]}   {"k":"exists","f":F}
///  {"k":"fuzzy","f":F,"t":W,"d":n,"tr":bool,"prefix":bool}   {"k":"regex","f":F,"re":AST}
///  {"k":"boost","q":Q,"b":x}  {"k":"const","q":Q,"s":x}  {"k":"dismax","qs":[Q..],"tie":x}
///  {"k":"bool","cl":[{"o":"must|should|mustnot","q":Q}..],"msm":n, "explicit":bool}
pub fn build_query(schema: &Schema, q: &Value) -> Result<Box<dyn Query>, String> {
    let fname = q.get("f").and_then(|x| x.as_str()).unwrap_or("");
    Ok(match q["k"].as_str().ok_or("query kind")? {
        "term" => {
            let term = field_term(schema, fname, &q["t"])?;
            let opt = match q.get("opt").and_then(|x| x.as_str()).unwrap_or("freq") {
                "basic" => IndexRecordOption::Basic,
                "pos" => IndexRecordOption::WithFreqsAndPositions,
                _ => IndexRecordOption::WithFreqs,
            };
            Box::new(TermQuery::new(term, opt))
        }
        "all" => Box::new(AllQuery),
        "empty" => Box::new(EmptyQuery),
        "phrase" => {
            let ts: Vec<(usize, Term)> = q["ts"].as_array().unwrap().iter().enumerate()
                .map(|(i, t)| Ok((i, field_term(schema, fname, t)?))).collect::<Result<_, String>>()?;
            let slop = q.get("slop").and_then(|x| x.as_u64()).unwrap_or(0) as u32;
            Box::new(PhraseQuery::new_with_offset_and_slop(ts, slop))
        }
        "pprefix" => {
            let ts: Vec<Term> = q["ts"].as_array().unwrap().iter().map(|t| field_term(schema, fname, t)).collect::<Result<_, String>>()?;
            let mut pq = PhrasePrefixQuery::new(ts);
            if let Some(m) = q.get("maxexp").and_then(|x| x.as_u64()) {
                pq.set_max_expansions(m as u32);
            }
            Box::new(pq)
        }
        "rphrase" => {
            let field = schema.get_field(fname).map_err(|e| e.to_string())?;
            let ts: Vec<String> = q["ts"].as_array().unwrap().iter().map(|t| t.as_str().unwrap().to_string()).collect();
            Box::new(RegexPhraseQuery::new(field, ts))
        }
        "range" => {
            let lo = bound(schema, fname, &q["lo"])?;
            let hi = bound(schema, fname, &q["hi"])?;
            if matches!(lo, Bound::Unbounded) && matches!(hi, Bound::Unbounded) {
                return Err("range without bound (API precondition)".into());
            }
            Box::new(RangeQuery::new(lo, hi))
        }
        // range over the JSON path js.v with f64 bounds given in halves: {"b":"in","h":3} = Included(1.5)
        "jrange" => {
            let field = schema.get_field("js").map_err(|e| e.to_string())?;
            let jb = |b: &Value| -> Bound<Term> {
                let mk = |h: i64| {
                    let mut t = Term::from_field_json_path(field, "v", false);
                    t.append_type_and_fast_value(h as f64 / 2.0);
                    t
                };
                match b["b"].as_str().unwrap_or("un") {
                    "in" => Bound::Included(mk(b["h"].as_i64().unwrap())),
                    "ex" => Bound::Excluded(mk(b["h"].as_i64().unwrap())),
                    _ => Bound::Unbounded,
                }
            };
            let (lo, hi) = (jb(&q["lo"]), jb(&q["hi"]));
            if matches!(lo, Bound::Unbounded) && matches!(hi, Bound::Unbounded) {
                return Err("range without bound (API precondition)".into());
            }
            Box::new(RangeQuery::new(lo, hi))
        }
        "set" => {
            let ts: Vec<Term> = q["ts"].as_array().unwrap().iter().map(|t| field_term(schema, fname, t)).collect::<Result<_, String>>()?;
            Box::new(TermSetQuery::new(ts))
        }
        "exists" => Box::new(ExistsQuery::new(fname.to_string(), false)),
        "fuzzy" => {
            let term = field_term(schema, fname, &q["t"])?;
            let d = q["d"].as_u64().unwrap_or(1) as u8;
            let tr = q["tr"].as_bool().unwrap_or(false);
            if q["prefix"].as_bool().unwrap_or(false) {
                Box::new(FuzzyTermQuery::new_prefix(term, d, tr))
            } else {
                Box::new(FuzzyTermQuery::new(term, d, tr))
            }
        }
        "regex" => {
            let field = schema.get_field(fname).map_err(|e| e.to_string())?;
            let pat = match q.get("pat").and_then(|x| x.as_str()) {
                Some(p) => p.to_string(),
                None => regex_pattern(&q["re"]),
            };
            Box::new(RegexQuery::from_pattern(&pat, field).map_err(|e| e.to_string())?)
        }
        "boost" => Box::new(BoostQuery::new(build_query(schema, &q["q"])?, q["b"].as_f64().unwrap_or(2.0) as f32)),
        "const" => Box::new(ConstScoreQuery::new(build_query(schema, &q["q"])?, q["s"].as_f64().unwrap_or(1.5) as f32)),
        "dismax" => {
            let qs: Vec<Box<dyn Query>> = q["qs"].as_array().unwrap().iter().map(|x| build_query(schema, x)).collect::<Result<_, String>>()?;
            Box::new(DisjunctionMaxQuery::with_tie_breaker(qs, q.get("tie").and_then(|x| x.as_f64()).unwrap_or(0.0) as f32))
        }
        "bool" => {
            let mut cl: Vec<(Occur, Box<dyn Query>)> = vec![];
            for c in q["cl"].as_array().unwrap() {
                let o = match c["o"].as_str().unwrap() {
                    "must" => Occur::Must,
                    "should" => Occur::Should,
                    _ => Occur::MustNot,
                };
                cl.push((o, build_query(schema, &c["q"])?));
            }
            if q.get("explicit").and_then(|x| x.as_bool()).unwrap_or(false) {
                Box::new(BooleanQuery::with_minimum_required_clauses(cl, q["msm"].as_u64().unwrap() as usize))
            } else {
                Box::new(BooleanQuery::new(cl))
            }
        }
        k => return Err(format!("unknown query kind {k}")),
    })
}

/// The `msm` the constructor chose is an input the specification needs: fill it in from the real object.
pub fn bool_json(cl: Vec<Value>, explicit_msm: Option<usize>) -> Value {
    match explicit_msm {
        Some(m) => json!({"k":"bool","cl":cl,"msm":m,"explicit":true}),
        None => {
            // BooleanQuery::new: 1 if there are only Should clauses... read it back from the real constructor
            let sub: Vec<(Occur, Box<dyn Query>)> = cl.iter().map(|c| {
                let o = match c["o"].as_str().unwrap() { "must" => Occur::Must, "should" => Occur::Should, _ => Occur::MustNot };
                (o, Box::new(EmptyQuery) as Box<dyn Query>)
            }).collect();
            let m = BooleanQuery::new(sub).get_minimum_number_should_match();
            json!({"k":"bool","cl":cl,"msm":m,"explicit":false})
        }
    }
}

/// number of leaf clauses that contribute a score (tolerance of float sums)
pub fn leaves(q: &Value) -> usize {
    match q["k"].as_str().unwrap_or("") {
        "bool" => q["cl"].as_array().unwrap().iter().filter(|c| c["o"] != "mustnot").map(|c| leaves(&c["q"])).sum::<usize>().max(1),
        "dismax" => q["qs"].as_array().unwrap().iter().map(leaves).sum::<usize>().max(1),
        "boost" | "const" => leaves(&q["q"]),
        _ => 1,
    }
}

/// VERIF_UNSTEER=F37,F39 in the environment switches the steering around the named recorded findings off
/// (to test a candidate repair with tools/with_patch.sh)
pub fn unsteered(f: &str) -> bool {
    // F37, F39 and F53 are repaired in /repo (fix commits): their classes are explored by default
    if f == "F37" || f == "F39" || f == "F53" {
        return true;
    }
    std::env::var("VERIF_UNSTEER").map(|v| v.to_uppercase().split(',').any(|x| x.trim() == f)).unwrap_or(false)
}

pub struct GenOpts {
    pub depth: u32,
    pub leaf_kinds: Vec<&'static str>,
    pub avoid_single_should_msm: bool,
}

impl GenOpts {
    pub fn all(depth: u32) -> GenOpts {
        GenOpts {
            depth,
            leaf_kinds: vec!["term", "term", "term", "tagterm", "phrase", "phrase", "pprefix", "range", "range", "irange", "srange", "orange", "jrange", "set", "exists",
                             "all", "empty", "fuzzy", "regex", "rare", "absent"],
            avoid_single_should_msm: false,
        }
    }
}

fn rbound(rng: &mut StdRng, v: Value) -> Value {
    match rng.random_range(0..5) {
        0 | 1 => json!({"b":"in","v":v}),
        2 | 3 => json!({"b":"ex","v":v}),
        _ => json!({"b":"un"}),
    }
}

fn range_json(rng: &mut StdRng, f: &str, lo: Value, hi: Value) -> Value {
    let mut l = rbound(rng, lo.clone());
    let h = rbound(rng, hi);
    if l["b"] == "un" && h["b"] == "un" {
        l = json!({"b":"in","v":lo});
    }
    json!({"k":"range","f":f,"lo":l,"hi":h})
}

pub fn gen_regex(rng: &mut StdRng, depth: u32) -> Value {
    if depth == 0 {
        return if rng.random_bool(0.25) { json!({"r":"any"}) } else { json!({"r":"lit","c":rng.random_range(1..=3)}) };
    }
    match rng.random_range(0..6) {
        0 | 1 => json!({"r":"cat","a":gen_regex(rng, depth - 1),"b":gen_regex(rng, depth - 1)}),
        2 => json!({"r":"alt","a":gen_regex(rng, depth - 1),"b":gen_regex(rng, depth - 1)}),
        3 => json!({"r":"star","a":gen_regex(rng, depth - 1)}),
        4 => json!({"r":"opt","a":gen_regex(rng, depth - 1)}),
        _ => gen_regex(rng, 0),
    }
}

pub fn gen_leaf(rng: &mut StdRng, o: &GenOpts) -> Value {
    let kind = *o.leaf_kinds.choose(rng).unwrap();
    let tok = |rng: &mut StdRng| VOCAB[skew(rng)].to_string();
    match kind {
        "term" => {
            let t = if rng.random_bool(0.1) { "all".to_string() } else { tok(rng) };
            json!({"k":"term","f":"title","t":t,"opt":*["basic","freq","pos"].choose(rng).unwrap()})
        }
        "rare" => json!({"k":"term","f":"title","t":RARE.choose(rng).unwrap().0,"opt":"freq"}),
        "absent" => json!({"k":"term","f":"title","t":"zz","opt":"freq"}),
        "tagterm" => json!({"k":"term","f":if rng.random_bool(0.5) {"tag"} else {"tagi"},"t":gen_word(rng),"opt":"basic"}),
        "phrase" => {
            let n = rng.random_range(2..4);
            let ts: Vec<String> = (0..n).map(|_| if rng.random_bool(0.15) { "all".to_string() } else { tok(rng) }).collect();
            // slop > 0 only for two terms (DESIGN: the documented budget semantics is forced there)
            // ... and only for two *distinct* terms: "x x"~1 matches a document with a single x (the position of
            // the first term is within one move of where the second is expected); the documentation does not decide this
            let slop = if n == 2 && ts[0] != ts[1] && rng.random_bool(0.4) { rng.random_range(1..3) } else { 0 };
            json!({"k":"phrase","f":"title","ts":ts,"slop":slop})
        }
        "pprefix" => {
            let a = tok(rng);
            let p = *["t", "t1", "a", "r12", "r", "al", "z"].choose(rng).unwrap();
            json!({"k":"pprefix","f":"title","ts":[a, p]})
        }
        "range" => {
            let lo = rng.random_range(-6..30i64);
            let hi = lo + rng.random_range(-1..10i64);
            range_json(rng, "num", json!(lo), json!(hi))
        }
        "jrange" => {
            // f64 bounds (in halves) on the integer JSON column js.v.  Recorded finding: a positive non-integer lower bound and a
            // negative non-integer upper bound are rounded toward zero - those two classes are left to the dedicated sub-run
            let lo_h = rng.random_range(-14..62i64);
            let hi_h = lo_h + rng.random_range(-2..20i64);
            let steer = !unsteered("F37");
            let lo_h = if steer && lo_h > 0 && lo_h % 2 != 0 { lo_h + 1 } else { lo_h };
            let hi_h = if steer && hi_h < 0 && hi_h % 2 != 0 { hi_h - 1 } else { hi_h };
            let mut lo = match rng.random_range(0..5) { 0 | 1 => json!({"b":"in","h":lo_h}), 2 | 3 => json!({"b":"ex","h":lo_h}), _ => json!({"b":"un"}) };
            let hi = match rng.random_range(0..5) { 0 | 1 => json!({"b":"in","h":hi_h}), 2 | 3 => json!({"b":"ex","h":hi_h}), _ => json!({"b":"un"}) };
            if lo["b"] == "un" && hi["b"] == "un" {
                lo = json!({"b":"in","h":lo_h});
            }
            json!({"k":"jrange","lo":lo,"hi":hi})
        }
        "irange" => {
            let lo = rng.random_range(-6..30i64);
            let hi = lo + rng.random_range(-1..10i64);
            range_json(rng, "numi", json!(lo), json!(hi))
        }
        "srange" => {
            let (a, b) = (gen_word(rng), gen_word(rng));
            let (a, b) = if a <= b || rng.random_bool(0.1) { (a, b) } else { (b, a) };
            let f = if rng.random_bool(0.5) { "tag" } else { "tagi" };
            range_json(rng, f, json!(a), json!(b))
        }
        "orange" => {
            // the other field types
            match rng.random_range(0..5) {
                0 => { let lo = rng.random_range(0..20i64); let hi = lo + rng.random_range(0..8); range_json(rng, "u", json!(lo), json!(hi)) }
                1 => { let lo = rng.random_range(-11..11i64); let hi = lo + rng.random_range(0..8); range_json(rng, "fl", json!(lo), json!(hi)) }
                2 => {
                    let lo = rng.random_range(0..2i64);
                    let hi = rng.random_range(lo..2);
                    // both the FAST bool field (fast-field range path) and the indexed-only one (term dictionary path)
                    let f = if rng.random_bool(0.5) { "flag" } else { "flagi" };
                    range_json(rng, f, json!(lo), json!(hi))
                }
                3 => { let lo = rng.random_range(0..15i64); let hi = lo + rng.random_range(0..6); range_json(rng, "dt", json!(lo), json!(hi)) }
                _ => {
                    let lo = rng.random_range(0..15i64);
                    let hi = lo + rng.random_range(0..6);
                    let mut q = range_json(rng, "ip", json!(lo), json!(hi));
                    // recorded finding: the upper bound Excluded(::) underflows (matches every address): left to the dedicated sub-run
                    if !unsteered("F39") && q["hi"]["b"] == "ex" && q["hi"]["v"] == 0 {
                        q["hi"]["b"] = json!("in");
                    }
                    q
                }
            }
        }
        "set" => {
            if rng.random_bool(0.5) {
                let n = rng.random_range(0..4);
                let ts: Vec<String> = (0..n).map(|_| if rng.random_bool(0.2) { "zz".to_string() } else { tok(rng) }).collect();
                json!({"k":"set","f":"title","ts":ts})
            } else {
                let n = rng.random_range(1..4);
                let ts: Vec<Vec<u8>> = (0..n).map(|_| gen_word(rng)).collect();
                json!({"k":"set","f":"tag","ts":ts})
            }
        }
        "exists" => json!({"k":"exists","f":*["u","flag","dt","ip","num","tag","fl"].choose(rng).unwrap()}),
        "all" => json!({"k":"all"}),
        "empty" => json!({"k":"empty"}),
        "fuzzy" => {
            let tr = rng.random_bool(0.5);
            // distance 2 only without transposition cost one (restricted vs. full Damerau differ there)
            let prefix = rng.random_bool(0.3);
            // prefix mode only up to distance 1 (recorded finding: with distance 2 the prefix automaton of
            // levenshtein_automata is not closed under extension: "b" matches the term "aab", "bc" does not)
            let d = if tr || prefix { rng.random_range(0..2) } else { rng.random_range(0..3) };
            json!({"k":"fuzzy","f":"tag","t":gen_word(rng),"d":d,"tr":tr,"prefix":prefix})
        }
        "regex" => json!({"k":"regex","f":"tag","re":gen_regex(rng, 2)}),
        x => panic!("leaf kind {x}"),
    }
}

pub fn gen_query(rng: &mut StdRng, depth: u32, o: &GenOpts) -> Value {
    if depth == 0 || rng.random_range(0..10) < 4 {
        return gen_leaf(rng, o);
    }
    match rng.random_range(0..14) {
        12 | 13 => {
            // minimum_number_should_match below the number of Should clauses (the Disjunction scorer), next to Must / MustNot
            // clauses at the same level or nested as a Must / MustNot operand; cheap and expensive conjuncts mixed
            let ns = rng.random_range(3..6usize);
            let msm = rng.random_range(2..ns);
            let mut cl: Vec<Value> = if rng.random_bool(0.5) {
                (0..ns).map(|_| json!({"o":"should","q":gen_query(rng, depth - 1, o)})).collect()
            } else {
                // frequent words: many documents match 2 * msm clauses or more
                let mut ws = vec!["all", "t0", "t1", "t2", "t0", "all"];
                ws.shuffle(rng);
                ws[..ns.min(6)].iter().map(|w| json!({"o":"should","q":{"k":"term","f":"title","t":w,"opt":*["basic","freq"].choose(rng).unwrap()}})).collect()
            };
            let same_level = rng.random_bool(0.6);
            if same_level {
                for _ in 0..rng.random_range(1..3) {
                    let oc = if rng.random_bool(0.75) { "must" } else { "mustnot" };
                    cl.push(json!({"o":oc,"q":gen_leaf(rng, o)}));
                }
                cl.shuffle(rng);
                bool_json(cl, Some(msm))
            } else {
                let d = bool_json(cl, Some(msm));
                let oc = if rng.random_bool(0.7) { "must" } else { "mustnot" };
                let mut outer = vec![json!({"o":oc,"q":d}), json!({"o":"must","q":gen_leaf(rng, o)})];
                if rng.random_bool(0.4) {
                    outer.push(json!({"o":"should","q":gen_leaf(rng, o)}));
                }
                outer.shuffle(rng);
                bool_json(outer, None)
            }
        }
        0 => json!({"k":"boost","q":gen_query(rng, depth - 1, o),"b":*[0.5, 2.0, 3.0].choose(rng).unwrap()}),
        1 => json!({"k":"const","q":gen_query(rng, depth - 1, o),"s":*[0.5, 1.5].choose(rng).unwrap()}),
        2 => {
            let n = rng.random_range(1..4);
            let qs: Vec<Value> = (0..n).map(|_| gen_query(rng, depth - 1, o)).collect();
            json!({"k":"dismax","qs":qs,"tie":*[0.0, 0.3].choose(rng).unwrap()})
        }
        _ => {
            let n = rng.random_range(1..5);
            let mut cl = vec![];
            for _ in 0..n {
                let oc = match rng.random_range(0..7) { 0..=1 => "must", 2..=4 => "should", _ => "mustnot" };
                cl.push(json!({"o":oc,"q":gen_query(rng, depth - 1, o)}));
            }
            let nshould = cl.iter().filter(|c| c["o"] == "should").count();
            if rng.random_bool(0.35) {
                let mut msm = rng.random_range(0..4usize);
                if o.avoid_single_should_msm && nshould == 1 && n == 1 && msm >= 2 {
                    msm = 1;
                }
                bool_json(cl, Some(msm))
            } else {
                bool_json(cl, None)
            }
        }
    }
}
