//! C08 driver: fast fields / columnar.  Builds tables (row -> values per column) from seeded
//! patterns, writes them through tantivy_columnar (ColumnarWriter -> ColumnarReader ->
//! merge_columnar) or through IndexWriter -> SegmentReader::fast_fields(), reads every column
//! back and logs inputs and outputs as *ranks* in the sorted list of distinct values of the
//! column (equal rank = equal value; the list itself is the certificate).  No expected value is
//! computed here; spec/ColumnsTrace.tla judges.
//!   columns_driver run --in cases.ndjson --out trace.ndjson
use rand::prelude::*;
use serde_json::{json, Value};
use std::cmp::Ordering;
use std::collections::BTreeMap;
use std::io::BufRead;
use std::net::Ipv6Addr;
use std::panic::{catch_unwind, AssertUnwindSafe};
use tantivy::indexer::NoMergePolicy;
use tantivy::schema::Value as _;
use tantivy::schema::*;
use tantivy::{DateTime, Index, IndexWriter, TantivyDocument, Term};
use tantivy_columnar::{
    merge_columnar, BytesColumn, Cardinality, Column, ColumnarReader, ColumnarWriter, DynamicColumn, MergeRowOrder, RowAddr,
    ShuffleMergeOrder, StackMergeOrder,
};
use tantivy_common::{BitSet, OwnedBytes, ReadOnlyBitSet};
use vh::trace::Tracer;
use vh::Args;

/// also look up value ranges that lie entirely below the minimum of the column (recorded finding)
static BELOW_MIN: std::sync::atomic::AtomicBool = std::sync::atomic::AtomicBool::new(false);

#[derive(Clone, Debug)]
enum V {
    U(u64),
    I(i64),
    F(f64),
    B(bool),
    D(i64),
    Ip(u128),
    S(String),
    Y(Vec<u8>),
}

fn cat(v: &V) -> &'static str {
    match v {
        V::U(_) | V::I(_) | V::F(_) => "num",
        V::B(_) => "bool",
        V::D(_) => "date",
        V::Ip(_) => "ip",
        V::S(_) => "str",
        V::Y(_) => "bytes",
    }
}

/// order of the real values; -0.0 sorts just below 0
fn cmp_int_f(i: i128, f: f64) -> Ordering {
    if f == f64::INFINITY || f >= 1.0e30 {
        return Ordering::Less;
    }
    if f == f64::NEG_INFINITY || f <= -1.0e30 {
        return Ordering::Greater;
    }
    let fl = f.floor();
    let fi = fl as i128;
    match i.cmp(&fi) {
        Ordering::Equal => {
            if f - fl > 0.0 {
                Ordering::Less
            } else if f == 0.0 && f.is_sign_negative() {
                Ordering::Greater
            } else {
                Ordering::Equal
            }
        }
        o => o,
    }
}
fn vcmp(a: &V, b: &V) -> Ordering {
    let int = |v: &V| match v {
        V::U(x) => Some(*x as i128),
        V::I(x) => Some(*x as i128),
        _ => None,
    };
    match (a, b) {
        (V::F(x), V::F(y)) => x.total_cmp(y),
        (V::F(x), _) if int(b).is_some() => cmp_int_f(int(b).unwrap(), *x).reverse(),
        (_, V::F(y)) if int(a).is_some() => cmp_int_f(int(a).unwrap(), *y),
        (V::B(x), V::B(y)) => x.cmp(y),
        (V::D(x), V::D(y)) => x.cmp(y),
        (V::Ip(x), V::Ip(y)) => x.cmp(y),
        (V::S(x), V::S(y)) => x.as_bytes().cmp(y.as_bytes()),
        (V::Y(x), V::Y(y)) => x.cmp(y),
        _ => int(a).unwrap().cmp(&int(b).unwrap()),
    }
}
fn vstr(v: &V) -> String {
    match v {
        V::U(x) => x.to_string(),
        V::I(x) => x.to_string(),
        V::F(x) => {
            if x.fract() == 0.0 && x.abs() < 9.0e18 && !(*x == 0.0 && x.is_sign_negative()) {
                format!("{}", *x as i128)
            } else {
                format!("f:{:016x}", x.to_bits())
            }
        }
        V::B(x) => x.to_string(),
        V::D(x) => format!("d:{x}"),
        V::Ip(x) => format!("ip:{x:032x}"),
        V::S(x) => format!("s:{x}"),
        V::Y(x) => format!("y:{}", x.iter().map(|b| format!("{b:02x}")).collect::<String>()),
    }
}
/// class of a numerical input value, for the coercion rule
fn class(v: &V) -> &'static str {
    match v {
        V::I(x) if *x < 0 => "neg",
        V::U(x) if *x > i64::MAX as u64 => "big",
        V::U(x) if *x == i64::MAX as u64 => "imax",
        V::F(_) => "float",
        _ => "small",
    }
}

type Rows = Vec<Vec<V>>;

#[derive(Clone)]
struct Table {
    nrows: usize,
    cols: BTreeMap<String, Rows>, // key "name|cat"
}

struct Certs {
    m: BTreeMap<String, Vec<V>>,
}
impl Certs {
    fn build(tables: &[Table]) -> Certs {
        let mut m: BTreeMap<String, Vec<V>> = BTreeMap::new();
        for t in tables {
            for (k, rows) in &t.cols {
                let e = m.entry(k.clone()).or_default();
                for r in rows {
                    e.extend(r.iter().cloned());
                }
            }
        }
        for v in m.values_mut() {
            v.sort_by(vcmp);
            v.dedup_by(|a, b| vcmp(a, b) == Ordering::Equal);
        }
        Certs { m }
    }
    fn rank(&self, key: &str, v: &V) -> i64 {
        match self.m.get(key) {
            Some(c) => c.binary_search_by(|x| vcmp(x, v)).map(|i| i as i64).unwrap_or(-1),
            None => -1,
        }
    }
    /// number of certificate values strictly below v / at most v
    fn below(&self, key: &str, v: &V) -> usize {
        self.m.get(key).map(|c| c.partition_point(|x| vcmp(x, v) == Ordering::Less)).unwrap_or(0)
    }
    fn upto(&self, key: &str, v: &V) -> usize {
        self.m.get(key).map(|c| c.partition_point(|x| vcmp(x, v) != Ordering::Greater)).unwrap_or(0)
    }
}

/// tables of more rows than this travel as the list of their non-empty rows: [[row, [ranks]], ...]
const SPARSE_ROWS: usize = 300_000;
fn sparse_rows(off: &[usize], flat: &[i64]) -> Vec<Value> {
    (0..off.len() - 1).filter(|r| off[*r] < off[r + 1]).map(|r| json!([r, &flat[off[r]..off[r + 1]]])).collect()
}

fn off_flat(rows: &Rows, key: &str, certs: &Certs) -> (Vec<usize>, Vec<i64>) {
    let mut off = vec![0usize];
    let mut flat = vec![];
    for r in rows {
        for v in r {
            flat.push(certs.rank(key, v));
        }
        off.push(flat.len());
    }
    (off, flat)
}

// ------------------------------------------------------------------ generation
fn gen_value(kind: &str, pattern: &str, i: usize, n: usize, rng: &mut StdRng, salt: u64) -> V {
    let base: u64 = match pattern {
        "const" => 42,
        "linear" => 1000 + 7 * i as u64,
        "linear_noise" => 1000 + 7 * i as u64 + rng.random_range(0..5),
        "blockwise" => ((i / 512) as u64 * 1_000_000) % 7_000_000 + 13 * (i % 512) as u64 + rng.random_range(0..3),
        "small" => rng.random_range(0..(8 + salt % 5)),
        "gcd" => 1000 * rng.random_range(0..50u64),
        "bits" => 1u64 << rng.random_range(0..64),
        "clusters" => [5u64, 1 << 20, 1 << 40, (1 << 62) + 17][rng.random_range(0..4)] + rng.random_range(0..40),
        "sorted" => (i as u64) / 3,
        "above32" => (1u64 << 32) + rng.random_range(0..300),
        "gcd32" => (1u64 << 32) + 1000 * rng.random_range(0..200u64),
        "wide31" => rng.random_range(0..(1u64 << 31)) + 5,
        "extremes" => *[0u64, 1, u64::MAX, u64::MAX - 1, 1 << 63, (1 << 63) - 2, 1 << 32].choose(rng).unwrap(),
        _ => rng.random(),
    };
    let _ = n;
    match kind {
        "u64" => V::U(base),
        "i64" => V::I(match pattern {
            "extremes" => *[0i64, -1, 1, i64::MIN, i64::MAX, i64::MIN + 1].choose(rng).unwrap(),
            "full" => rng.random(),
            _ => (base as i64).wrapping_sub(3000),
        }),
        "f64" => V::F(match pattern {
            "extremes" => *[0.0f64, -0.0, 1.5, -1.5, f64::INFINITY, f64::NEG_INFINITY, f64::MAX, f64::MIN, f64::MIN_POSITIVE, 1e-310].choose(rng).unwrap(),
            "full" => f64::from_bits(rng.random::<u64>() & 0xfffe_ffff_ffff_ffff), // no NaN: exponent never all ones
            _ => base as f64 / 4.0 - 100.0,
        }),
        "bool" => V::B(match pattern {
            "const" => true,
            _ => base % 2 == 0,
        }),
        "date" => V::D(match pattern {
            "extremes" => *[0i64, i64::MIN, i64::MAX, -1, 1].choose(rng).unwrap(),
            "full" => rng.random(),
            _ => 1_600_000_000_000_000_000 + base as i64 * 1_000_000_000,
        }),
        "ip" => V::Ip(match pattern {
            "extremes" => *[0u128, u128::MAX, 0xffff_0000_0000u128, 0xffff_ffff_ffffu128, 1u128 << 127].choose(rng).unwrap(),
            "full" => rng.random(),
            "clusters" => [0xffff_0a00_0000u128, 0xffff_c0a8_0000u128, 0x2001_0db8u128 << 96, (0xfe80u128 << 112) + (1u128 << 63)][rng.random_range(0..4)] + rng.random_range(0..300u128),
            _ => 0xffff_0000_0000u128 + base as u128, // ipv4-mapped
        }),
        "str" => V::S(match pattern {
            "const" => "same".to_string(),
            "prefix" => format!("a-long-shared-prefix-{:05}", base % 2000),
            "full" => (0..rng.random_range(0..12)).map(|_| char::from_u32(rng.random_range(0x20..0x3000)).unwrap_or('x')).collect(),
            _ => format!("k{}", base % 97),
        }),
        // tokens of a tokenized text fast field (lower-case words): a tiny vocabulary gives adjacent repeats
        "tok" => V::S(match pattern {
            "rep" => ["bye", "love", "a"][rng.random_range(0..3)].to_string(),
            "rep2" => ["x1", "x1", "zz", "q"][rng.random_range(0..4)].to_string(),
            _ => format!("k{}", base % 11),
        }),
        "bytes" => V::Y(match pattern {
            "const" => vec![1, 2, 3],
            "full" => (0..rng.random_range(0..9)).map(|_| rng.random()).collect(),
            _ => vec![(base % 251) as u8, (base / 251 % 7) as u8],
        }),
        // mixed numerical column: the types present are chosen by the pattern; magnitudes are kept
        // exactly representable in f64 whenever the coerced type is f64
        "mixed" => match pattern {
            "iu" => if rng.random_bool(0.5) { V::I(rng.random_range(0..1000)) } else { V::U(rng.random_range(0..1u64 << 62)) },
            "i_neg_u" => if rng.random_bool(0.5) { V::I(-rng.random_range(1..1000i64)) } else { V::U(rng.random_range(0..(i64::MAX as u64))) },
            "u_big" => if rng.random_bool(0.5) { V::I(rng.random_range(0..1000)) } else { V::U((1u64 << 63) + rng.random_range(0..1000)) },
            "neg_big" => if rng.random_bool(0.5) { V::I(-(rng.random_range(1..1000i64))) } else { V::U((1u64 << 63) + (rng.random_range(0..1000u64) << 11)) },
            // recorded finding: a u64 equal to i64::MAX next to a negative value
            "imax_neg" => if i % 2 == 0 { V::U(i64::MAX as u64) } else { V::I(-5 - i as i64) },
            "if" => if rng.random_bool(0.5) { V::I(rng.random_range(-1000..1000)) } else { V::F(rng.random_range(-4000..4000) as f64 / 4.0) },
            _ => match rng.random_range(0..3) {
                0 => V::I(rng.random_range(-(1i64 << 52)..(1i64 << 52))),
                1 => V::U(rng.random_range(0..(1u64 << 52))),
                _ => V::F(rng.random_range(-4000..4000) as f64 / 8.0),
            },
        },
        _ => panic!("unknown kind {kind}"),
    }
}

/// which rows hold values, and how many
fn row_counts(card: &str, present: &str, density: u64, block: usize, n: usize, rng: &mut StdRng) -> Vec<usize> {
    // "exact": exactly `density` rows with a value inside the 65,536-row block `block` (a seeded sample),
    // a few rows elsewhere
    let exact: std::collections::HashSet<usize> = if present == "exact" {
        let lo = (block * 65536).min(n);
        let hi = ((block + 1) * 65536).min(n);
        let k = (density as usize).min(hi - lo);
        rand::seq::index::sample(rng, hi - lo, k).into_iter().map(|i| lo + i).collect()
    } else {
        Default::default()
    };
    (0..n)
        .map(|i| {
            let here = match present {
                "all" => true,
                "none" => false,
                "first" => i == 0,
                "last" => i == n - 1,
                "prefix" => (i as u64) < density,
                "suffix" => (n - i) as u64 <= density,
                "stride" => density > 0 && i as u64 % density == 0,
                // dense in the first 65,536-row block, sparse in the following ones (or the reverse)
                "dense_sparse" => if i < 65536 { rng.random_range(0..1000) < 900 } else { rng.random_range(0..1000) < 3 },
                "sparse_dense" => if i < 65536 { rng.random_range(0..1000) < 3 } else { rng.random_range(0..1000) < 900 },
                "edges" => [0usize, 63, 64, 65, 511, 512, 513, 65535, 65536, 65537].contains(&i) || i == n - 1,
                "exact" => if i / 65536 == block { exact.contains(&i) } else { i % 977 == 0 },
                _ => rng.random_range(0..1000) < density,
            };
            match card {
                "full" => 1,
                "optional" => here as usize,
                _ => if here { *[1usize, 1, 2, 3, 7].choose(rng).unwrap() } else { 0 },
            }
        })
        .collect()
}

fn gen_table(spec: &Value, seed: u64) -> Table {
    let n = spec["nrows"].as_u64().unwrap() as usize;
    let mut cols = BTreeMap::new();
    for (ci, c) in spec["cols"].as_array().unwrap().iter().enumerate() {
        let mut rng = StdRng::seed_from_u64(seed ^ ((ci as u64 + 1) * 0x9E37_79B9));
        let kind = c["kind"].as_str().unwrap();
        let pattern = c["pattern"].as_str().unwrap_or("small");
        let mut counts = row_counts(c["card"].as_str().unwrap_or("full"), c["present"].as_str().unwrap_or("rand"), c["density"].as_u64().unwrap_or(500), c["block"].as_u64().unwrap_or(0) as usize, n, &mut rng);
        if let Some(rows) = c.get("rows").and_then(|x| x.as_array()) {
            // the rows holding values are given explicitly (huge sparse tables)
            counts = vec![0; n];
            for (i, r) in rows.iter().filter_map(|x| x.as_u64()).enumerate() {
                if (r as usize) < n {
                    counts[r as usize] = if c["card"].as_str() == Some("multi") { 1 + i % 3 } else { 1 };
                }
            }
        }
        let mut k = 0usize;
        let rows: Rows = counts
            .iter()
            .map(|&cnt| {
                (0..cnt)
                    .map(|_| {
                        k += 1;
                        gen_value(kind, pattern, k - 1, n, &mut rng, seed)
                    })
                    .collect()
            })
            .collect();
        if rows.iter().all(|r| r.is_empty()) {
            continue; // a column without any value does not exist
        }
        let cat = cat(rows.iter().flatten().next().unwrap());
        cols.insert(format!("{}|{}", c["name"].as_str().unwrap(), cat), rows);
    }
    Table { nrows: n, cols }
}

// ------------------------------------------------------------------ reading
fn card_str(c: Cardinality) -> &'static str {
    match c {
        Cardinality::Full => "full",
        Cardinality::Optional => "optional",
        Cardinality::Multivalued => "multi",
    }
}

fn read_typed<T: Copy + PartialOrd + Send + Sync + std::fmt::Debug + 'static>(
    col: &Column<T>, key: &str, ty: &str, certs: &Certs, conv: &dyn Fn(T) -> V, far: &dyn Fn(T, T) -> Vec<T>, rng: &mut StdRng, unknown: &mut Vec<String>,
) -> Value {
    let n = col.num_docs();
    let mut off = vec![0usize];
    let mut flat: Vec<i64> = vec![];
    let mut vals: Vec<T> = vec![];
    let mut firsts_ok = true;
    for d in 0..n {
        let before = flat.len();
        for v in col.values_for_doc(d) {
            let vv = conv(v);
            let r = certs.rank(key, &vv);
            if r < 0 && unknown.len() < 5 {
                unknown.push(vstr(&vv));
            }
            flat.push(r);
            vals.push(v);
        }
        // Column::first is the first of values_for_doc
        let f = col.first(d).map(|v| certs.rank(key, &conv(v)));
        if f != flat.get(before).copied().filter(|_| flat.len() > before) {
            firsts_ok = false;
        }
        off.push(flat.len());
    }
    let (mn, mx) = (conv(col.min_value()), conv(col.max_value()));
    // value ranges: between values that were read, and with bounds far outside the column (around
    // min + 2^32, 2^33, the extremes of the type, below the minimum).  A bound is logged as its place
    // in the certificate: lo = number of values below it, hiu = number of values up to it.
    let mut ranges = vec![];
    let mut one = |lo: T, hi: T, ranges: &mut Vec<Value>| {
        let mut out = vec![];
        col.get_docids_for_value_range(lo..=hi, 0..n, &mut out);
        ranges.push(json!({"lo":certs.below(key, &conv(lo)),"hiu":certs.upto(key, &conv(hi)),"rows":out}));
    };
    if !vals.is_empty() {
        // (tables of more than 50,000 rows: fewer lookups, their results are long)
        let big = n > 50_000;
        for k in 0..(if big { 2 } else { 4 }) {
            let (a, b) = (vals[rng.random_range(0..vals.len())], vals[rng.random_range(0..vals.len())]);
            let (lo, hi) = if k == 0 { (a, a) } else if vcmp(&conv(a), &conv(b)) == Ordering::Greater { (b, a) } else { (a, b) };
            one(lo, hi, &mut ranges);
        }
        let mut fars = far(col.min_value(), col.max_value());
        if big {
            fars = vec![fars[0], fars[fars.len() / 2]];
        }
        let some = vals[rng.random_range(0..vals.len())];
        for (i, &f) in fars.iter().enumerate() {
            // [value read, far bound] or [far bound, value read], and pairs of far bounds
            if vcmp(&conv(some), &conv(f)) != Ordering::Greater {
                one(some, f, &mut ranges);
            } else {
                one(f, some, &mut ranges);
            }
            if let Some(&g) = fars.get(i + 3) {
                // (a range entirely below the column's minimum is a recorded finding: only on request)
                let below_min = vcmp(&conv(g), &conv(col.min_value())) == Ordering::Less;
                if vcmp(&conv(f), &conv(g)) != Ordering::Greater && (!below_min || BELOW_MIN.load(std::sync::atomic::Ordering::SeqCst)) {
                    one(f, g, &mut ranges);
                }
            }
        }
    }
    if n as usize > SPARSE_ROWS {
        // the rows with a value as the optional / multivalued index enumerates them (select)
        let non_null: Option<Vec<u32>> = match &col.index {
            tantivy_columnar::ColumnIndex::Optional(oi) => Some(oi.iter_non_null_docs().collect()),
            _ => None,
        };
        return json!({"key":key,"type":ty,"card":card_str(col.get_cardinality()),"nrows":n,"rows":sparse_rows(&off, &flat),"first_ok":firsts_ok,
           "min_below":certs.below(key, &mn),"max_upto":certs.upto(key, &mx),"ranges":ranges,"non_null":non_null});
    }
    json!({"key":key,"type":ty,"card":card_str(col.get_cardinality()),"nrows":n,"off":off,"flat":flat,"first_ok":firsts_ok,
           "min_below":certs.below(key, &mn),"max_upto":certs.upto(key, &mx),"ranges":ranges})
}

fn read_bytes_col(col: &BytesColumn, key: &str, is_str: bool, certs: &Certs, unknown: &mut Vec<String>) -> Value {
    let n = col.num_rows();
    let mk = |b: Vec<u8>| if is_str { V::S(String::from_utf8_lossy(&b).to_string()) } else { V::Y(b) };
    let nterms = col.num_terms();
    let mut dict = vec![];
    for o in 0..nterms as u64 {
        let mut b = vec![];
        let ok = col.ord_to_bytes(o, &mut b).unwrap_or(false);
        let v = mk(b);
        let r = if ok { certs.rank(key, &v) } else { -2 };
        if r < 0 && unknown.len() < 5 {
            unknown.push(vstr(&v));
        }
        dict.push(r);
    }
    let mut off = vec![0usize];
    let mut ords: Vec<u64> = vec![];
    for d in 0..n {
        ords.extend(col.term_ords(d));
        off.push(ords.len());
    }
    if n as usize > SPARSE_ROWS {
        let flat: Vec<i64> = ords.iter().map(|o| dict.get(*o as usize).copied().unwrap_or(-3)).collect();
        return json!({"key":key,"type":if is_str {"str"} else {"bytes"},"card":card_str(col.ords().get_cardinality()),"nrows":n,"rows":sparse_rows(&off, &flat),"dict":dict});
    }
    json!({"key":key,"type":if is_str {"str"} else {"bytes"},"card":card_str(col.ords().get_cardinality()),"nrows":n,"off":off,"ords":ords,"dict":dict})
}

fn read_dynamic(name: &str, dc: DynamicColumn, certs: &Certs, rng: &mut StdRng, unknown: &mut Vec<String>) -> Value {
    let key = |c: &str| format!("{name}|{c}");
    match dc {
        DynamicColumn::U64(c) => read_typed(&c, &key("num"), "u64", certs, &|v| V::U(v), &|mn: u64, mx: u64| {
            let mut v = vec![0, mn.saturating_sub(1), mn.saturating_sub(1 << 32)];
            for b in [mn, mx] {
                for d in [(1u64 << 32) - 1, 1 << 32, (1 << 32) + 1, (1 << 32) + 1000, 1 << 33, (1 << 33) + 7, 3 << 32, 1 << 40] {
                    v.push(b.saturating_add(d));
                }
            }
            v.extend([u32::MAX as u64, 1 << 32, (1 << 32) + 5, 1 << 33, u64::MAX - 1, u64::MAX]);
            v.sort();
            v.dedup();
            v
        }, rng, unknown),
        DynamicColumn::I64(c) => read_typed(&c, &key("num"), "i64", certs, &|v| V::I(v), &|mn: i64, mx: i64| {
            let mut v = vec![i64::MIN, i64::MIN + 1, mn.saturating_sub(1), mn.saturating_sub(1 << 32), -1, 0];
            for b in [mn, mx] {
                for d in [(1i64 << 32) - 1, 1 << 32, (1 << 32) + 1, (1 << 32) + 1000, 1 << 33, (1 << 33) + 7, 3 << 32, 1 << 40] {
                    v.push(b.saturating_add(d));
                }
            }
            v.extend([u32::MAX as i64, 1 << 32, (1 << 32) + 5, 1 << 33, i64::MAX - 1, i64::MAX]);
            v.sort();
            v.dedup();
            v
        }, rng, unknown),
        DynamicColumn::F64(c) => read_typed(&c, &key("num"), "f64", certs, &|v| V::F(v), &|mn: f64, mx: f64| {
            let mut v = vec![f64::NEG_INFINITY, f64::MIN, mn - 1.0, -0.0, 0.0, mx + 4294967296.0, mx + 8589934592.0, 4294967296.0, 4294967301.0, f64::MAX, f64::INFINITY];
            v.retain(|x| !x.is_nan());
            v.sort_by(|a, b| a.total_cmp(b));
            v.dedup_by(|a, b| a.to_bits() == b.to_bits());
            v
        }, rng, unknown),
        DynamicColumn::Bool(c) => read_typed(&c, &key("bool"), "bool", certs, &|v| V::B(v), &|_, _| vec![false, true], rng, unknown),
        DynamicColumn::DateTime(c) => read_typed(&c, &key("date"), "date", certs, &|v: DateTime| V::D(v.into_timestamp_nanos()), &|mn: DateTime, mx: DateTime| {
            let (a, b) = (mn.into_timestamp_nanos(), mx.into_timestamp_nanos());
            let mut v = vec![i64::MIN, a.saturating_sub(1), a.saturating_add((1 << 32) - 1), a.saturating_add(1 << 32), a.saturating_add((1 << 32) + 5), a.saturating_add(1 << 33),
                             b.saturating_add(1 << 32), b.saturating_add((1 << 33) + 7), b.saturating_add(1 << 45), i64::MAX - 1, i64::MAX];
            v.sort();
            v.dedup();
            v.into_iter().map(DateTime::from_timestamp_nanos).collect()
        }, rng, unknown),
        DynamicColumn::IpAddr(c) => read_typed(&c, &key("ip"), "ip", certs, &|v: Ipv6Addr| V::Ip(u128::from(v)), &|mn: Ipv6Addr, mx: Ipv6Addr| {
            let (a, b) = (u128::from(mn), u128::from(mx));
            let mut v = vec![0u128, a.saturating_sub(1), a.saturating_add((1 << 32) - 1), a.saturating_add(1 << 32), a.saturating_add((1 << 32) + 5), a.saturating_add(1 << 33),
                             b.saturating_add(1 << 32), b.saturating_add(1 << 33), b.saturating_add(1 << 64), u128::MAX - 1, u128::MAX];
            v.sort();
            v.dedup();
            v.into_iter().map(Ipv6Addr::from).collect()
        }, rng, unknown),
        DynamicColumn::Str(c) => {
            let b: BytesColumn = c.into();
            read_bytes_col(&b, &key("str"), true, certs, unknown)
        }
        DynamicColumn::Bytes(c) => read_bytes_col(&c, &key("bytes"), false, certs, unknown),
    }
}

fn read_columnar(r: &ColumnarReader, certs: &Certs, rng: &mut StdRng) -> (Vec<Value>, Vec<String>) {
    let mut out = vec![];
    let mut unknown = vec![];
    for (name, h) in r.list_columns().expect("list_columns") {
        match catch_unwind(AssertUnwindSafe(|| h.open().map(|dc| read_dynamic(&name, dc, certs, rng, &mut unknown)))) {
            Ok(Ok(v)) => out.push(v),
            Ok(Err(e)) => out.push(json!({"key":name,"error":e.to_string()})),
            Err(_) => out.push(json!({"key":name,"panic":true})),
        }
    }
    (out, unknown)
}

fn emit_tables(tracer: &Tracer, case: &Value, tables: &[Table], certs: &Certs, path: &str) {
    let cert_json: BTreeMap<String, Vec<String>> = certs.m.iter().map(|(k, v)| (k.clone(), v.iter().map(vstr).collect())).collect();
    tracer.emit(json!({"ev":"case","case":case["id"],"path":path,"certs":cert_json}));
    for (ti, t) in tables.iter().enumerate() {
        let cols: Vec<Value> = t
            .cols
            .iter()
            .map(|(k, rows)| {
                let (off, flat) = off_flat(rows, k, certs);
                let mut classes: Vec<&str> = rows.iter().flatten().filter(|v| cat(v) == "num").map(class).collect();
                classes.sort();
                classes.dedup();
                if t.nrows > SPARSE_ROWS {
                    json!({"key":k,"rows":sparse_rows(&off, &flat),"classes":classes})
                } else {
                    json!({"key":k,"off":off,"flat":flat,"classes":classes})
                }
            })
            .collect();
        tracer.emit(json!({"ev":"table","t":ti + 1,"nrows":t.nrows,"cols":cols,"sparse":if t.nrows > SPARSE_ROWS { json!(true) } else { Value::Null }}));
    }
}

// ------------------------------------------------------------------ columnar path
fn write_columnar(t: &Table) -> Vec<u8> {
    let mut w = ColumnarWriter::default();
    for row in 0..t.nrows {
        for (k, rows) in &t.cols {
            let name = k.split('|').next().unwrap();
            for v in &rows[row] {
                let d = row as u32;
                match v {
                    V::U(x) => w.record_numerical(d, name, *x),
                    V::I(x) => w.record_numerical(d, name, *x),
                    V::F(x) => w.record_numerical(d, name, *x),
                    V::B(x) => w.record_bool(d, name, *x),
                    V::D(x) => w.record_datetime(d, name, DateTime::from_timestamp_nanos(*x)),
                    V::Ip(x) => w.record_ip_addr(d, name, Ipv6Addr::from(*x)),
                    V::S(x) => w.record_str(d, name, x),
                    V::Y(x) => w.record_bytes(d, name, x),
                }
            }
        }
    }
    let mut buf = vec![];
    w.serialize(t.nrows as u32, None, &mut buf).expect("serialize");
    buf
}

fn run_columnar(tracer: &Tracer, case: &Value) {
    let seed = case["seed"].as_u64().unwrap_or(1);
    let tables: Vec<Table> = case["tables"].as_array().unwrap().iter().enumerate().map(|(i, s)| gen_table(s, seed + 1000 * i as u64)).collect();
    let certs = Certs::build(&tables);
    emit_tables(tracer, case, &tables, &certs, "columnar");
    let mut rng = StdRng::seed_from_u64(seed ^ 0xabcdef);
    let mut readers = vec![];
    for (ti, t) in tables.iter().enumerate() {
        let buf = match catch_unwind(AssertUnwindSafe(|| write_columnar(t))) {
            Ok(b) => b,
            Err(_) => {
                tracer.emit(json!({"ev":"panic","in":"ColumnarWriter","t":ti + 1}));
                return;
            }
        };
        let r = ColumnarReader::open(buf).expect("open columnar");
        let (cols, unknown) = read_columnar(&r, &certs, &mut rng);
        tracer.emit(json!({"ev":"read","t":ti + 1,"nrows":r.num_docs(),"cols":cols,"unknown":unknown,"sparse":if t.nrows > SPARSE_ROWS { json!(true) } else { Value::Null }}));
        readers.push(r);
    }
    let m = &case["merge"];
    let order = m["order"].as_str().unwrap_or("none");
    if order == "none" {
        tracer.emit(json!({"ev":"end"}));
        return;
    }
    let refs: Vec<&ColumnarReader> = readers.iter().collect();
    // the row mapping of the merge (input of merge_columnar, logged as such)
    let mut map: Vec<(usize, usize)> = vec![];
    let mro: MergeRowOrder = if order == "stack" {
        for (ti, t) in tables.iter().enumerate() {
            map.extend((0..t.nrows).map(|r| (ti, r)));
        }
        StackMergeOrder::stack(&refs).into()
    } else {
        let keep = m["keep"].as_u64().unwrap_or(700);
        for (ti, t) in tables.iter().enumerate() {
            for r in 0..t.nrows {
                if rng.random_range(0..1000) < keep {
                    map.push((ti, r));
                }
            }
        }
        match m["perm"].as_str().unwrap_or("identity") {
            "reverse" => map.reverse(),
            "interleave" => map.sort_by_key(|&(t, r)| (r, t)),
            "random" => map.shuffle(&mut rng),
            _ => {}
        }
        let mut bitsets: Vec<BitSet> = tables.iter().map(|t| BitSet::with_max_value(t.nrows as u32)).collect();
        for &(t, r) in &map {
            bitsets[t].insert(r as u32);
        }
        let alive: Vec<Option<ReadOnlyBitSet>> = bitsets
            .into_iter()
            .map(|b| {
                let mut buf = vec![];
                b.serialize(&mut buf).unwrap();
                Some(ReadOnlyBitSet::open(OwnedBytes::new(buf)))
            })
            .collect();
        ShuffleMergeOrder { new_row_id_to_old_row_id: map.iter().map(|&(t, r)| RowAddr { segment_ord: t as u32, row_id: r as u32 }).collect(), alive_bitsets: alive }.into()
    };
    let mut out = vec![];
    match catch_unwind(AssertUnwindSafe(|| merge_columnar(&refs, &[], mro, &mut out))) {
        Ok(Ok(())) => {}
        Ok(Err(e)) => {
            tracer.emit(json!({"ev":"merge_error","msg":e.to_string()}));
            return;
        }
        Err(_) => {
            tracer.emit(json!({"ev":"panic","in":"merge_columnar","order":order}));
            return;
        }
    }
    let r = ColumnarReader::open(out).expect("open merged");
    let (cols, unknown) = read_columnar(&r, &certs, &mut rng);
    if map.len() > SPARSE_ROWS && order == "stack" {
        let stack: Vec<usize> = (1..=tables.len()).collect();
        tracer.emit(json!({"ev":"read","t":0,"merge":order,"nrows":r.num_docs(),"sparse":true,"stack":stack,"cols":cols,"unknown":unknown}));
    } else {
        let rows: Vec<Value> = map.iter().map(|&(t, r)| json!([t + 1, r])).collect();
        tracer.emit(json!({"ev":"read","t":0,"merge":order,"nrows":r.num_docs(),"rows":rows,"cols":cols,"unknown":unknown}));
    }
    tracer.emit(json!({"ev":"end"}));
}

// ------------------------------------------------------------------ index path
const INDEX_COLS: &[(&str, &str)] = &[("u", "u64"), ("i", "i64"), ("f", "f64"), ("b", "bool"), ("d", "date"), ("ip", "ip"), ("s", "str"), ("y", "bytes"), ("tk", "tok"), ("tkr", "str"),
    ("j.a", "mixed"), ("j.s", "str"), ("j.o.b", "bool"), ("j.o.d", "date")];

fn json_insert(obj: &mut Vec<(String, OwnedValue)>, path: &[&str], vals: Vec<OwnedValue>) {
    if path.len() == 1 {
        let v = if vals.len() == 1 { vals.into_iter().next().unwrap() } else { OwnedValue::Array(vals) };
        obj.push((path[0].to_string(), v));
        return;
    }
    if let Some((_, OwnedValue::Object(inner))) = obj.iter_mut().find(|(k, _)| k == path[0]) {
        json_insert(inner, &path[1..], vals);
        return;
    }
    let mut inner = vec![];
    json_insert(&mut inner, &path[1..], vals);
    obj.push((path[0].to_string(), OwnedValue::Object(inner)));
}

fn run_index(tracer: &Tracer, case: &Value) {
    let seed = case["seed"].as_u64().unwrap_or(1);
    let tables: Vec<Table> = case["tables"].as_array().unwrap().iter().enumerate().map(|(i, s)| gen_table(s, seed + 1000 * i as u64)).collect();
    let certs = Certs::build(&tables);
    emit_tables(tracer, case, &tables, &certs, "index");
    let mut sb = Schema::builder();
    let idf = sb.add_u64_field("id", STORED | INDEXED);
    sb.add_u64_field("u", FAST);
    sb.add_i64_field("i", FAST);
    sb.add_f64_field("f", FAST);
    sb.add_bool_field("b", FAST);
    sb.add_date_field("d", DateOptions::default().set_fast().set_precision(tantivy::schema::DateTimePrecision::Nanoseconds));
    sb.add_ip_addr_field("ip", FAST);
    sb.add_text_field("s", STRING | FAST);
    // text fast fields with a fast-field tokenizer: "default" (every lower-cased token occurrence is a value of
    // the multi-valued str column) and "raw" (the whole value)
    sb.add_text_field("tk", TextOptions::default().set_fast(Some("default")));
    sb.add_text_field("tkr", TextOptions::default().set_fast(Some("raw")));
    sb.add_bytes_field("y", FAST);
    sb.add_json_field("j", JsonObjectOptions::default().set_fast(None));
    let schema = sb.build();
    let index = Index::create_in_ram(schema.clone());
    let mut w: IndexWriter = index.writer_with_num_threads(1, 30_000_000).expect("writer");
    w.set_merge_policy(Box::new(NoMergePolicy));
    let mut id = 0u64;
    let mut id_to_row: Vec<(usize, usize)> = vec![];
    for (ti, t) in tables.iter().enumerate() {
        for row in 0..t.nrows {
            let mut d = TantivyDocument::default();
            d.add_u64(idf, id);
            id += 1;
            id_to_row.push((ti, row));
            let mut jobj: Vec<(String, OwnedValue)> = vec![];
            for (k, rows) in &t.cols {
                let name = k.split('|').next().unwrap();
                if rows[row].is_empty() {
                    continue;
                }
                let ov: Vec<OwnedValue> = rows[row]
                    .iter()
                    .map(|v| match v {
                        V::U(x) => OwnedValue::U64(*x),
                        V::I(x) => OwnedValue::I64(*x),
                        V::F(x) => OwnedValue::F64(*x),
                        V::B(x) => OwnedValue::Bool(*x),
                        V::D(x) => OwnedValue::Date(DateTime::from_timestamp_nanos(*x)),
                        V::Ip(x) => OwnedValue::IpAddr(Ipv6Addr::from(*x)),
                        V::S(x) => OwnedValue::Str(x.clone()),
                        V::Y(x) => OwnedValue::Bytes(x.clone()),
                    })
                    .collect();
                if name == "tk" {
                    // the tokens of the row become one or two text values (capitalised now and then, separated by
                    // blanks or punctuation): the tokenizer gives the lower-case tokens back, in order
                    let toks: Vec<String> = rows[row].iter().map(|v| if let V::S(x) = v { x.clone() } else { String::new() }).collect();
                    let cut = if toks.len() >= 2 && (id + row as u64) % 3 == 0 { toks.len() / 2 } else { toks.len() };
                    for part in [&toks[..cut], &toks[cut..]] {
                        if part.is_empty() {
                            continue;
                        }
                        let text: Vec<String> = part.iter().enumerate().map(|(i, t)| {
                            if (i + row) % 3 == 0 { let mut c = t.chars(); c.next().map(|f| f.to_uppercase().collect::<String>() + c.as_str()).unwrap_or_default() } else { t.clone() }
                        }).collect();
                        d.add_text(schema.get_field("tk").unwrap(), text.join(if row % 2 == 0 { " " } else { ", " }));
                    }
                } else if let Some(p) = name.strip_prefix("j.") {
                    let path: Vec<&str> = p.split('.').collect();
                    json_insert(&mut jobj, &path, ov);
                } else {
                    let f = schema.get_field(name).unwrap();
                    for v in ov {
                        d.add_field_value(f, &v);
                    }
                }
            }
            if !jobj.is_empty() {
                d.add_field_value(schema.get_field("j").unwrap(), &OwnedValue::Object(jobj));
            }
            w.add_document(d).expect("add");
        }
        w.commit().expect("commit");
    }
    let mut rng = StdRng::seed_from_u64(seed ^ 0x1234);
    let observe = |phase: &str, rng: &mut StdRng| {
        let reader: tantivy::IndexReader = index.reader_builder().reload_policy(tantivy::ReloadPolicy::Manual).try_into().expect("reader");
        let s = reader.searcher();
        for (ord, sr) in s.segment_readers().iter().enumerate() {
            let store = sr.get_store_reader(10).unwrap();
            // which input row each row of the segment is: from the stored id (deleted rows included)
            let rows: Vec<Value> = (0..sr.max_doc())
                .map(|d| {
                    let doc: TantivyDocument = store.get(d).unwrap();
                    let i = doc.get_first(idf).and_then(|v| v.as_u64()).unwrap() as usize;
                    json!([id_to_row[i].0 + 1, id_to_row[i].1])
                })
                .collect();
            let mut cols = vec![];
            let mut unknown = vec![];
            for (name, _) in INDEX_COLS {
                let handles = match sr.fast_fields().dynamic_column_handles(name) {
                    Ok(h) => h,
                    Err(e) => {
                        cols.push(json!({"key":name,"error":e.to_string()}));
                        continue;
                    }
                };
                for h in handles {
                    match catch_unwind(AssertUnwindSafe(|| h.open().map(|dc| read_dynamic(name, dc, &certs, rng, &mut unknown)))) {
                        Ok(Ok(v)) => cols.push(v),
                        Ok(Err(e)) => cols.push(json!({"key":name,"error":e.to_string()})),
                        Err(_) => cols.push(json!({"key":name,"panic":true})),
                    }
                }
            }
            let alive: Vec<u32> = sr.doc_ids_alive().collect();
            // the same lookups through RangeQuery on the fast fields u and i (bounds far outside the values too)
            let mut queries = vec![];
            let ufield = schema.get_field("u").unwrap();
            let ifield = schema.get_field("i").unwrap();
            let mut run_q = |key: &str, lo: V, hi: V, lt: Term, ht: Term| {
                let q = tantivy::query::RangeQuery::new(std::ops::Bound::Included(lt), std::ops::Bound::Included(ht));
                match catch_unwind(AssertUnwindSafe(|| s.search(&q, &tantivy::collector::DocSetCollector))) {
                    Ok(Ok(set)) => {
                        let mut r: Vec<u32> = set.iter().filter(|a| a.segment_ord as usize == ord).map(|a| a.doc_id).collect();
                        r.sort();
                        queries.push(json!({"key":key,"lo":certs.below(key, &lo),"hiu":certs.upto(key, &hi),"rows":r}));
                    }
                    Ok(Err(e)) => queries.push(json!({"key":key,"error":e.to_string()})),
                    Err(_) => queries.push(json!({"key":key,"panic":true})),
                }
            };
            for (lo, hi) in [(0u64, (1u64 << 32) + 5), (3, 1 << 33), (0, u64::MAX), (1 << 32, (1 << 32) + 200), (1, (1u64 << 32) + 1000 * 50)] {
                run_q("u|num", V::U(lo), V::U(hi), Term::from_field_u64(ufield, lo), Term::from_field_u64(ufield, hi));
            }
            for (lo, hi) in [(i64::MIN, (1i64 << 32) + 5), (-3000, 1 << 33), (0, i64::MAX), (-1, (1 << 32) - 2500)] {
                run_q("i|num", V::I(lo), V::I(hi), Term::from_field_i64(ifield, lo), Term::from_field_i64(ifield, hi));
            }
            // ExistsQuery: the rows holding at least one value
            for (fname, key) in [("u", "u|num"), ("ip", "ip|ip"), ("s", "s|str")] {
                let q = tantivy::query::ExistsQuery::new(fname.to_string(), false);
                match catch_unwind(AssertUnwindSafe(|| s.search(&q, &tantivy::collector::DocSetCollector))) {
                    Ok(Ok(set)) => {
                        let mut r: Vec<u32> = set.iter().filter(|a| a.segment_ord as usize == ord).map(|a| a.doc_id).collect();
                        r.sort();
                        queries.push(json!({"key":key,"exists":true,"rows":r}));
                    }
                    Ok(Err(e)) => queries.push(json!({"key":key,"error":e.to_string()})),
                    Err(_) => queries.push(json!({"key":key,"panic":true})),
                }
            }
            tracer.emit(json!({"ev":"read","t":0,"phase":phase,"seg":ord,"nrows":sr.max_doc(),"rows":rows,"alive":alive,"cols":cols,"queries":queries,"unknown":unknown}));
        }
    };
    observe("commit", &mut rng);
    let m = &case["merge"];
    if m["order"].as_str().unwrap_or("none") != "none" {
        if m["order"].as_str() == Some("shuffle") {
            let keep = m["keep"].as_u64().unwrap_or(700);
            for i in 0..id {
                if rng.random_range(0..1000) >= keep {
                    w.delete_term(Term::from_field_u64(idf, i));
                }
            }
            w.commit().expect("commit");
        }
        let ids = index.searchable_segment_ids().unwrap();
        if !ids.is_empty() {
            match catch_unwind(AssertUnwindSafe(|| w.merge(&ids).wait())) {
                Ok(Ok(_)) => observe("merge", &mut rng),
                Ok(Err(e)) => {
                    tracer.emit(json!({"ev":"merge_error","msg":e.to_string()}));
                }
                Err(_) => {
                    tracer.emit(json!({"ev":"panic","in":"IndexWriter::merge"}));
                }
            }
        }
    }
    let _ = w.wait_merging_threads();
    tracer.emit(json!({"ev":"end"}));
}

fn main() {
    let a = Args::parse();
    std::panic::set_hook(Box::new(|info| {
        let s = info.to_string();
        if s.contains("columns_driver.rs") || std::env::var("VH_PANICS").is_ok() {
            eprintln!("{s}");
        }
    }));
    let tracer = Tracer::to_file(&a.get("out", "/dev/stdout"));
    let file = std::fs::File::open(a.get("in", "")).expect("open --in");
    for line in std::io::BufReader::new(file).lines() {
        let line = line.unwrap();
        if line.trim().is_empty() {
            continue;
        }
        let case: Value = serde_json::from_str(&line).expect("case json");
        BELOW_MIN.store(case["below_min"].as_bool().unwrap_or(true), std::sync::atomic::Ordering::SeqCst);
        if case["path"].as_str() == Some("index") {
            run_index(&tracer, &case);
        } else {
            run_columnar(&tracer, &case);
        }
    }
    tracer.flush();
}
