//! Drives the real IndexWriter with operation histories and records the run as ndjson.
//!   core_driver random --seed S --runs N --ops M --out trace.ndjson [--threads k|mix]
//!        [--flush n|mix] [--merge none|log|any2|mix] [--sorted ""|v_asc|v_desc|mix]
//!        [--delete-all] [--no-storage] [--avoid f0,fb]
//!   core_driver replay --in histories.ndjson --out trace.ndjson
//! A history line for replay: {"cfg":{...},"ops":[{"op":"add","id":1,"t":"a","v":3}, ...]}
use rand::prelude::*;
use serde_json::{json, Value};
use std::io::BufRead;
use vh::core::{install_sink, Cfg, World};
use vh::trace::Tracer;
use vh::Args;

fn pick<'a, T: Clone>(rng: &mut StdRng, xs: &'a [T]) -> T {
    xs[rng.random_range(0..xs.len())].clone()
}

fn cfg_from(v: &Value) -> Cfg {
    let mut c = Cfg::default();
    if let Some(x) = v.get("threads").and_then(|x| x.as_u64()) {
        c.threads = x as usize;
    }
    if let Some(x) = v.get("flush_after").and_then(|x| x.as_u64()) {
        c.flush_after = x as u32;
    }
    if let Some(x) = v.get("merge").and_then(|x| x.as_str()) {
        c.merge = x.to_string();
    }
    if let Some(x) = v.get("sorted").and_then(|x| x.as_str()) {
        c.sorted = x.to_string();
    }
    if let Some(x) = v.get("blocksize").and_then(|x| x.as_u64()) {
        c.blocksize = x as usize;
    }
    c
}

/// crash images: (images per boundary, write stride); (0, _) = off
static CRASH: std::sync::Mutex<(u64, u64, u64)> = std::sync::Mutex::new((0, 1, 0));

fn run_history(tracer: &Tracer, cfg: &Cfg, ops: &[Value], storage: bool, tag: &Value) {
    tracer.reset_canon();
    tracer.emit(json!({"ev":"reset","cfg":cfg.to_json(),"tag":tag}));
    let mut w = World::new_quiet(tracer, cfg, !storage);
    install_sink(tracer, w.regs.clone(), None);
    let (nimg, stride, cseed) = *CRASH.lock().unwrap();
    if nimg > 0 {
        w.dir.st.lock().unwrap().snap_write_stride = stride;
        w.dir.record_snaps(true);
    }
    w.exec(&json!({"op":"new_writer"}));
    for op in ops {
        w.exec(op);
    }
    // quiesce: wait for merges, final content
    if w.writer.is_some() {
        w.exec(&json!({"op":"wait_merges"}));
    }
    // a discarded merge is not followed by a collection: collect once more, explicitly
    // (threads of the previous writer may still hold segment metas for a moment: collect until
    // nothing more is deleted, at most 6 times; the verdict on what is left is TLC's)
    w.exec(&json!({"op":"new_writer"}));
    for round in 0..25 {
        let ev = w.exec(&json!({"op":"gc"}));
        let deleted = ev["deleted"].as_array().map(|a| a.len()).unwrap_or(0);
        // loop exit only (no verdict): are there still files that meta.json does not list?
        let mut wanted: Vec<String> = vec![];
        if let Ok(metas) = w.index.searchable_segment_metas() {
            for m in metas {
                for f in m.list_files() {
                    wanted.push(w.tracer.path(&f));
                }
            }
        }
        let extra = w.dir.listing().iter().filter(|p| !wanted.contains(p)).count();
        if (deleted == 0 && extra == 0) || (round >= 24) {
            break;
        }
        std::thread::sleep(std::time::Duration::from_millis(if round < 3 { 15 } else { 100 }));
    }
    w.exec(&json!({"op":"wait_merges"}));
    w.exec(&json!({"op":"observe"}));
    tantivy::verif::set_sink(None);
    if nimg > 0 {
        let snaps = w.dir.take_snaps();
        w.dir.record_snaps(false);
        let mut rng = StdRng::seed_from_u64(cseed);
        for (k, fs) in snaps.iter() {
            let visible_managed: Vec<String> = fs
                .atom
                .get(std::path::Path::new(".managed.json"))
                .and_then(|a| a.versions.last())
                .and_then(|b| serde_json::from_slice::<Vec<String>>(b).ok())
                .unwrap_or_default();
            for i in 0..nimg {
                let mode = if i < 2 { i as u8 } else { 2 };
                let (img, choice) = vh::simdir::SimDir::image(fs, mode, &mut rng);
                let rec = vh::core::recover_image(img, &visible_managed, 9999);
                tracer.emit(json!({"ev":"crash_image","k":k,"mode":mode,"choice":choice,"rec":rec}));
            }
        }
    }
    tracer.emit(json!({"ev":"end","listing":w.dir.listing(),"locks":w.dir.lock_files(),"managed":w.managed()}));
}

fn gen_history(rng: &mut StdRng, nops: usize, delete_all: bool, avoid_f0: bool, terms: &[&str], terms_only: bool, two: bool) -> Vec<Value> {
    let mut ops = vec![];
    if two {
        // a second Index instance opened before anything is written: writers alternate between the two
        ops.push(json!({"op":"open_second"}));
    }
    let mut next_id = 1u64;
    // pending = operations issued since the last commit/rollback/new writer (for steering)
    let mut pending_ops = 0usize;
    let mut fresh_writer = true; // no operation yet since (re)open / rollback
    let mut open = true;
    for _ in 0..nops {
        if !open {
            ops.push(json!({"op":"new_writer"}));
            open = true;
            fresh_writer = true;
            pending_ops = 0;
            continue;
        }
        let x = rng.random_range(0..100);
        if x < 38 {
            ops.push(json!({"op":"add","id":next_id,"t":pick(rng, terms),"v":rng.random_range(-3..8)}));
            next_id += 1;
            pending_ops += 1;
            fresh_writer = false;
        } else if x < 56 {
            if avoid_f0 && fresh_writer {
                continue;
            }
            let pred = match if terms_only { 0 } else { rng.random_range(0..12) } {
                0..=5 => json!({"k":"term","t":pick(rng, terms)}),
                6..=7 => {
                    let lo = rng.random_range(-3..8);
                    json!({"k":"vrange","lo":lo,"hi":lo + rng.random_range(0..3)})
                }
                8..=9 => json!({"k":"id","id":rng.random_range(1..next_id.max(2))}),
                _ => {
                    // boolean delete predicates: term OR range / term AND NOT range
                    let lo = rng.random_range(-3..8);
                    json!({"k":if rng.random_bool(0.5) { "or" } else { "andnot" },"t":pick(rng, terms),"lo":lo,"hi":lo + rng.random_range(0..3)})
                }
            };
            ops.push(json!({"op":"del","pred":pred}));
            pending_ops += 1;
            fresh_writer = false;
        } else if x < 62 {
            if avoid_f0 && fresh_writer {
                continue;
            }
            let n = rng.random_range(0..4);
            let mut b = vec![];
            for _ in 0..n {
                if rng.random_bool(0.6) {
                    b.push(json!({"k":"add","id":next_id,"t":pick(rng, terms),"v":rng.random_range(-3..8)}));
                    next_id += 1;
                } else {
                    b.push(json!({"k":"del","t":pick(rng, terms)}));
                }
            }
            ops.push(json!({"op":"run","ops":b}));
            pending_ops += 1;
            fresh_writer = false;
        } else if x < 76 {
            ops.push(json!({"op":"commit"}));
            pending_ops = 0;
            fresh_writer = false;
        } else if x < 80 {
            let abort = rng.random_bool(0.3);
            ops.push(json!({"op":"prepare_commit","abort":abort,"payload":format!("p{}", rng.random_range(0..100))}));
            pending_ops = 0;
            fresh_writer = abort;
        } else if x < 85 {
            ops.push(json!({"op":"rollback"}));
            pending_ops = 0;
            fresh_writer = true;
        } else if x < 91 {
            // an explicit merge: of the committed segments, or (two times in five) of whatever sits in
            // the uncommitted register right now
            if rng.random_range(0..5) < 2 {
                ops.push(json!({"op":"merge_uncommitted"}));
            } else {
                ops.push(json!({"op":"merge"}));
            }
        } else if x < 94 || (two && x < 97) {
            if two && rng.random_bool(0.7) {
                // the writer moves to the other instance once its merges are over (a merge thread that outlives
                // its writer keeps rewriting .managed.json from ITS instance's list: see DESIGN 12.4, observations)
                ops.push(json!({"op":"wait_merges"}));
                ops.push(json!({"op":"switch_index"}));
            } else {
                ops.push(json!({"op":"drop_writer"}));
            }
            open = false;
        } else if x < 96 {
            ops.push(json!({"op":"gc"}));
        } else if x < 97 {
            ops.push(json!({"op":"wait_merges"}));
            open = false;
        } else if delete_all && pending_ops == 0 && !fresh_writer {
            ops.push(json!({"op":"delete_all"}));
        }
    }
    if !open {
        ops.push(json!({"op":"new_writer"}));
    }
    ops.push(json!({"op":"commit"}));
    ops
}

/// Two indexing workers register the files of their segments at the same time: one of them is parked
/// right before it replaces `.managed.json` (its k-th registration) until the other one has registered
/// and created a whole segment (or, when registrations are serialised by a lock, until a time-out).
fn run_manrace(tracer: &Tracer, rng: &mut StdRng, r: u64, tag: Value) {
    use std::sync::{Arc, Condvar, Mutex};
    use std::time::Duration;
    tracer.reset_canon();
    let mut cfg = Cfg::default();
    cfg.threads = 2;
    cfg.flush_after = 1;
    cfg.merge = "none".into();
    tracer.emit(json!({"ev":"reset","cfg":cfg.to_json(),"tag":tag}));
    let mut w = World::new_quiet(tracer, &cfg, false);
    install_sink(tracer, w.regs.clone(), None);
    w.exec(&json!({"op":"new_writer"}));
    let k = 2 + r % 5;
    // (registrations of the victim, victim role, parked, creations by others since parked, released)
    let st = Arc::new((Mutex::new((0u64, String::new(), false, 0u64, false)), Condvar::new()));
    let st2 = st.clone();
    w.dir.set_gate(Some(Arc::new(move |op: &vh::simdir::OpInfo, after: bool| {
        if !op.role.starts_with("worker") {
            return;
        }
        let (m, cv) = &*st2;
        let mut g = m.lock().unwrap();
        if op.op == "atomic_write" && op.path == ".managed.json" && !after {
            if g.1.is_empty() {
                g.1 = op.role.clone();
            }
            if g.1 == op.role && !g.2 {
                g.0 += 1;
                if g.0 == k {
                    g.2 = true;
                    cv.notify_all();
                    let t0 = std::time::Instant::now();
                    while !g.4 && g.3 < 6 && t0.elapsed() < Duration::from_millis(1200) {
                        let (g2, _) = cv.wait_timeout(g, Duration::from_millis(20)).unwrap();
                        g = g2;
                    }
                    g.4 = true;
                }
            }
        } else if op.op == "open_write" && after && g.2 && !g.4 && g.1 != op.role {
            g.3 += 1;
            cv.notify_all();
        }
    })));
    for id in 1..=4u64 {
        w.exec(&json!({"op":"add","id":id,"t":pick(rng, &["a","b"]),"v":id as i64}));
    }
    w.exec(&json!({"op":"commit"}));
    let (parked, overtaken) = { let g = st.0.lock().unwrap(); (g.2, g.3) };
    w.dir.set_gate(None);
    tracer.emit(json!({"ev":"schedule","name":format!("a worker parked before its .managed.json replacement #{k} while the other worker registers and creates files"),"realised":parked,"overtaken_by":overtaken}));
    w.exec(&json!({"op":"wait_merges"}));
    w.exec(&json!({"op":"new_writer"}));
    w.exec(&json!({"op":"gc"}));
    w.exec(&json!({"op":"wait_merges"}));
    w.exec(&json!({"op":"observe"}));
    tantivy::verif::set_sink(None);
    tracer.emit(json!({"ev":"end","listing":w.dir.listing(),"locks":w.dir.lock_files(),"managed":w.managed()}));
}

/// Writer hand-over between two Index instances: instance B asks for a writer from another thread while A
/// still holds the lock (refused: LockBusy), A commits once more and drops, B asks again.  A directory gate
/// parks B's thread right after any read of .managed.json or meta.json it makes BEFORE it holds the writer lock
/// (the code reads both under the lock, so nothing is parked; a writer creation that reads first is held there
/// until A has committed and dropped).  The end of the run is judged like every other run.
fn run_handover(tracer: &Tracer, rng: &mut StdRng, tag: Value) {
    use std::sync::atomic::{AtomicBool, Ordering};
    use std::sync::{Arc, Condvar, Mutex};
    use std::time::Duration;
    tracer.reset_canon();
    let mut cfg = Cfg::default();
    cfg.threads = 1;
    cfg.flush_after = pick(rng, &[1u32, 2]);
    cfg.merge = "none".into();
    tracer.emit(json!({"ev":"reset","cfg":cfg.to_json(),"tag":tag}));
    let mut w = World::new_quiet(tracer, &cfg, false);
    install_sink(tracer, w.regs.clone(), None);
    w.exec(&json!({"op":"open_second"}));
    w.exec(&json!({"op":"new_writer"}));
    let mut next_id = 1u64;
    for _ in 0..rng.random_range(2..4u32) {
        w.exec(&json!({"op":"add","id":next_id,"t":pick(rng, &["a","b"]),"v":next_id as i64}));
        next_id += 1;
    }
    w.exec(&json!({"op":"commit"}));
    // (parked, released)
    let st = Arc::new((Mutex::new((false, false)), Condvar::new()));
    let st2 = st.clone();
    let lock_held_by_b = Arc::new(AtomicBool::new(false));
    let lh = lock_held_by_b.clone();
    w.dir.set_gate(Some(Arc::new(move |op: &vh::simdir::OpInfo, after: bool| {
        if op.role != "handover-b" {
            return;
        }
        if op.op == "open_write" && op.path == ".tantivy-writer.lock" && after {
            lh.store(true, Ordering::SeqCst);
        }
        if op.op == "atomic_read" && (op.path == ".managed.json" || op.path == "meta.json") && after && !lh.load(Ordering::SeqCst) {
            let (m, cv) = &*st2;
            let mut g = m.lock().unwrap();
            if !g.0 {
                g.0 = true;
                cv.notify_all();
                let t0 = std::time::Instant::now();
                while !g.1 && t0.elapsed() < Duration::from_secs(5) {
                    let (g2, _) = cv.wait_timeout(g, Duration::from_millis(10)).unwrap();
                    g = g2;
                }
            }
        }
    })));
    let b = w.other.clone().expect("second instance");
    let threads = cfg.threads;
    let first_refused = Arc::new(AtomicBool::new(false));
    let fr = first_refused.clone();
    // B tries again only once A's release has been logged (the log line of A's wait_merges lists the lock files)
    let go = Arc::new(AtomicBool::new(false));
    let go2 = go.clone();
    let h = std::thread::Builder::new()
        .name("handover-b".into())
        .spawn(move || {
            let mut tries = 0u32;
            loop {
                tries += 1;
                let r: tantivy::Result<tantivy::IndexWriter> = b.writer_with_num_threads(threads, 15_000_000 * threads);
                match r {
                    Ok(wr) => return (Some(wr), tries),
                    Err(_) => {
                        fr.store(true, Ordering::SeqCst);
                        if tries > 400 {
                            return (None, tries);
                        }
                        let t0 = std::time::Instant::now();
                        while !go2.load(Ordering::SeqCst) && t0.elapsed() < Duration::from_secs(10) {
                            std::thread::sleep(Duration::from_millis(2));
                        }
                    }
                }
            }
        })
        .unwrap();
    // wait until B was refused once or is parked after an early read of the managed list
    let t0 = std::time::Instant::now();
    while !first_refused.load(Ordering::SeqCst) && !st.0.lock().unwrap().0 && t0.elapsed() < Duration::from_secs(3) {
        std::thread::sleep(Duration::from_millis(2));
    }
    let parked = st.0.lock().unwrap().0;
    // A goes on: one more commit with new files, then the writer is given up (its merges are over: none)
    for _ in 0..rng.random_range(1..3u32) {
        w.exec(&json!({"op":"add","id":next_id,"t":pick(rng, &["a","b","c"]),"v":next_id as i64}));
        next_id += 1;
    }
    w.exec(&json!({"op":"commit"}));
    w.exec(&json!({"op":"wait_merges"}));
    go.store(true, Ordering::SeqCst);
    {
        let (m, cv) = &*st;
        m.lock().unwrap().1 = true;
        cv.notify_all();
    }
    let (bw, tries) = h.join().unwrap_or((None, 0));
    w.dir.set_gate(None);
    tracer.emit(json!({"ev":"schedule","name":"writer hand-over to a second Index instance that asked while the first still held the lock","realised":bw.is_some(),"refused_first":first_refused.load(Ordering::SeqCst),"read_the_list_before_the_lock":parked,"tries":tries}));
    w.exec(&json!({"op":"switch_index"}));
    match bw {
        Some(wr) => {
            wr.set_merge_policy(w.merge_policy());
            let op = wr.commit_opstamp();
            w.writer = Some(wr);
            tracer.emit(json!({"ev":"new_writer","ok":true,"commit_opstamp":op}));
        }
        None => {
            w.exec(&json!({"op":"new_writer"}));
        }
    }
    w.exec(&json!({"op":"add","id":next_id,"t":"c","v":0}));
    w.exec(&json!({"op":"commit"}));
    w.exec(&json!({"op":"merge"}));
    w.exec(&json!({"op":"gc"}));
    w.exec(&json!({"op":"wait_merges"}));
    w.exec(&json!({"op":"new_writer"}));
    w.exec(&json!({"op":"gc"}));
    w.exec(&json!({"op":"wait_merges"}));
    w.exec(&json!({"op":"observe"}));
    tantivy::verif::set_sink(None);
    tracer.emit(json!({"ev":"end","listing":w.dir.listing(),"locks":w.dir.lock_files(),"managed":w.managed()}));
}

fn run_gcrace(tracer: &Tracer, rng: &mut StdRng, r: u64, tag: Value) {
    use std::sync::{Arc, Condvar, Mutex};
    use std::time::Duration;
    tracer.reset_canon();
    let mut cfg = Cfg::default();
    cfg.threads = 1;
    cfg.flush_after = 1;
    cfg.merge = "none".into();
    // pause point: right after the victim's k-th file creation (runs 0,1 mod 4), or right before its
    // k-th open_read (runs 2,3 mod 4; on a sorted index, where finalising a segment re-reads its
    // temporary doc store)
    let before_read = (r / 2) % 2 == 1;
    if before_read {
        cfg.sorted = pick(rng, &["v_asc", "v_desc"]).to_string();
    }
    tracer.emit(json!({"ev":"reset","cfg":cfg.to_json(),"tag":tag}));
    let mut w = World::new_quiet(tracer, &cfg, false);
    install_sink(tracer, w.regs.clone(), None);
    w.exec(&json!({"op":"new_writer"}));
    for id in 1..=3u64 {
        w.exec(&json!({"op":"add","id":id,"t":pick(rng, &["a","b"]),"v":id as i64}));
    }
    w.exec(&json!({"op":"commit"}));
    // who is parked: a worker (even runs) or a merge thread (odd runs)
    let victim = if r % 2 == 0 { "worker" } else { "merge" };
    let k = if before_read { 1 + (r / 4) % 2 } else { 1 + (r / 4) % 6 };
    // (count, parked, release)
    let st = Arc::new((Mutex::new((0u64, false, false)), Condvar::new()));
    let st2 = st.clone();
    let vict = victim.to_string();
    w.dir.set_gate(Some(Arc::new(move |op: &vh::simdir::OpInfo, after: bool| {
        let here = if before_read { op.op == "open_read" && !after } else { op.op == "open_write" && after };
        if op.role.starts_with(&vict) && here && !op.path.ends_with(".lock") {
            let (m, cv) = &*st2;
            let mut g = m.lock().unwrap();
            g.0 += 1;
            if g.0 == k && !g.1 {
                g.1 = true;
                cv.notify_all();
                let t0 = std::time::Instant::now();
                while !g.2 && t0.elapsed() < Duration::from_secs(5) {
                    let (g2, _) = cv.wait_timeout(g, Duration::from_millis(50)).unwrap();
                    g = g2;
                }
            }
        }
    })));
    let fut = if victim == "worker" {
        w.exec(&json!({"op":"add","id":10,"t":"c","v":0}));
        None
    } else {
        let ids = w.index.searchable_segment_ids().unwrap_or_default();
        w.writer.as_mut().map(|wr| wr.merge(&ids))
    };
    {
        let (m, cv) = &*st;
        let mut g = m.lock().unwrap();
        let t0 = std::time::Instant::now();
        while !g.1 && t0.elapsed() < Duration::from_secs(3) {
            let (g2, _) = cv.wait_timeout(g, Duration::from_millis(20)).unwrap();
            g = g2;
        }
    }
    let realised = st.0.lock().unwrap().1;
    w.exec(&json!({"op":"gc"}));
    {
        let (m, cv) = &*st;
        m.lock().unwrap().2 = true;
        cv.notify_all();
    }
    if let Some(f) = fut {
        let res = f.wait();
        let obs = w.observe();
        tracer.emit(json!({"ev":"merge","ok":res.is_ok(),"sids":[],"obs":obs}));
    }
    w.dir.set_gate(None);
    tracer.emit(json!({"ev":"schedule","name":if before_read { format!("explicit GC while a {victim} thread is parked before its open_read #{k} (sorted index)") } else { format!("explicit GC while a {victim} thread is parked after its file creation #{k}") },"realised":realised}));
    w.exec(&json!({"op":"commit"}));
    w.exec(&json!({"op":"wait_merges"}));
    w.exec(&json!({"op":"new_writer"}));
    w.exec(&json!({"op":"gc"}));
    w.exec(&json!({"op":"wait_merges"}));
    w.exec(&json!({"op":"observe"}));
    tantivy::verif::set_sink(None);
    tracer.emit(json!({"ev":"end","listing":w.dir.listing(),"locks":w.dir.lock_files(),"managed":w.managed()}));
}

/// Producer threads call add_document / delete_term concurrently on one writer; the stamp_drawn
/// hook (between drawing the opstamp and publishing the operation) is used as a seeded pause
/// point so that operations really overlap.  Every call is logged at its start and at its end.
fn run_producers(tracer: &Tracer, rng: &mut StdRng, tag: Value) {
    use std::sync::atomic::{AtomicU64, Ordering};
    use std::sync::Arc;
    tracer.reset_canon();
    let mut cfg = Cfg::default();
    cfg.threads = pick(rng, &[1usize, 2, 4]);
    cfg.flush_after = pick(rng, &[1u32, 1, 2, 3, 0]);
    cfg.merge = pick(rng, &["none", "any2"]).to_string();
    tracer.emit(json!({"ev":"reset","cfg":cfg.to_json(),"tag":tag}));
    let mut w = World::new_quiet(tracer, &cfg, true);
    // pause point: a seeded subset of stamp draws sleeps a little before publishing
    let pause_seed = Arc::new(AtomicU64::new(rng.random::<u64>() | 1));
    let ps = pause_seed.clone();
    let extra: Arc<dyn Fn(&'static str, &Value) + Send + Sync> = Arc::new(move |name, _v| {
        if name == "stamp_drawn" {
            let x = ps.fetch_add(0x9E3779B97F4A7C15, Ordering::SeqCst);
            let h = (x ^ (x >> 29)).wrapping_mul(0xBF58476D1CE4E5B9);
            if h % 3 == 0 {
                std::thread::sleep(std::time::Duration::from_micros(200 + h % 1500));
            } else if h % 3 == 1 {
                std::thread::yield_now();
            }
        }
    });
    install_sink(tracer, w.regs.clone(), Some(extra));
    w.exec(&json!({"op":"new_writer"}));
    let terms = ["a", "b", "c"];
    let next_id = Arc::new(AtomicU64::new(1));
    let epochs = rng.random_range(2..5);
    for _ in 0..epochs {
        let nprod = rng.random_range(2..5usize);
        let seeds: Vec<u64> = (0..nprod).map(|_| rng.random()).collect();
        {
            let writer = w.writer.as_ref().unwrap();
            let f = &w.f;
            std::thread::scope(|s| {
                for (pi, sd) in seeds.iter().enumerate() {
                    let tr = tracer.clone();
                    let nid = next_id.clone();
                    let sd = *sd;
                    std::thread::Builder::new().name(format!("producer{pi}")).spawn_scoped(s, move || {
                        let mut r = StdRng::seed_from_u64(sd);
                        for _ in 0..r.random_range(2..6) {
                            if r.random_bool(0.6) {
                                let id = nid.fetch_add(1, Ordering::SeqCst);
                                let t = terms[r.random_range(0..terms.len())];
                                let c = tr.emit(json!({"ev":"pcall","p":pi,"k":"add","id":id,"t":t}));
                                let mut d = tantivy::TantivyDocument::default();
                                d.add_u64(f.id, id);
                                d.add_text(f.t, t);
                                d.add_i64(f.v, 0);
                                d.add_text(f.body, vh::core::body_of(id, t));
                                let res = writer.add_document(d);
                                tr.emit(json!({"ev":"pret","p":pi,"k":"add","id":id,"t":t,"ok":res.is_ok(),"opstamp":res.ok(),"call":c}));
                            } else {
                                let t = terms[r.random_range(0..terms.len())];
                                let c = tr.emit(json!({"ev":"pcall","p":pi,"k":"del","t":t}));
                                let op = writer.delete_term(tantivy::Term::from_field_text(f.t, t));
                                tr.emit(json!({"ev":"pret","p":pi,"k":"del","t":t,"ok":true,"opstamp":op,"call":c}));
                            }
                        }
                    }).unwrap();
                }
            });
        }
        if rng.random_bool(0.8) {
            w.exec(&json!({"op":"commit"}));
        } else {
            w.exec(&json!({"op":"rollback"}));
        }
    }
    w.exec(&json!({"op":"commit"}));
    w.exec(&json!({"op":"wait_merges"}));
    tantivy::verif::set_sink(None);
    tracer.emit(json!({"ev":"end","listing":w.dir.listing(),"locks":w.dir.lock_files()}));
}

fn main() {
    let a = Args::parse();
    let mode = a.pos.get(0).cloned().unwrap_or_default();
    let out = a.get("out", "/dev/stdout");
    let tracer = Tracer::to_file(&out);
    let storage = !a.flag("no-storage");
    *CRASH.lock().unwrap() = (a.num("crash-images", 0), a.num("crash-write-stride", 1), a.num("seed", 1));
    match mode.as_str() {
        "random" => {
            let seed = a.num("seed", 1);
            let runs = a.num("runs", 10);
            let nops = a.num("ops", 25) as usize;
            let avoid = a.get("avoid", "");
            let mut rng = StdRng::seed_from_u64(seed);
            for r in 0..runs {
                let mut cfg = Cfg::default();
                let th = a.get("threads", "1");
                cfg.threads = if th == "mix" { pick(&mut rng, &[1usize, 1, 2, 3, 4, 8]) } else { th.parse().unwrap() };
                let fl = a.get("flush", "0");
                cfg.flush_after = if fl == "mix" { pick(&mut rng, &[0u32, 1, 1, 2, 2, 3, 7]) } else { fl.parse().unwrap() };
                let mp = a.get("merge", "none");
                cfg.merge = if mp == "mix" { pick(&mut rng, &["none", "none", "log", "any2", "lazy2"]).to_string() } else { mp };
                let so = a.get("sorted", "");
                cfg.sorted = if so == "mix" { pick(&mut rng, &["", "", "v_asc", "v_desc"]).to_string() } else { so };
                let ops = gen_history(&mut rng, nops, a.flag("delete-all"), avoid.contains("f0"), &["a", "b", "c"], a.flag("term-deletes"), a.flag("two"));
                run_history(&tracer, &cfg, &ops, storage, &json!({"seed":seed,"run":r}));
            }
        }
        "gcrace" => {
            // garbage collection forced while an indexing worker / a merge thread is in the middle
            // of creating the files of a segment (parked by the gate at its k-th file creation)
            let seed = a.num("seed", 1);
            let runs = a.num("runs", 12);
            let mut rng = StdRng::seed_from_u64(seed);
            for r in 0..runs {
                run_gcrace(&tracer, &mut rng, r, json!({"seed":seed,"run":r,"gcrace":true}));
            }
            // two workers registering files at the same time (one parked before its .managed.json replacement)
            for r in 0..a.num("manrace", 3) {
                run_manrace(&tracer, &mut rng, r, json!({"seed":seed,"run":r,"manrace":true}));
            }
            // the writer handed over to a second Index instance that asked for it while the first held the lock
            for r in 0..a.num("handover", 3) {
                run_handover(&tracer, &mut rng, json!({"seed":seed,"run":r,"handover":true}));
            }
        }
        "producers" => {
            // concurrent producer threads on a shared writer (add / delete take &self), commit in between
            let seed = a.num("seed", 1);
            let runs = a.num("runs", 10);
            let mut rng = StdRng::seed_from_u64(seed);
            for r in 0..runs {
                run_producers(&tracer, &mut rng, json!({"seed":seed,"run":r,"producers":true}));
            }
        }
        "replay" => {
            let f = std::fs::File::open(a.get("in", "")).expect("open --in");
            for (i, line) in std::io::BufReader::new(f).lines().enumerate() {
                let line = line.unwrap();
                if line.trim().is_empty() {
                    continue;
                }
                let h: Value = serde_json::from_str(&line).expect("history json");
                let cfg = cfg_from(&h["cfg"]);
                let ops: Vec<Value> = h["ops"].as_array().cloned().unwrap_or_default();
                run_history(&tracer, &cfg, &ops, storage, &json!({"line":i,"tag":h.get("tag").cloned().unwrap_or(Value::Null)}));
            }
        }
        _ => {
            eprintln!("usage: core_driver random|replay ...");
            std::process::exit(2);
        }
    }
    tracer.flush();
}
