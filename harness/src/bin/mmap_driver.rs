//! C01 on the real MmapDirectory: a workload is run on a directory under /tmp while the process
//! is traced with `strace -f`; lib/strace2events.py turns the system calls into the storage
//! events of spec/StorageTrace.tla.  API boundaries are marked with a recognisable system call
//! (`stat("/VH_MARK/<tag>")`) so that they are ordered inside the same log.
//!   mmap_driver --dir /tmp/vh_mmap_x --seed S
use rand::prelude::*;
use tantivy::directory::MmapDirectory;
use tantivy::indexer::{LogMergePolicy, NoMergePolicy};
use tantivy::schema::*;
use tantivy::{doc, Index, IndexWriter, Term};
use vh::Args;

fn mark(tag: &str) {
    let _ = std::fs::metadata(format!("/VH_MARK/{tag}"));
}

fn main() {
    let a = Args::parse();
    let dir = a.get("dir", "/tmp/vh_mmap");
    let seed = a.num("seed", 1);
    let mut rng = StdRng::seed_from_u64(seed);
    let _ = std::fs::remove_dir_all(&dir);
    std::fs::create_dir_all(&dir).unwrap();
    let mut sb = Schema::builder();
    let id = sb.add_u64_field("id", STORED | FAST | INDEXED);
    let t = sb.add_text_field("t", STRING | STORED);
    let schema = sb.build();
    mark("reset");
    let index = Index::create(MmapDirectory::open(&dir).unwrap(), schema, Default::default()).unwrap();
    let mut w: IndexWriter = index.writer_with_num_threads(1, 15_000_000).unwrap();
    if rng.random_bool(0.5) {
        w.set_merge_policy(Box::new(NoMergePolicy));
    } else {
        let mut p = LogMergePolicy::default();
        p.set_min_num_segments(2);
        p.set_min_layer_size(2);
        w.set_merge_policy(Box::new(p));
    }
    mark("fresh");
    let mut next = 1u64;
    let rounds = rng.random_range(3..7);
    for r in 0..rounds {
        for _ in 0..rng.random_range(1..4) {
            w.add_document(doc!(id => next, t => ["a", "b", "c"][rng.random_range(0..3)])).unwrap();
            next += 1;
        }
        if r > 0 && rng.random_bool(0.6) {
            w.delete_term(Term::from_field_text(t, ["a", "b", "c"][rng.random_range(0..3)]));
        }
        if rng.random_bool(0.2) {
            mark("call");
            let _ = w.rollback();
            mark("fresh");
            continue;
        }
        mark("call");
        let op = w.commit().unwrap();
        mark(&format!("commit_{op}"));
        if rng.random_bool(0.4) {
            let ids = index.searchable_segment_ids().unwrap();
            if ids.len() >= 2 {
                let _ = w.merge(&ids).wait();
            }
        }
    }
    mark("call");
    let op = w.commit().unwrap();
    mark(&format!("commit_{op}"));
    w.wait_merging_threads().unwrap();
    mark("end");
}
