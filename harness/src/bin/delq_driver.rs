//! C02 (delete queue): executes operation sequences printed by spec/Gen_DeleteQueue.tla on the real
//! `DeleteQueue` / `DeleteCursor` (re-exported by tantivy under cfg(tantivy_verif)) and records
//! what they returned; and runs a pusher thread against several consumer threads.  Nothing is
//! judged here: spec/DeleteQueueTrace.tla is the judge.
//!   delq_driver replay --in cases.json --out trace.ndjson
//!   delq_driver threads --runs N --seed S --out trace.ndjson
use rand::prelude::*;
use serde_json::{json, Value};
use std::collections::BTreeMap;
use std::sync::atomic::{AtomicU64, Ordering};
use std::sync::{Arc, Barrier};
use tantivy::indexer::DeleteOperation;
use tantivy::query::{EmptyQuery, EnableScoring, Query};
use tantivy::schema::Schema;
use tantivy::verif::{DeleteCursor, DeleteQueue};
use vh::trace::Tracer;
use vh::Args;

fn del_op(opstamp: u64) -> DeleteOperation {
    let schema = Schema::builder().build();
    let target = EmptyQuery.weight(EnableScoring::disabled_from_schema(&schema)).unwrap();
    DeleteOperation { opstamp, target }
}

fn replay(tracer: &Tracer, case: &Value) {
    tracer.emit(json!({"ev":"reset"}));
    let queue = DeleteQueue::default();
    let mut cursors: BTreeMap<u64, DeleteCursor> = BTreeMap::new();
    for op in case.as_array().unwrap() {
        let c = op["c"].as_u64().unwrap_or(0);
        match op["op"].as_str().unwrap() {
            "push" => {
                let o = op["o"].as_u64().unwrap();
                queue.push(del_op(o));
                tracer.emit(json!({"ev":"push","o":o}));
            }
            "cursor" => {
                cursors.insert(c, queue.cursor());
                tracer.emit(json!({"ev":"cursor","c":c}));
            }
            "clone" => {
                let d = op["d"].as_u64().unwrap();
                let cl = cursors[&c].clone();
                cursors.insert(d, cl);
                tracer.emit(json!({"ev":"clone","c":c,"d":d}));
            }
            "drop" => {
                cursors.remove(&c);
                tracer.emit(json!({"ev":"drop","c":c}));
            }
            "get" => {
                let r = cursors.get_mut(&c).unwrap().get().map(|o| o.opstamp).unwrap_or(0);
                tracer.emit(json!({"ev":"get","c":c,"r":r}));
            }
            "advance" => {
                let r = cursors.get_mut(&c).unwrap().advance();
                tracer.emit(json!({"ev":"advance","c":c,"r":r}));
            }
            "skip_to" => {
                let t = op["t"].as_u64().unwrap();
                cursors.get_mut(&c).unwrap().skip_to(t);
                tracer.emit(json!({"ev":"skip_to","c":c,"t":t}));
            }
            other => panic!("unknown op {other}"),
        }
    }
}

/// one pusher, `k` consumers that create their cursor at a random moment (all of them before the
/// last operation is pushed) and read until they have seen the last operation
fn threads_run(tracer: &Tracer, rng: &mut StdRng, run: u64) {
    tracer.emit(json!({"ev":"reset"}));
    let m: u64 = rng.random_range(20..400);
    let k: usize = rng.random_range(2..6);
    let queue = DeleteQueue::default();
    let pushed_so_far = Arc::new(AtomicU64::new(0));
    let ready = Arc::new(Barrier::new(k + 1));
    let mut handles = vec![];
    for ci in 0..k {
        let (q, p, b) = (queue.clone(), pushed_so_far.clone(), ready.clone());
        let start_after: u64 = rng.random_range(0..m);
        let clone_mode = ci % 3 == 2;
        let spin: u32 = rng.random_range(0..200);
        handles.push(std::thread::spawn(move || {
            // wait until the pusher has got that far (or is about to finish)
            while p.load(Ordering::SeqCst) < start_after.min(m - 1) {
                std::hint::spin_loop();
            }
            let first = q.cursor();
            // every third consumer works on a clone and drops the original at once
            let mut cur = if clone_mode { first.clone() } else { first };
            b.wait();
            let mut seen: Vec<u64> = vec![];
            let t0 = std::time::Instant::now();
            loop {
                match cur.get().map(|o| o.opstamp) {
                    Some(o) => {
                        seen.push(o);
                        cur.advance();
                        if o == m {
                            break;
                        }
                    }
                    None => {
                        for _ in 0..spin {
                            std::hint::spin_loop();
                        }
                        if t0.elapsed() > std::time::Duration::from_secs(5) {
                            break; // reported as a run that does not end with the last operation
                        }
                    }
                }
            }
            seen
        }));
    }
    let (q, p, b) = (queue.clone(), pushed_so_far.clone(), ready.clone());
    let burst: u64 = rng.random_range(1..8);
    let pusher = std::thread::spawn(move || {
        for o in 1..m {
            q.push(del_op(o));
            p.store(o, Ordering::SeqCst);
            if o % burst == 0 {
                std::thread::yield_now();
            }
        }
        // every consumer holds its cursor before the last operation is pushed
        b.wait();
        q.push(del_op(m));
        p.store(m, Ordering::SeqCst);
    });
    pusher.join().unwrap();
    let pushed: Vec<u64> = (1..=m).collect();
    for (ci, h) in handles.into_iter().enumerate() {
        let seen = h.join().unwrap();
        tracer.emit(json!({"ev":"drain","run":run,"consumer":ci,"pushed":pushed,"seen":seen}));
    }
}

fn main() {
    let a = Args::parse();
    let tracer = Tracer::to_file(&a.get("out", "/dev/stdout"));
    match a.pos.first().map(|s| s.as_str()) {
        Some("replay") => {
            let cases: Value = serde_json::from_str(&std::fs::read_to_string(a.get("in", "")).unwrap()).unwrap();
            for case in cases.as_array().unwrap() {
                replay(&tracer, case);
            }
        }
        Some("threads") => {
            let mut rng = StdRng::seed_from_u64(a.num("seed", 1));
            for run in 0..a.num("runs", 50) {
                threads_run(&tracer, &mut rng, run);
            }
        }
        _ => panic!("usage: delq_driver replay|threads ..."),
    }
    tracer.flush();
}
