//! C06: top-K collection against the exhaustive list.
//!   topk_driver topn --in cases.ndjson --out trace.ndjson
//!       case: {"k":2,"ord":"natural","keys":[1,3,2,..]} - pushed through the public TopNComputer,
//!       the threshold after every push and the final sorted vector are recorded (R direction)
//!   topk_driver search --seed S --docs N --queries Q --out trace.ndjson
//!       per (searcher, query, sort key): the exhaustive (address, key) list from a non-pruning
//!       collector on the same searcher, its ordered certificate, and TopDocs results for several
//!       (K, offset, executor) (T direction).  Keys are order-preserving small integers: score
//!       bits (positive f32), the logical integers of the corpus, base-4 codes of the words.
#[path = "qlib/mod.rs"]
mod qlib;

use rand::prelude::*;
use serde_json::{json, Value};
use std::io::BufRead;
use tantivy::collector::sort_key::{ComparatorEnum, NaturalComparator, ReverseComparator, SortBySimilarityScore, SortByStaticFastValue, SortByString};
use tantivy::collector::{Collector, SegmentCollector, TopDocs, TopNComputer};
use tantivy::query::Query;
use tantivy::{DateTime, DocAddress, DocId, Index, Order, Score, Searcher, SegmentReader};
use vh::trace::Tracer;
use vh::Args;

// ------------------------------------------------------------------------------------------ topn
fn topn(a: &Args, tracer: &Tracer) {
    let f = std::fs::File::open(a.get("in", "")).expect("open --in");
    let mut batch = vec![];
    tracer.emit(json!({"ev":"reset","mode":"topn"}));
    for line in std::io::BufReader::new(f).lines() {
        let line = line.unwrap();
        if line.trim().is_empty() {
            continue;
        }
        let c: Value = serde_json::from_str(&line).expect("case");
        let k = c["k"].as_u64().unwrap() as usize;
        let keys: Vec<i64> = c["keys"].as_array().unwrap().iter().map(|x| x.as_i64().unwrap()).collect();
        let ord = c["ord"].as_str().unwrap();
        let mut pushes = vec![];
        let result: Vec<Value>;
        macro_rules! run {
            ($cmp:expr) => {{
                let mut t: TopNComputer<i64, u32, _> = TopNComputer::new_with_comparator(k, $cmp);
                for (i, key) in keys.iter().enumerate() {
                    t.push(*key, i as u32 + 1);
                    pushes.push(match t.threshold {
                        Some(x) => json!([key, 1, x]),
                        None => json!([key, 0, 0]),
                    });
                }
                result = t.into_sorted_vec().into_iter().map(|d| json!([d.sort_key, d.doc])).collect();
            }};
        }
        if ord == "natural" {
            run!(NaturalComparator)
        } else {
            run!(ReverseComparator)
        }
        batch.push(json!({"k":k,"ord":ord,"pushes":pushes,"result":result}));
        if batch.len() >= 500 {
            tracer.emit(json!({"ev":"topn","cases":batch}));
            batch = vec![];
        }
    }
    if !batch.is_empty() {
        tracer.emit(json!({"ev":"topn","cases":batch}));
    }
}

// ------------------------------------------------------------------------------------------ search
/// non-pruning collector: every matching live document with its score and unique id
struct Exhaustive;
struct ExhaustiveSeg {
    ord: u32,
    ids: tantivy::columnar::Column<u64>,
    out: Vec<(u32, u32, f32, u64)>,
}
impl Collector for Exhaustive {
    type Fruit = Vec<(u32, u32, f32, u64)>;
    type Child = ExhaustiveSeg;
    fn for_segment(&self, ord: u32, r: &SegmentReader) -> tantivy::Result<ExhaustiveSeg> {
        Ok(ExhaustiveSeg { ord, ids: r.fast_fields().u64("id")?, out: vec![] })
    }
    fn requires_scoring(&self) -> bool {
        true
    }
    fn merge_fruits(&self, f: Vec<Vec<(u32, u32, f32, u64)>>) -> tantivy::Result<Self::Fruit> {
        let mut v: Vec<_> = f.into_iter().flatten().collect();
        v.sort_by_key(|e| (e.0, e.1));
        Ok(v)
    }
}
impl SegmentCollector for ExhaustiveSeg {
    type Fruit = Vec<(u32, u32, f32, u64)>;
    fn collect(&mut self, doc: u32, score: f32) {
        self.out.push((self.ord, doc, score, self.ids.first(doc).unwrap_or(u64::MAX)));
    }
    fn harvest(self) -> Self::Fruit {
        self.out
    }
}

fn score_key(s: f32) -> Value {
    json!([[1, s.to_bits() as i32]])
}
fn opt_key(v: Option<i64>) -> Value {
    match v {
        Some(x) => json!([[1, x]]),
        None => json!([[0, 0]]),
    }
}
fn first(d: &Value, f: &str) -> Option<i64> {
    d[f].as_array().and_then(|a| a.first()).and_then(|x| x.as_i64())
}
/// base-4 code of a word of at most 4 letters over {1,2,3}: order-preserving for the byte order of strings
fn word_code(letters: &[i64]) -> i64 {
    let mut c = 0;
    for i in 0..4 {
        c = c * 4 + letters.get(i).copied().unwrap_or(0);
    }
    c
}
fn str_code(s: &str) -> i64 {
    word_code(&s.bytes().map(|b| (b - b'a' + 1) as i64).collect::<Vec<_>>())
}
fn tweak_mul(pop: Option<i64>, score: f32) -> f32 {
    score * (1 + pop.unwrap_or(0).rem_euclid(3)) as f32
}
fn tweak_int(pop: Option<i64>) -> u64 {
    (pop.unwrap_or(-3) + 3) as u64
}

fn cmp_enum(c: &str) -> ComparatorEnum {
    match c {
        "natural" => ComparatorEnum::Natural,
        "reverse" => ComparatorEnum::Reverse,
        "reverse_none_lower" => ComparatorEnum::ReverseNoneLower,
        _ => ComparatorEnum::NaturalNoneHigher,
    }
}

type Top = Vec<(u32, u32, Value)>;
fn addr<T>(v: Vec<(T, DocAddress)>, f: impl Fn(T) -> Value) -> Top {
    v.into_iter().map(|(k, a)| (a.segment_ord, a.doc_id, f(k))).collect()
}

/// runs TopDocs(limit k, offset off) with the sort key described by `key`
fn run_top(s: &Searcher, q: &dyn Query, key: &Value, k: usize, off: usize) -> tantivy::Result<Top> {
    let td = || TopDocs::with_limit(k).and_offset(off);
    let cmp = key["cmp"][0].as_str().unwrap_or("natural").to_string();
    let f = key["f"].as_str().unwrap_or("").to_string();
    let via_order = key["via_order"].as_bool().unwrap_or(false);
    let order = if cmp == "natural" { Order::Desc } else { Order::Asc };
    Ok(match key["kind"].as_str().unwrap() {
        "score" => addr(s.search(q, &td().order_by_score())?, score_key),
        "fast" => match key["ty"].as_str().unwrap() {
            "u64" => {
                let conv = |v: Option<u64>| opt_key(v.map(|x| x as i64));
                if via_order { addr(s.search(q, &td().order_by_fast_field::<u64>(&f, order))?, conv) }
                else { addr(s.search(q, &td().order_by((SortByStaticFastValue::<u64>::for_field(&f), cmp_enum(&cmp))))?, conv) }
            }
            "i64" => {
                let conv = |v: Option<i64>| opt_key(v);
                if via_order { addr(s.search(q, &td().order_by_fast_field::<i64>(&f, order))?, conv) }
                else { addr(s.search(q, &td().order_by((SortByStaticFastValue::<i64>::for_field(&f), cmp_enum(&cmp))))?, conv) }
            }
            "f64" => {
                let conv = |v: Option<f64>| opt_key(v.map(|x| (x * 2.0).round() as i64));
                if via_order { addr(s.search(q, &td().order_by_fast_field::<f64>(&f, order))?, conv) }
                else { addr(s.search(q, &td().order_by((SortByStaticFastValue::<f64>::for_field(&f), cmp_enum(&cmp))))?, conv) }
            }
            "date" => {
                let conv = |v: Option<DateTime>| opt_key(v.map(|x| x.into_timestamp_secs() / 86_400));
                if via_order { addr(s.search(q, &td().order_by_fast_field::<DateTime>(&f, order))?, conv) }
                else { addr(s.search(q, &td().order_by((SortByStaticFastValue::<DateTime>::for_field(&f), cmp_enum(&cmp))))?, conv) }
            }
            _ => {
                let conv = |v: Option<bool>| opt_key(v.map(|x| x as i64));
                if via_order { addr(s.search(q, &td().order_by_fast_field::<bool>(&f, order))?, conv) }
                else { addr(s.search(q, &td().order_by((SortByStaticFastValue::<bool>::for_field(&f), cmp_enum(&cmp))))?, conv) }
            }
        },
        // (the documented "monotonic u64 representation of a non-u64 field" is refused by check_schema in
        // this version - "Field `pop` is of type I64, not of the type U64" - so only a u64 field is used)
        "u64field" => addr(s.search(q, &td().order_by_u64_field(&f, order))?, |v: Option<u64>| opt_key(v.map(|x| x as i64))),
        "string" => {
            let conv = |v: Option<String>| opt_key(v.map(|x| str_code(&x)));
            if via_order { addr(s.search(q, &td().order_by_string_fast_field(&f, order))?, conv) }
            else { addr(s.search(q, &td().order_by((SortByString::for_field(&f), cmp_enum(&cmp))))?, conv) }
        }
        "tweak_mul" => {
            let c = td().tweak_score(move |sr: &SegmentReader| {
                let pop = sr.fast_fields().i64("pop").unwrap();
                move |doc: DocId, score: Score| tweak_mul(pop.first(doc), score)
            });
            addr(s.search(q, &c)?, score_key)
        }
        "tweak_int" => {
            let c = td().tweak_score(move |sr: &SegmentReader| {
                let pop = sr.fast_fields().i64("pop").unwrap();
                move |doc: DocId, _score: Score| tweak_int(pop.first(doc))
            });
            addr(s.search(q, &c)?, |v: u64| json!([[1, v]]))
        }
        "custom" => {
            let c = td().order_by(move |sr: &SegmentReader| {
                let pop = sr.fast_fields().i64("pop").unwrap();
                move |doc: DocId| tweak_int(pop.first(doc))
            });
            addr(s.search(q, &c)?, |v: u64| json!([[1, v]]))
        }
        "pair" => {
            let o2 = if key["cmp"][1] == "natural" { Order::Desc } else { Order::Asc };
            let c = td().order_by(((SortByStaticFastValue::<i64>::for_field("pop"), order), (SortBySimilarityScore, o2)));
            addr(s.search(q, &c)?, |(p, sc): (Option<i64>, Score)| {
                let a = opt_key(p);
                json!([a[0], [1, sc.to_bits() as i32]])
            })
        }
        x => panic!("key kind {x}"),
    })
}

/// the true key of a document: from the logical corpus (by id) and the exhaustively collected score
fn true_key(key: &Value, d: &Value, score: f32) -> Value {
    let f = key["f"].as_str().unwrap_or("");
    match key["kind"].as_str().unwrap() {
        "score" => score_key(score),
        "fast" | "u64field" => opt_key(first(d, f)),
        "string" => opt_key(d[f].as_array().and_then(|a| a.first()).map(|w| word_code(&w.as_array().unwrap().iter().map(|x| x.as_i64().unwrap()).collect::<Vec<_>>()))),
        "tweak_mul" => score_key(tweak_mul(first(d, "pop"), score)),
        "tweak_int" | "custom" => json!([[1, tweak_int(first(d, "pop"))]]),
        "pair" => json!([opt_key(first(d, "pop"))[0], [1, score.to_bits() as i32]]),
        x => panic!("key kind {x}"),
    }
}

fn cmp_comp(ord: &str, a: &Value, b: &Value) -> std::cmp::Ordering {
    use std::cmp::Ordering::*;
    let missing_first = ord == "reverse" || ord == "natural_none_higher";
    let greater_first = ord == "natural" || ord == "natural_none_higher";
    let (ha, hb) = (a[0].as_i64().unwrap(), b[0].as_i64().unwrap());
    match (ha, hb) {
        (0, 0) => Equal,
        (0, _) => if missing_first { Less } else { Greater },
        (_, 0) => if missing_first { Greater } else { Less },
        _ => {
            let (x, y) = (a[1].as_i64().unwrap(), b[1].as_i64().unwrap());
            if greater_first { y.cmp(&x) } else { x.cmp(&y) }
        }
    }
}

/// certificate only: the judge verifies that it is the ordered permutation of `all`
fn sort_cert(all: &[(u32, u32, Value)], cmp: &[String]) -> Vec<(u32, u32, Value)> {
    let mut v = all.to_vec();
    v.sort_by(|a, b| {
        for (i, c) in cmp.iter().enumerate() {
            let o = cmp_comp(c, &a.2[i], &b.2[i]);
            if o != std::cmp::Ordering::Equal {
                return o;
            }
        }
        (a.0, a.1).cmp(&(b.0, b.1))
    });
    v
}

fn gen_key(rng: &mut StdRng) -> Value {
    let cmps = ["natural", "reverse", "reverse_none_lower", "natural_none_higher"];
    match rng.random_range(0..16) {
        0..=4 => json!({"kind":"score","cmp":["natural"]}),
        5..=8 => {
            let (f, ty) = *[("u", "u64"), ("pop", "i64"), ("fl", "f64"), ("dt", "date"), ("flag", "bool"), ("pop", "i64")].choose(rng).unwrap();
            let via_order = rng.random_bool(0.4);
            let c = if via_order { *["natural", "reverse_none_lower"].choose(rng).unwrap() } else { *cmps.choose(rng).unwrap() };
            json!({"kind":"fast","f":f,"ty":ty,"cmp":[c],"via_order":via_order})
        }
        9 => json!({"kind":"u64field","f":"u","cmp":[*["natural", "reverse_none_lower"].choose(rng).unwrap()]}),
        10..=11 => {
            let via_order = rng.random_bool(0.5);
            let c = if via_order { *["natural", "reverse_none_lower"].choose(rng).unwrap() } else { *cmps.choose(rng).unwrap() };
            json!({"kind":"string","f":"cat","cmp":[c],"via_order":via_order})
        }
        12 => json!({"kind":"tweak_mul","cmp":["natural"]}),
        13 => json!({"kind":"tweak_int","cmp":["natural"]}),
        14 => json!({"kind":"custom","cmp":["natural"]}),
        _ => json!({"kind":"pair","cmp":[*["natural", "reverse_none_lower"].choose(rng).unwrap(), *["natural", "reverse_none_lower"].choose(rng).unwrap()]}),
    }
}

/// queries that reach the block-WAND paths with a threshold that bites: conjunctions and unions of 4..6 plain term
/// queries on `body` (TermIntersection / TermUnion), and mixed trees around them
fn gen_wand_query(rng: &mut StdRng) -> Value {
    let b = |rng: &mut StdRng| {
        let mut i = 0;
        while i < 7 && rng.random_bool(0.6) { i += 1; }
        json!({"k":"term","f":"body","t":format!("b{i}"),"opt":"freq"})
    };
    let distinct = |rng: &mut StdRng, n: usize| -> Vec<Value> {
        let mut ix: Vec<usize> = (0..8).collect();
        ix.shuffle(rng);
        ix.truncate(n);
        ix.into_iter().map(|i| json!({"k":"term","f":"body","t":format!("b{i}"),"opt":"freq"})).collect()
    };
    if rng.random_bool(0.12) {
        // single terms, unions and intersections on the field without fieldnorms (block-max bounds with the constant norm)
        let nfq = |x: &str| json!({"k":"term","f":"nf","t":x,"opt":"freq"});
        let mut words = vec!["t0", "t1", "t2", "t3", "all"];
        words.shuffle(rng);
        let k = rng.random_range(1..=4);
        if k == 1 {
            return nfq(words[0]);
        }
        let oc = if rng.random_bool(0.5) { "should" } else { "must" };
        return qlib::bool_json(words[..k].iter().map(|x| json!({"o":oc,"q":nfq(x)})).collect(), None);
    }
    if rng.random_bool(0.14) {
        // the sparse field `note` (average field length below 1): single terms, unions and intersections of its two words
        let nq = |x: &str| json!({"k":"term","f":"note","t":x,"opt":"freq"});
        return match rng.random_range(0..4) {
            0 => nq("n0"),
            1 => nq("n1"),
            2 => qlib::bool_json(vec![json!({"o":"should","q":nq("n0")}), json!({"o":"should","q":nq("n1")})], None),
            _ => qlib::bool_json(vec![json!({"o":"must","q":nq("n0")}), json!({"o":"must","q":nq("n1")})], None),
        };
    }
    if rng.random_bool(0.1) {
        // a single frequent term / a pair: the block-max bound of blocks that hold a very long document
        let q0 = json!({"k":"term","f":"body","t":format!("b{}", rng.random_range(0..2)),"opt":"freq"});
        if rng.random_bool(0.5) {
            return q0;
        }
        let oc = if rng.random_bool(0.5) { "should" } else { "must" };
        return qlib::bool_json(vec![json!({"o":oc,"q":q0}), json!({"o":oc,"q":b(rng)})], None);
    }
    let n = rng.random_range(4..=6);
    let w = |x: String| json!({"k":"term","f":"body","t":x,"opt":"freq"});
    match rng.random_range(0..16) {
        12..=15 => {
            // unions of 3..6 terms mixing everywhere-frequent words, words whose lists end inside the segment and rare strong
            // words: a scorer gets exhausted by the pivot seek of block-WAND while the others go on
            let k = rng.random_range(3..=6);
            let mut ws: Vec<String> = vec![format!("c{}", rng.random_range(0..4)), format!("g{}", rng.random_range(0..3))];
            while ws.len() < k {
                let x = match rng.random_range(0..6) { 0 => format!("c{}", rng.random_range(0..4)), 1 => format!("g{}", rng.random_range(0..3)),
                                                        _ => format!("b{}", rng.random_range(0..8)) };
                if !ws.contains(&x) {
                    ws.push(x);
                }
            }
            ws.shuffle(rng);
            let mut cl: Vec<Value> = ws.into_iter().map(|x| json!({"o":"should","q":w(x)})).collect();
            if rng.random_bool(0.3) {
                // one clause on the field without fieldnorms
                let x = *["t0", "t1", "t2", "all"].choose(rng).unwrap();
                cl.push(json!({"o":"should","q":{"k":"term","f":"nf","t":x,"opt":"freq"}}));
            }
            qlib::bool_json(cl, None)
        }
        0..=4 => qlib::bool_json(distinct(rng, n).into_iter().map(|q| json!({"o":"must","q":q})).collect(), None),
        5..=7 => qlib::bool_json(distinct(rng, n).into_iter().map(|q| json!({"o":"should","q":q})).collect(), None),
        8 => json!({"k":"boost","b":2.0,"q":qlib::bool_json(distinct(rng, n).into_iter().map(|q| json!({"o":"must","q":q})).collect(), None)}),
        9 => {
            // conjunction with an optional clause / an exclusion: leaves the specialised path, same answer expected
            let mut cl: Vec<Value> = distinct(rng, 4).into_iter().map(|q| json!({"o":"must","q":q})).collect();
            cl.push(json!({"o": if rng.random_bool(0.5) {"should"} else {"mustnot"}, "q": b(rng)}));
            qlib::bool_json(cl, None)
        }
        10 => qlib::bool_json(distinct(rng, n).into_iter().map(|q| json!({"o":"should","q":q})).collect(), Some(rng.random_range(2..4))),
        _ => {
            // a conjunction nested in a union and the other way round
            let inner = qlib::bool_json(distinct(rng, 4).into_iter().map(|q| json!({"o":"must","q":q})).collect(), None);
            if rng.random_bool(0.5) {
                qlib::bool_json(vec![json!({"o":"should","q":inner}), json!({"o":"should","q":b(rng)})], None)
            } else {
                let u = qlib::bool_json(distinct(rng, 4).into_iter().map(|q| json!({"o":"should","q":q})).collect(), None);
                qlib::bool_json(vec![json!({"o":"must","q":u}), json!({"o":"must","q":b(rng)}), json!({"o":"must","q":b(rng)})], None)
            }
        }
    }
}

fn gen_scoring_query(rng: &mut StdRng) -> Value {
    let tok = |rng: &mut StdRng| -> String {
        if rng.random_bool(0.15) { "all".to_string() } else if rng.random_bool(0.1) { qlib::RARE.choose(rng).unwrap().0.to_string() } else {
            let mut i = 0;
            while i < 7 && rng.random_bool(0.45) { i += 1; }
            qlib::VOCAB[i].to_string()
        }
    };
    // `nf` holds the title tokens indexed with frequencies but without fieldnorms (constant norm): used next to the normed field
    // `bt` holds the title tokens indexed without frequencies (Basic) but with fieldnorms.  A single term on it was finding
    // F53 (its blocks have a block max score of 0), repaired in /repo: the class is explored by default (qlib::unsteered).
    let t = |rng: &mut StdRng| {
        let f = match rng.random_range(0..10) { 0..=2 => "nf", 3 => "bt", _ => "title" };
        json!({"k":"term","f":f,"t":tok(rng),"opt": if f == "bt" && rng.random_bool(0.5) { "basic" } else { "freq" }})
    };
    let t_top = |rng: &mut StdRng| {
        let mut q = t(rng);
        if q["f"] == "bt" && !qlib::unsteered("F53") {
            q["f"] = json!("title");
        }
        q
    };
    match rng.random_range(0..10) {
        0 => t_top(rng),
        1..=3 => {
            let n = rng.random_range(2..6);
            qlib::bool_json((0..n).map(|_| json!({"o":"should","q":t(rng)})).collect(), None)
        }
        4..=5 => {
            let n = rng.random_range(2..5);
            qlib::bool_json((0..n).map(|_| json!({"o":"must","q":t(rng)})).collect(), None)
        }
        6 => {
            // union with a minimum number of matching clauses
            let n = rng.random_range(2..5);
            qlib::bool_json((0..n).map(|_| json!({"o":"should","q":t(rng)})).collect(), Some(rng.random_range(1..3)))
        }
        7 => json!({"k":"boost","q":qlib::bool_json((0..3).map(|_| json!({"o":"should","q":t(rng)})).collect(), None),"b":2.0}),
        8 => qlib::bool_json(vec![json!({"o":"must","q":t(rng)}), json!({"o":"should","q":t(rng)}), json!({"o":"mustnot","q":t(rng)})], None),
        _ => {
            let mut o = qlib::GenOpts::all(2);
            o.avoid_single_should_msm = true;
            qlib::gen_query(rng, 2, &o)
        }
    }
}

fn search(a: &Args, tracer: &Tracer) {
    let seed = a.num("seed", 1);
    let ndocs = a.num("docs", 2500) as usize;
    let nq = a.num("queries", 40) as usize;
    let mut rng = StdRng::seed_from_u64(seed);
    let schema = qlib::rich_schema();
    let docs = qlib::gen_corpus(&mut rng, ndocs, false);
    let nseg = a.num("segments", rng.random_range(1..=6)) as usize;
    let mut cuts: Vec<usize> = (0..nseg - 1).map(|_| rng.random_range(1..ndocs)).collect();
    cuts.sort();
    if let Some(c) = a.kv.get("cuts") {
        // explicit segment boundaries (document counts), for hand-made segmentations
        cuts = c.split(',').map(|x| x.trim().parse().expect("--cuts")).collect();
    }
    let deleted: Vec<u64> = (0..ndocs / 20).map(|_| rng.random_range(0..ndocs as u64)).collect();
    let index: Index = qlib::build_index(&schema, &docs, &cuts, &deleted, false).expect("index");
    let s1 = index.reader().unwrap().searcher();
    let mut index_mt = index.clone();
    index_mt.set_multithread_executor(a.num("threads", 4) as usize).unwrap();
    let s2 = index_mt.reader().unwrap().searcher();
    tracer.emit(json!({"ev":"reset","mode":"search","seed":seed,"docs":ndocs,"segments":s1.segment_readers().len(),"deleted":deleted.len()}));
    // fixed cases (dedicated reproductions): lines {"q":..,"key":..,"plan":[[k,off],..]}
    let fixed: Vec<Value> = match a.kv.get("fixed") {
        Some(p) => std::io::BufReader::new(std::fs::File::open(p).expect("open --fixed")).lines()
            .map(|l| l.unwrap()).filter(|l| !l.trim().is_empty()).map(|l| serde_json::from_str(&l).expect("fixed case")).collect(),
        None => vec![],
    };
    let nq = if fixed.is_empty() { nq } else { fixed.len() };
    let mut ms_cache: std::collections::HashMap<(String, String), bool> = std::collections::HashMap::new();
    for qi in 0..nq {
        let wand = a.flag("wand");
        let qj = if !fixed.is_empty() { fixed[qi]["q"].clone() } else if wand { gen_wand_query(&mut rng) } else { gen_scoring_query(&mut rng) };
        let q = match qlib::build_query(&schema, &qj) {
            Ok(q) => q,
            Err(e) => {
                tracer.emit(json!({"ev":"info","skipped":qj,"why":e}));
                continue;
            }
        };
        let n = qlib::leaves(&qj);
        let mut key = if !fixed.is_empty() { fixed[qi]["key"].clone() } else if wand {
            // pruning only happens when ranking by score
            match rng.random_range(0..8) { 0 => json!({"kind":"tweak_mul","cmp":["natural"]}), _ => json!({"kind":"score","cmp":["natural"]}) }
        } else { gen_key(&mut rng) };
        if key["kind"] == "pair" && n > 2 {
            key = json!({"kind":"score","cmp":["natural"]});
        }
        let cmp: Vec<String> = key["cmp"].as_array().unwrap().iter().map(|x| x.as_str().unwrap().to_string()).collect();
        let float_key = matches!(key["kind"].as_str().unwrap(), "score" | "tweak_mul");
        let res = std::panic::catch_unwind(std::panic::AssertUnwindSafe(|| -> tantivy::Result<Value> {
            let mt_exh = rng.random_bool(0.3);
            let exh = (if mt_exh { &s2 } else { &s1 }).search(&*q, &Exhaustive)?;
            let all: Vec<(u32, u32, Value)> = exh.iter().map(|(sg, d, sc, id)| (*sg, *d, true_key(&key, &docs[*id as usize], *sc))).collect();
            let sorted = sort_cert(&all, &cmp);
            let nall = all.len();
            // observations
            let mut plan: Vec<(usize, usize)> = vec![];
            if !fixed.is_empty() {
                for p in fixed[qi]["plan"].as_array().unwrap() {
                    plan.push((p[0].as_u64().unwrap() as usize, p[1].as_u64().unwrap() as usize));
                }
            }
            for _ in 0..(if !fixed.is_empty() { 0 } else if wand { 5 } else { 3 }) {
                let k = if wand { *[1usize, 1, 2, 3, 5, 10, 20, 50, 100, 500, nall + 5].choose(&mut rng).unwrap() }
                        else { *[1usize, 2, 3, 5, 10, 50, 100, 1000, 5000].choose(&mut rng).unwrap() };
                let off = *[0usize, 0, 0, 1, 7, 90, nall.saturating_sub(1), nall, nall + 3].choose(&mut rng).unwrap();
                plan.push((k, off));
            }
            if fixed.is_empty() && rng.random_bool(0.5) {
                // paging: successive offsets until past the end
                let k = *[3usize, 7, 20].choose(&mut rng).unwrap();
                let mut off = 0;
                while off <= nall.min(12 * k) {
                    plan.push((k, off));
                    off += k;
                }
            }
            let mut obs = vec![];
            for (k, off) in plan {
                let mt = rng.random_bool(0.5);
                let top = run_top(if mt { &s2 } else { &s1 }, &*q, &key, k, off)?;
                let mut o = json!({"k":k,"off":off,"mt":mt,"top":top});
                if float_key && n > 2 {
                    // certificate for the tolerant comparison: where each returned document is in `sorted`
                    let pos: Vec<usize> = top.iter().map(|t| sorted.iter().position(|s| s.0 == t.0 && s.1 == t.1).map(|p| p + 1).unwrap_or(0)).collect();
                    o["pos"] = json!(pos);
                }
                obs.push(o);
            }
            // advisory fact for the classification of a rejection (never used to judge): the text terms of the query for which
            // some document's real term score exceeds Bm25Weight::max_score() of this searcher
            let exceeded: Vec<String> = if float_key { maxscore_exceeded(&s1, &schema, &qj, &mut ms_cache) } else { vec![] };
            Ok(json!({"ev":"topk","qi":qi,"q":qj,"n":n,"key":key,"kind": if float_key {"score"} else {"exact"},"cmp":cmp,
                      "all":all,"sorted":sorted,"obs":obs,"maxscore_exceeded":exceeded}))
        }));
        match res {
            Ok(Ok(ev)) => {
                tracer.emit(ev);
            }
            Ok(Err(e)) => {
                tracer.emit(json!({"ev":"error","q":qj,"key":key,"err":e.to_string()}));
            }
            Err(e) => {
                let msg = e.downcast_ref::<String>().cloned().or_else(|| e.downcast_ref::<&str>().map(|s| s.to_string())).unwrap_or_default();
                tracer.emit(json!({"ev":"panic","q":qj,"key":key,"msg":msg}));
            }
        }
    }
}

fn term_leaves(q: &Value, out: &mut Vec<(String, String)>) {
    match q {
        Value::Object(m) => {
            if m.get("k").and_then(|x| x.as_str()) == Some("term") {
                if let (Some(f), Some(t)) = (m.get("f").and_then(|x| x.as_str()), m.get("t").and_then(|x| x.as_str())) {
                    out.push((f.to_string(), t.to_string()));
                }
            }
            for v in m.values() {
                term_leaves(v, out);
            }
        }
        Value::Array(a) => a.iter().for_each(|v| term_leaves(v, out)),
        _ => {}
    }
}

fn maxscore_exceeded(s: &Searcher, schema: &tantivy::schema::Schema, q: &Value, cache: &mut std::collections::HashMap<(String, String), bool>) -> Vec<String> {
    use tantivy::query::{Bm25Weight, EnableScoring, TermQuery};
    use tantivy::schema::IndexRecordOption;
    use tantivy::{DocSet, Term, TERMINATED};
    let mut leaves = vec![];
    term_leaves(q, &mut leaves);
    leaves.sort();
    leaves.dedup();
    let mut out = vec![];
    for (f, t) in leaves {
        if !["title", "body"].contains(&f.as_str()) {
            continue;
        }
        let key = (f.clone(), t.clone());
        if !cache.contains_key(&key) {
            let field = schema.get_field(&f).unwrap();
            let term = Term::from_field_text(field, &t);
            let exceeded = (|| -> tantivy::Result<bool> {
                let bound = Bm25Weight::for_terms(s, &[term.clone()])?.max_score();
                let w = TermQuery::new(term.clone(), IndexRecordOption::WithFreqs).weight(EnableScoring::enabled_from_searcher(s))?;
                for sr in s.segment_readers() {
                    let mut sc = w.scorer(sr, 1.0)?;
                    let mut d = sc.doc();
                    while d != TERMINATED {
                        if sc.score() > bound {
                            return Ok(true);
                        }
                        d = sc.advance();
                    }
                }
                Ok(false)
            })()
            .unwrap_or(false);
            cache.insert(key.clone(), exceeded);
        }
        if cache[&key] {
            out.push(format!("{f}:{t}"));
        }
    }
    out
}

/// For every frequent body word: Bm25Weight::max_score() of the searcher against the best score a document really gets
/// (a bound that is exceeded is an observation; nothing is judged here)
fn maxscore_probe(a: &Args, tracer: &Tracer) {
    use tantivy::query::{Bm25Weight, EnableScoring, TermQuery};
    use tantivy::schema::IndexRecordOption;
    use tantivy::{DocSet, Term, TERMINATED};
    let mut rng = StdRng::seed_from_u64(a.num("seed", 1));
    let ndocs = a.num("docs", 2500) as usize;
    let schema = qlib::rich_schema();
    let docs = qlib::gen_corpus(&mut rng, ndocs, false);
    let nseg = a.num("segments", 1) as usize;
    let mut cuts: Vec<usize> = (0..nseg - 1).map(|_| rng.random_range(1..ndocs)).collect();
    cuts.sort();
    let index: Index = qlib::build_index(&schema, &docs, &cuts, &[], false).expect("index");
    let s = index.reader().unwrap().searcher();
    let body = schema.get_field("body").unwrap();
    for w in ["b0", "b1", "b2"] {
        let term = Term::from_field_text(body, w);
        let bw = Bm25Weight::for_terms(&s, &[term.clone()]).unwrap();
        let q = TermQuery::new(term, IndexRecordOption::WithFreqs);
        let weight = q.weight(EnableScoring::enabled_from_searcher(&s)).unwrap();
        let mut best = (0f32, 0u32, 0u32);
        for (ord, sr) in s.segment_readers().iter().enumerate() {
            let mut sc = weight.scorer(sr, 1.0).unwrap();
            let mut d = sc.doc();
            while d != TERMINATED {
                let x = sc.score();
                if x > best.0 {
                    best = (x, ord as u32, d);
                }
                d = sc.advance();
            }
        }
        tracer.emit(json!({"ev":"info","word":w,"bm25_max_score":bw.max_score(),"best_real_score":best.0,"at":[best.1,best.2],
                           "exceeded": best.0 > bw.max_score()}));
    }
}

fn main() {
    if std::env::var("VERIF_PANIC_TRACE").is_err() {
        std::panic::set_hook(Box::new(|_| {}));
    }
    let a = Args::parse();
    let tracer = Tracer::to_file(&a.get("out", "/dev/stdout"));
    match a.pos.first().map(|s| s.as_str()).unwrap_or("") {
        "topn" => topn(&a, &tracer),
        "maxscore" => maxscore_probe(&a, &tracer),
        "search" => search(&a, &tracer),
        _ => {
            eprintln!("usage: topk_driver topn|search ...");
            std::process::exit(2);
        }
    }
    tracer.emit(json!({"ev":"end"}));
    tracer.flush();
}
