//! C05: readers and searchers against a running writer.
//!   reader_driver random --seed S --runs N --ops M --out trace.ndjson [--readers k] [--remote]
//!       a writer history is executed on the main thread while reader threads reload, search and
//!       re-read searchers they keep holding (also after the writer is gone).
//!   reader_driver gated --seed S --runs N --out trace.ndjson
//!       a reader on a second Index instance is parked right after it read meta.json, while the
//!       writer commits deletes, merges and garbage-collects; then it opens its segment files.
use rand::prelude::*;
use serde_json::{json, Value};
use std::sync::atomic::{AtomicBool, AtomicU64, Ordering};
use std::sync::{Arc, Condvar, Mutex};
use std::time::Duration;
use tantivy::{Index, IndexReader, ReloadPolicy, Searcher};
use vh::core::{install_sink, observe_searcher, Cfg, World};
use vh::simdir::{quietly, OpInfo, SimDir};
use vh::trace::Tracer;
use vh::Args;

fn pick<T: Clone>(rng: &mut StdRng, xs: &[T]) -> T {
    xs[rng.random_range(0..xs.len())].clone()
}

fn obs_of(s: &Searcher, tracer: &Tracer) -> Value {
    let r = std::panic::catch_unwind(std::panic::AssertUnwindSafe(|| quietly(|| observe_searcher(s, tracer))));
    match r {
        Ok(Ok(v)) => v,
        Ok(Err(e)) => json!({"ok":false,"err":e}),
        Err(_) => json!({"ok":false,"err":"panic"}),
    }
}

/// a Warmer that only logs: which generations it was asked to warm, which it was told are alive
struct LogWarmer {
    rid: usize,
    tracer: Tracer,
}
impl tantivy::Warmer for LogWarmer {
    fn warm(&self, searcher: &Searcher) -> tantivy::Result<()> {
        self.tracer.emit(json!({"ev":"warm","r":self.rid,"sgen":searcher.generation().generation_id()}));
        Ok(())
    }
    fn garbage_collect(&self, live_generations: &[&tantivy::SearcherGeneration]) {
        let live: Vec<u64> = live_generations.iter().map(|g| g.generation_id()).collect();
        self.tracer.emit(json!({"ev":"warm_gc","r":self.rid,"live":live}));
    }
}

struct ReaderCtl {
    /// register a logging Warmer (tantivy's warmer GC thread outlives its reader: only some runs do)
    warm: bool,
    slow: AtomicBool,
    stop: AtomicBool,
    reloads: AtomicU64,
}

/// One reader thread: reload (logged as start/ret), read back, keep some searchers and re-read
/// them later.  `remote`: its own `Index::open` instance (own inventory), as another process has.
fn reader_thread(rid: usize, dir: SimDir, local_index: Index, remote: bool, tracer: Tracer, ctl: Arc<ReaderCtl>, seed: u64) {
    let mut rng = StdRng::seed_from_u64(seed);
    let index = if remote { Index::open(dir.clone()).expect("open second instance") } else { local_index };
    let warmer: Arc<dyn tantivy::Warmer> = Arc::new(LogWarmer { rid, tracer: tracer.clone() });
    let warmers = if ctl.warm { vec![Arc::downgrade(&warmer)] } else { vec![] };
    let reader: IndexReader = match index.reader_builder().reload_policy(ReloadPolicy::Manual).warmers(warmers).try_into() {
        Ok(r) => r,
        Err(e) => {
            tracer.emit(json!({"ev":"reader_new","r":rid,"ok":false,"err":format!("{e:?}")}));
            return;
        }
    };
    let mut held: Vec<(u64, Searcher)> = vec![];
    let mut gen = 0u64;
    while !ctl.stop.load(Ordering::SeqCst) {
        tracer.emit(json!({"ev":"reload_start","r":rid}));
        let res = reader.reload();
        gen += 1;
        match res {
            Ok(()) => {
                let s = reader.searcher();
                let obs = obs_of(&s, &tracer);
                let sgen = s.generation().generation_id();
                tracer.emit(json!({"ev":"reload","r":rid,"ok":true,"gen":gen,"sgen":sgen,"obs":obs}));
                if held.len() < 3 || rng.random_bool(0.3) {
                    if held.len() >= 3 {
                        // (the release is logged before the searcher is dropped, the hold after it was taken)
                        tracer.emit(json!({"ev":"release","r":rid,"sgen":held[0].1.generation().generation_id()}));
                        held.remove(0);
                    }
                    held.push((gen, s));
                    tracer.emit(json!({"ev":"hold","r":rid,"sgen":sgen}));
                }
            }
            Err(e) => {
                tracer.emit(json!({"ev":"reload","r":rid,"ok":false,"gen":gen,"err":format!("{e:?}").chars().take(200).collect::<String>()}));
            }
        }
        ctl.reloads.fetch_add(1, Ordering::SeqCst);
        // re-read one held searcher: it must still give the answers it gave when it was loaded
        if !held.is_empty() {
            let (g, s) = &held[rng.random_range(0..held.len())];
            let obs = obs_of(s, &tracer);
            tracer.emit(json!({"ev":"held","r":rid,"gen":g,"obs":obs}));
        }
        std::thread::sleep(if ctl.slow.load(Ordering::SeqCst) { Duration::from_millis(25) } else { Duration::from_micros(rng.random_range(50..1500)) });
    }
    // after the writer is gone and the files were collected: all held searchers once more
    for (g, s) in &held {
        let obs = obs_of(s, &tracer);
        tracer.emit(json!({"ev":"held","r":rid,"gen":g,"obs":obs,"final":true}));
    }
}

fn gen_ops(rng: &mut StdRng, nops: usize) -> Vec<Value> {
    let terms = ["a", "b", "c"];
    let mut ops = vec![];
    let mut next_id = 1u64;
    let mut fresh = true;
    for _ in 0..nops {
        let x = rng.random_range(0..100);
        if x < 40 {
            ops.push(json!({"op":"add","id":next_id,"t":pick(rng, &terms),"v":rng.random_range(-3..8)}));
            next_id += 1;
            fresh = false;
        } else if x < 55 {
            ops.push(json!({"op":"del","pred":{"k":"term","t":pick(rng, &terms)}}));
            fresh = false;
        } else if x < 78 {
            ops.push(json!({"op":"commit"}));
        } else if x < 84 {
            ops.push(json!({"op":"rollback"}));
            fresh = true;
        } else if x < 92 {
            ops.push(json!({"op":"merge"}));
        } else if x < 96 {
            ops.push(json!({"op":"gc"}));
        } else if !fresh {
            ops.push(json!({"op":"drop_writer"}));
            ops.push(json!({"op":"new_writer"}));
            fresh = true;
        }
    }
    ops.push(json!({"op":"commit"}));
    ops
}

fn run_random(tracer: &Tracer, rng: &mut StdRng, nops: usize, nreaders: usize, remote_mix: bool, tag: Value) {
    tracer.reset_canon();
    let mut cfg = Cfg::default();
    cfg.threads = pick(rng, &[1usize, 2, 3]);
    cfg.flush_after = pick(rng, &[1u32, 2, 3, 0]);
    cfg.merge = pick(rng, &["none", "log", "any2", "lazy2", "lazy2"]).to_string();
    tracer.emit(json!({"ev":"reset","cfg":cfg.to_json(),"tag":tag}));
    let mut w = World::new_quiet(tracer, &cfg, true);
    install_sink(tracer, w.regs.clone(), None);
    w.exec(&json!({"op":"new_writer"}));
    let ctl = Arc::new(ReaderCtl { warm: tag["run"].as_u64().unwrap_or(0) % 4 == 0, slow: AtomicBool::new(false), stop: AtomicBool::new(false), reloads: AtomicU64::new(0) });
    let mut handles = vec![];
    for rid in 0..nreaders {
        let remote = remote_mix && rid % 2 == 1;
        let (d, i, t, c) = (w.dir.clone(), w.index.clone(), tracer.clone(), ctl.clone());
        let seed = rng.random::<u64>();
        tracer.emit(json!({"ev":"reader_new","r":rid,"ok":true,"remote":remote}));
        handles.push(std::thread::Builder::new().name(format!("reader{rid}")).spawn(move || reader_thread(rid, d, i, remote, t, c, seed)).unwrap());
    }
    for op in gen_ops(rng, nops) {
        w.exec(&op);
        // under the lazy policy (merges only while a delete is pending) let the merge publish
        // before the next operation, so that the readers look at what it published
        let lazy = cfg.merge == "lazy2";
        if lazy {
            vh::core::settle_merges(150);
        }
        // let the readers get a few reloads in between the writer's operations
        let target = ctl.reloads.load(Ordering::SeqCst) + if lazy { 3 } else { 1 };
        let t0 = std::time::Instant::now();
        while ctl.reloads.load(Ordering::SeqCst) < target && t0.elapsed() < Duration::from_millis(20) {
            std::thread::yield_now();
        }
    }
    if tag["linger"] == json!(true) {
        // let the warmers' background collection (every second) run twice while the readers hold searchers
        ctl.slow.store(true, Ordering::SeqCst);
        std::thread::sleep(Duration::from_millis(2300));
        ctl.slow.store(false, Ordering::SeqCst);
    }
    if w.writer.is_some() {
        w.exec(&json!({"op":"wait_merges"}));
    }
    w.exec(&json!({"op":"new_writer"}));
    w.exec(&json!({"op":"gc"}));
    w.exec(&json!({"op":"wait_merges"}));
    std::thread::sleep(Duration::from_millis(5));
    ctl.stop.store(true, Ordering::SeqCst);
    for h in handles {
        let _ = h.join();
    }
    tantivy::verif::set_sink(None);
    tracer.emit(json!({"ev":"end","listing":w.dir.listing(),"locks":w.dir.lock_files()}));
}

/// shared state of the gate
struct GateState {
    armed: bool,
    parked: bool,
    gc_lock_attempts: u32,
    main_done: bool,
    released: bool,
    realised: bool,
}

fn run_gated(tracer: &Tracer, rng: &mut StdRng, park_at_open: bool, long: bool, tag: Value) {
    tracer.reset_canon();
    let mut cfg = Cfg::default();
    cfg.threads = 1;
    cfg.flush_after = pick(rng, &[1u32, 2]);
    cfg.merge = "none".into();
    tracer.emit(json!({"ev":"reset","cfg":cfg.to_json(),"tag":tag}));
    let mut w = World::new_quiet(tracer, &cfg, true);
    install_sink(tracer, w.regs.clone(), None);
    w.exec(&json!({"op":"new_writer"}));
    // a first commit with several segments
    let n0 = rng.random_range(3..7u64);
    for id in 1..=n0 {
        w.exec(&json!({"op":"add","id":id,"t":pick(rng, &["a","b"]),"v":id as i64}));
    }
    w.exec(&json!({"op":"commit"}));
    let st = Arc::new((Mutex::new(GateState { armed: false, parked: false, gc_lock_attempts: 0, main_done: false, released: false, realised: false }), Condvar::new()));
    let st2 = st.clone();
    w.dir.set_gate(Some(Arc::new(move |op: &OpInfo, after: bool| {
        let (m, cv) = &*st2;
        // park point 1: right after the reader has read meta.json; park point 2: right before it
        // opens its first segment file
        let here = if park_at_open {
            op.role == "gate-reader" && op.op == "open_read" && !after && op.path.starts_with('s')
        } else {
            op.role == "gate-reader" && op.op == "atomic_read" && op.path == "meta.json" && after
        };
        if here {
            let mut g = m.lock().unwrap();
            if g.armed && !g.parked {
                g.parked = true;
                cv.notify_all();
                let t0 = std::time::Instant::now();
                // long: the reader stays parked for longer than the collector is willing to wait for the
                // meta lock (100 x 100 ms): the collector has to give up, not to go ahead
                while !g.released && t0.elapsed() < Duration::from_secs(if long { 16 } else { 4 }) {
                    let (g2, _) = cv.wait_timeout(g, Duration::from_millis(50)).unwrap();
                    g = g2;
                    if (!long && g.gc_lock_attempts >= 2) || g.main_done {
                        g.released = true;
                        g.realised = true;
                    }
                }
                g.armed = false;
            }
        } else if op.role == "updater" && op.op == "open_write" && op.path == ".tantivy-meta.lock" && !after {
            let mut g = m.lock().unwrap();
            if g.parked && !g.released {
                g.gc_lock_attempts += 1;
                cv.notify_all();
            }
        }
    })));
    // the reader: second Index instance, parked after it has read meta.json
    let (d, t) = (w.dir.clone(), tracer.clone());
    let st3 = st.clone();
    let h = std::thread::Builder::new()
        .name("gate-reader".into())
        .spawn(move || {
            let index = Index::open(d.clone());
            // Index::open itself reads meta.json: the gate is armed only for the reload below
            let index = match index {
                Ok(i) => i,
                Err(e) => {
                    t.emit(json!({"ev":"reload","r":9,"ok":false,"gen":1,"err":format!("open {e:?}")}));
                    return;
                }
            };
            t.emit(json!({"ev":"reader_new","r":9,"ok":true,"remote":true}));
            st3.0.lock().unwrap().armed = true; // Index::open has read meta.json already: park the next read
            t.emit(json!({"ev":"reload_start","r":9}));
            let reader: tantivy::Result<IndexReader> = index.reader_builder().reload_policy(ReloadPolicy::Manual).try_into();
            match reader {
                Ok(r) => {
                    let s = r.searcher();
                    let obs = obs_of(&s, &t);
                    t.emit(json!({"ev":"reload","r":9,"ok":true,"gen":1,"obs":obs}));
                }
                Err(e) => {
                    t.emit(json!({"ev":"reload","r":9,"ok":false,"gen":1,"err":format!("{e:?}").chars().take(300).collect::<String>()}));
                }
            }
        })
        .unwrap();
    // Index::open in the thread performs atomic_read(meta.json) too; only park the 2nd+ read:
    // simpler: wait until the reader is parked (the first read after arming), whichever it is.
    {
        let (m, cv) = &*st;
        let mut g = m.lock().unwrap();
        let t0 = std::time::Instant::now();
        while !g.parked && t0.elapsed() < Duration::from_secs(3) {
            let (g2, _) = cv.wait_timeout(g, Duration::from_millis(20)).unwrap();
            g = g2;
        }
    }
    // the writer: delete, commit, merge everything, collect (long: only the merge, whose own
    // collection waits for the meta lock until it gives up)
    if !long {
        w.exec(&json!({"op":"del","pred":{"k":"id","id":1}}));
        w.exec(&json!({"op":"add","id":n0 + 1,"t":"c","v":0}));
        w.exec(&json!({"op":"commit"}));
    }
    if long {
        // (no read-back here: the harness's own reader would queue behind the parked one for 10 s too)
        let ids = w.index.searchable_segment_ids().unwrap_or_default();
        let res = w.writer.as_mut().map(|wr| wr.merge(&ids).wait());
        tracer.emit(json!({"ev":"merge","ok":matches!(res, Some(Ok(_))),"sids":[]}));
    } else {
        w.exec(&json!({"op":"merge"}));
        w.exec(&json!({"op":"gc"}));
    }
    {
        let (m, cv) = &*st;
        let mut g = m.lock().unwrap();
        g.main_done = true;
        cv.notify_all();
    }
    let _ = h.join();
    let realised = st.0.lock().unwrap().realised;
    w.dir.set_gate(None);
    tracer.emit(json!({"ev":"schedule","name":if park_at_open { "reader parked before its first open_read of a segment file" } else { "reader parked after atomic_read(meta.json)" },"realised":realised}));
    w.exec(&json!({"op":"wait_merges"}));
    tantivy::verif::set_sink(None);
    tracer.emit(json!({"ev":"end","listing":w.dir.listing(),"locks":w.dir.lock_files()}));
}

/// a Warmer that parks the first `warm` call made while it is armed (warmers run on the thread
/// that called `reload`, before the new searcher is published)
struct ParkWarmer {
    st: Arc<(Mutex<ParkState>, Condvar)>,
}
#[derive(Default)]
struct ParkState {
    armed: bool,
    parked: bool,
    released: bool,
}
impl tantivy::Warmer for ParkWarmer {
    fn warm(&self, _searcher: &Searcher) -> tantivy::Result<()> {
        let (m, cv) = &*self.st;
        let mut g = m.lock().unwrap();
        if g.armed && !g.parked {
            g.parked = true;
            cv.notify_all();
            let t0 = std::time::Instant::now();
            while !g.released && t0.elapsed() < Duration::from_secs(5) {
                let (g2, _) = cv.wait_timeout(g, Duration::from_millis(20)).unwrap();
                g = g2;
            }
            g.armed = false;
        }
        Ok(())
    }
    fn garbage_collect(&self, _live_generations: &[&tantivy::SearcherGeneration]) {}
}

/// Two threads reload ONE IndexReader: thread A is parked after it opened the segments of commit k
/// and before it publishes its searcher - right after it released the meta lock (directory gate),
/// or inside its warmer (`in_warmer`) - while the writer commits k+1 and thread B reloads.
/// Whatever the reader publishes afterwards must not be older than what B was shown.
fn run_shared(tracer: &Tracer, rng: &mut StdRng, in_warmer: bool, tag: Value) {
    tracer.reset_canon();
    let mut cfg = Cfg::default();
    cfg.threads = 1;
    cfg.flush_after = pick(rng, &[1u32, 2, 0]);
    cfg.merge = "none".into();
    tracer.emit(json!({"ev":"reset","cfg":cfg.to_json(),"tag":tag}));
    let mut w = World::new_quiet(tracer, &cfg, true);
    install_sink(tracer, w.regs.clone(), None);
    w.exec(&json!({"op":"new_writer"}));
    let mut next_id = 1u64;
    let mut add_some = |w: &mut World, rng: &mut StdRng| {
        for _ in 0..rng.random_range(1..4u32) {
            w.exec(&json!({"op":"add","id":next_id,"t":pick(rng, &["a","b","c"]),"v":next_id as i64}));
            next_id += 1;
        }
    };
    add_some(&mut w, rng);
    w.exec(&json!({"op":"commit"}));
    let st = Arc::new((Mutex::new(ParkState::default()), Condvar::new()));
    let warmer: Arc<dyn tantivy::Warmer> = Arc::new(ParkWarmer { st: st.clone() });
    let warmers = if in_warmer { vec![Arc::downgrade(&warmer)] } else { vec![] };
    let reader: IndexReader = w.index.reader_builder().reload_policy(ReloadPolicy::Manual).warmers(warmers).try_into().expect("reader");
    if !in_warmer {
        let st2 = st.clone();
        w.dir.set_gate(Some(Arc::new(move |op: &OpInfo, after: bool| {
            if op.role == "shared-A" && op.op == "delete" && op.path == ".tantivy-meta.lock" && after {
                let (m, cv) = &*st2;
                let mut g = m.lock().unwrap();
                if g.armed && !g.parked {
                    g.parked = true;
                    cv.notify_all();
                    let t0 = std::time::Instant::now();
                    while !g.released && t0.elapsed() < Duration::from_secs(5) {
                        let (g2, _) = cv.wait_timeout(g, Duration::from_millis(20)).unwrap();
                        g = g2;
                    }
                    g.armed = false;
                }
            }
        })));
    }
    tracer.emit(json!({"ev":"reader_new","r":5,"ok":true,"remote":false}));
    add_some(&mut w, rng);
    w.exec(&json!({"op":"commit"}));
    st.0.lock().unwrap().armed = true;
    let reload_in = |name: &'static str, reader: IndexReader, t: Tracer| {
        std::thread::Builder::new()
            .name(format!("shared-{name}"))
            .spawn(move || {
                t.emit(json!({"ev":"reload_start","r":5,"t":name}));
                match reader.reload() {
                    Ok(()) => {
                        // the read below happens after this event: whatever other threads logged before it
                        // was exposed before the read began (the result event alone may be logged late)
                        t.emit(json!({"ev":"read_start","r":5,"t":name}));
                        let s = reader.searcher();
                        let obs = obs_of(&s, &t);
                        t.emit(json!({"ev":"reload","r":5,"t":name,"ok":true,"gen":0,"obs":obs}));
                    }
                    Err(e) => {
                        t.emit(json!({"ev":"reload","r":5,"t":name,"ok":false,"gen":0,"err":format!("{e:?}").chars().take(200).collect::<String>()}));
                    }
                }
            })
            .unwrap()
    };
    let ha = reload_in("A", reader.clone(), tracer.clone());
    let parked = {
        let (m, cv) = &*st;
        let mut g = m.lock().unwrap();
        let t0 = std::time::Instant::now();
        while !g.parked && t0.elapsed() < Duration::from_secs(3) {
            let (g2, _) = cv.wait_timeout(g, Duration::from_millis(10)).unwrap();
            g = g2;
        }
        g.parked
    };
    // A holds the searcher of the second commit, unpublished: one more commit, and B reloads
    add_some(&mut w, rng);
    w.exec(&json!({"op":"commit"}));
    let hb = reload_in("B", reader.clone(), tracer.clone());
    // B either finishes (reloads are not serialised) or waits for A (they are): release A after a while
    let t0 = std::time::Instant::now();
    while !hb.is_finished() && t0.elapsed() < Duration::from_millis(300) {
        std::thread::sleep(Duration::from_millis(5));
    }
    let b_overtook = hb.is_finished();
    {
        let (m, cv) = &*st;
        m.lock().unwrap().released = true;
        cv.notify_all();
    }
    let _ = ha.join();
    let _ = hb.join();
    // what the reader publishes now, without another reload
    let s = reader.searcher();
    let obs = obs_of(&s, tracer);
    tracer.emit(json!({"ev":"peek","r":5,"obs":obs}));
    w.dir.set_gate(None);
    tracer.emit(json!({"ev":"schedule","name":if in_warmer { "reload parked in its warmer while a commit completes and a second thread reloads the same IndexReader" } else { "reload parked right after it released the meta lock while a commit completes and a second thread reloads the same IndexReader" },"realised":parked,"second_reload_overtook":b_overtook}));
    drop(reader);
    drop(warmer);
    w.exec(&json!({"op":"wait_merges"}));
    tantivy::verif::set_sink(None);
    tracer.emit(json!({"ev":"end","listing":w.dir.listing(),"locks":w.dir.lock_files()}));
}

/// a Warmer that takes a little while (so that the watch callbacks of successive commits overlap)
struct SleepWarmer {
    us: u64,
}
impl tantivy::Warmer for SleepWarmer {
    fn warm(&self, _searcher: &Searcher) -> tantivy::Result<()> {
        std::thread::sleep(Duration::from_micros(self.us));
        Ok(())
    }
    fn garbage_collect(&self, _live_generations: &[&tantivy::SearcherGeneration]) {}
}

/// ReloadPolicy::OnCommitWithDelay on tantivy's own RamDirectory: every meta.json write spawns a
/// thread that reloads the reader.  Commits are issued back to back; the main thread samples what the
/// reader serves (number of documents = number of commits) until it has seen the last commit or a
/// long time-out passed.  WatchTrace judges the samples: never a step back.
fn run_watch(tracer: &Tracer, rng: &mut StdRng, tag: Value) {
    use tantivy::schema::{Schema, STORED, TEXT};
    tracer.emit(json!({"ev":"reset","tag":tag}));
    let mut sb = Schema::builder();
    let t = sb.add_text_field("t", TEXT | STORED);
    let index = Index::create_in_ram(sb.build());
    let mut w: tantivy::IndexWriter = index.writer_with_num_threads(1, 15_000_000).expect("writer");
    w.set_merge_policy(Box::new(tantivy::indexer::NoMergePolicy));
    let warmer: Arc<dyn tantivy::Warmer> = Arc::new(SleepWarmer { us: rng.random_range(0..1500) });
    let warmers = if rng.random_bool(0.5) { vec![Arc::downgrade(&warmer)] } else { vec![] };
    let reader: IndexReader = index.reader_builder().reload_policy(ReloadPolicy::OnCommitWithDelay).warmers(warmers).try_into().expect("reader");
    let ncommits = rng.random_range(3..9u64);
    let mut samples: Vec<u64> = vec![reader.searcher().num_docs()];
    for _ in 0..ncommits {
        w.add_document(tantivy::doc!(t => "x")).expect("add");
        w.commit().expect("commit");
        samples.push(reader.searcher().num_docs());
        if rng.random_bool(0.3) {
            std::thread::sleep(Duration::from_micros(rng.random_range(0..800)));
        }
    }
    let t0 = std::time::Instant::now();
    let mut fresh = false;
    while t0.elapsed() < Duration::from_secs(20) {
        let n = reader.searcher().num_docs();
        if samples.last() != Some(&n) {
            samples.push(n);
        }
        if n == ncommits {
            // the last commit is visible: keep sampling for a moment, a late callback must not move the reader back
            if !fresh {
                fresh = true;
            }
            if t0.elapsed() > Duration::from_millis(60) {
                break;
            }
        }
        std::thread::sleep(Duration::from_micros(300));
    }
    let t1 = std::time::Instant::now();
    while fresh && t1.elapsed() < Duration::from_millis(40) {
        let n = reader.searcher().num_docs();
        if samples.last() != Some(&n) {
            samples.push(n);
        }
        std::thread::sleep(Duration::from_micros(300));
    }
    tracer.emit(json!({"ev":"watch_samples","commits":ncommits,"samples":samples,"fresh":fresh}));
    drop(reader);
    drop(warmer);
    let _ = w.wait_merging_threads();
}

fn main() {
    let a = Args::parse();
    let mode = a.pos.get(0).cloned().unwrap_or_default();
    let tracer = Tracer::to_file(&a.get("out", "/dev/stdout"));
    let seed = a.num("seed", 1);
    let runs = a.num("runs", 5);
    let mut rng = StdRng::seed_from_u64(seed);
    match mode.as_str() {
        "random" => {
            for r in 0..runs {
                run_random(&tracer, &mut rng, a.num("ops", 25) as usize, a.num("readers", 2) as usize, a.flag("remote"), json!({"seed":seed,"run":r,"linger": r % 12 == 0}));
            }
        }
        "gated" => {
            for r in 0..runs {
                // one run in fifty (the second one) keeps the reader parked for longer than the
                // collector waits for the meta lock
                let long = r % 50 == 1;
                run_gated(&tracer, &mut rng, r % 2 == 1, long, json!({"seed":seed,"run":r,"gated":true,"long":long}));
            }
        }
        "watch" => {
            for r in 0..runs {
                run_watch(&tracer, &mut rng, json!({"seed":seed,"run":r,"watch":true}));
            }
        }
        "shared" => {
            for r in 0..runs {
                run_shared(&tracer, &mut rng, r % 3 == 2, json!({"seed":seed,"run":r,"shared":true}));
            }
        }
        _ => {
            eprintln!("usage: reader_driver random|gated|shared ...");
            std::process::exit(2);
        }
    }
    tracer.flush();
}
