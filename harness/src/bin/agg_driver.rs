//! C14 driver: executes aggregation cases on the real tantivy code and records what happened.
//!   agg_driver run --in cases.ndjson --out trace.ndjson
//! A case (one JSON line):
//!   {"id":1,"tag":"..","docs":[{"cat":[1],"v":[3,4],"w":[2],"f":[5],"d":[1000],"g":[1]},..],
//!    "parts":[[[0,1],[2]],[[3]]],        part -> segments -> document indices (0 based)
//!    "all":[[0,2],[1,3]],                 segmentation of the index holding all documents
//!    "query":"all"|"g1",
//!    "req":[["name",{"k":"terms","field":"cat",...,"sub":[...]}],...],
//!    "plan":[{"op":"collect","h":1,"part":0},{"op":"merge","a":1,"b":2},{"op":"ser","h":1},{"op":"final","h":1}]}
//! Field values are small integers; the concretisation is: cat i -> text term TERMS[i] (order
//! preserving), f i -> f64 i.0, d i -> date of i milliseconds, v/w i -> i64, g i -> u64,
//! q i -> f64 i/20 (a fractional field in units of 0.05; interval / offset / bounds of a histogram on q
//! are given in the same units, e.g. interval 2 -> 0.1).
//! The driver never computes an expected value: it converts the request to tantivy's JSON
//! format, runs it, and writes the results in a normalised integer-only form (see `num`).
use serde_json::{json, Map, Value};
use std::collections::HashMap;
use std::io::BufRead;
use std::panic::{catch_unwind, AssertUnwindSafe};
use tantivy::aggregation::agg_req::Aggregations;
use tantivy::aggregation::intermediate_agg_result::IntermediateAggregationResults;
use tantivy::aggregation::{AggContextParams, AggregationCollector, DistributedAggregationCollector};
use tantivy::indexer::NoMergePolicy;
use tantivy::query::{AllQuery, Query, TermQuery};
use tantivy::schema::*;
use tantivy::{DateTime, Index, IndexWriter, TantivyDocument, Term};
use vh::trace::Tracer;
use vh::Args;

/// A compact, non self-describing binary serde format (the kind `postcard` is: the documentation of
/// IntermediateAggregationResults asks for such a format, not JSON; no such crate is available to the
/// harness).  Fixed-width little-endian numbers, u64 length prefixes, u32 variant indices.
mod agg_wire {
    use serde::de::{self, DeserializeSeed, IntoDeserializer, Visitor};
    use serde::ser::{self, Serialize};
    use std::fmt;

    #[derive(Debug)]
    pub struct Error(pub String);
    impl fmt::Display for Error {
        fn fmt(&self, f: &mut fmt::Formatter) -> fmt::Result {
            f.write_str(&self.0)
        }
    }
    impl std::error::Error for Error {}
    impl ser::Error for Error {
        fn custom<T: fmt::Display>(msg: T) -> Self {
            Error(msg.to_string())
        }
    }
    impl de::Error for Error {
        fn custom<T: fmt::Display>(msg: T) -> Self {
            Error(msg.to_string())
        }
    }
    type Result<T> = std::result::Result<T, Error>;

    pub fn to_bytes<T: Serialize>(v: &T) -> Result<Vec<u8>> {
        let mut s = Ser { out: vec![] };
        v.serialize(&mut s)?;
        Ok(s.out)
    }
    pub fn from_bytes<T: de::DeserializeOwned>(b: &[u8]) -> Result<T> {
        let mut d = De { b, pos: 0 };
        let v = T::deserialize(&mut d)?;
        if d.pos != b.len() {
            return Err(Error(format!("{} trailing bytes", b.len() - d.pos)));
        }
        Ok(v)
    }

    pub struct Ser {
        out: Vec<u8>,
    }
    /// sequences / maps of unknown length: the count is patched in at the end
    pub struct Counted<'a> {
        s: &'a mut Ser,
        at: usize,
        n: u64,
    }
    impl Ser {
        fn len(&mut self, n: usize) {
            self.out.extend_from_slice(&(n as u64).to_le_bytes());
        }
        fn counted(&mut self) -> Counted<'_> {
            let at = self.out.len();
            self.out.extend_from_slice(&0u64.to_le_bytes());
            Counted { s: self, at, n: 0 }
        }
    }
    impl Counted<'_> {
        fn finish(self) {
            self.s.out[self.at..self.at + 8].copy_from_slice(&self.n.to_le_bytes());
        }
    }
    macro_rules! ser_num {
        ($f:ident, $t:ty) => {
            fn $f(self, v: $t) -> Result<()> {
                self.out.extend_from_slice(&v.to_le_bytes());
                Ok(())
            }
        };
    }
    impl<'a> ser::Serializer for &'a mut Ser {
        type Ok = ();
        type Error = Error;
        type SerializeSeq = Counted<'a>;
        type SerializeTuple = Self;
        type SerializeTupleStruct = Self;
        type SerializeTupleVariant = Self;
        type SerializeMap = Counted<'a>;
        type SerializeStruct = Self;
        type SerializeStructVariant = Self;
        fn is_human_readable(&self) -> bool {
            false
        }
        fn serialize_bool(self, v: bool) -> Result<()> {
            self.out.push(v as u8);
            Ok(())
        }
        ser_num!(serialize_i8, i8);
        ser_num!(serialize_i16, i16);
        ser_num!(serialize_i32, i32);
        ser_num!(serialize_i64, i64);
        ser_num!(serialize_i128, i128);
        ser_num!(serialize_u8, u8);
        ser_num!(serialize_u16, u16);
        ser_num!(serialize_u32, u32);
        ser_num!(serialize_u64, u64);
        ser_num!(serialize_u128, u128);
        fn serialize_f32(self, v: f32) -> Result<()> {
            self.out.extend_from_slice(&v.to_bits().to_le_bytes());
            Ok(())
        }
        fn serialize_f64(self, v: f64) -> Result<()> {
            self.out.extend_from_slice(&v.to_bits().to_le_bytes());
            Ok(())
        }
        fn serialize_char(self, v: char) -> Result<()> {
            self.serialize_u32(v as u32)
        }
        fn serialize_str(self, v: &str) -> Result<()> {
            self.serialize_bytes(v.as_bytes())
        }
        fn serialize_bytes(self, v: &[u8]) -> Result<()> {
            self.len(v.len());
            self.out.extend_from_slice(v);
            Ok(())
        }
        fn serialize_none(self) -> Result<()> {
            self.out.push(0);
            Ok(())
        }
        fn serialize_some<T: ?Sized + Serialize>(self, v: &T) -> Result<()> {
            self.out.push(1);
            v.serialize(self)
        }
        fn serialize_unit(self) -> Result<()> {
            Ok(())
        }
        fn serialize_unit_struct(self, _: &'static str) -> Result<()> {
            Ok(())
        }
        fn serialize_unit_variant(self, _: &'static str, idx: u32, _: &'static str) -> Result<()> {
            self.serialize_u32(idx)
        }
        fn serialize_newtype_struct<T: ?Sized + Serialize>(self, _: &'static str, v: &T) -> Result<()> {
            v.serialize(self)
        }
        fn serialize_newtype_variant<T: ?Sized + Serialize>(self, _: &'static str, idx: u32, _: &'static str, v: &T) -> Result<()> {
            self.out.extend_from_slice(&idx.to_le_bytes());
            v.serialize(self)
        }
        fn serialize_seq(self, _len: Option<usize>) -> Result<Counted<'a>> {
            Ok(self.counted())
        }
        fn serialize_tuple(self, _: usize) -> Result<Self> {
            Ok(self)
        }
        fn serialize_tuple_struct(self, _: &'static str, _: usize) -> Result<Self> {
            Ok(self)
        }
        fn serialize_tuple_variant(self, _: &'static str, idx: u32, _: &'static str, _: usize) -> Result<Self> {
            self.out.extend_from_slice(&idx.to_le_bytes());
            Ok(self)
        }
        fn serialize_map(self, _len: Option<usize>) -> Result<Counted<'a>> {
            Ok(self.counted())
        }
        fn serialize_struct(self, _: &'static str, _: usize) -> Result<Self> {
            Ok(self)
        }
        fn serialize_struct_variant(self, _: &'static str, idx: u32, _: &'static str, _: usize) -> Result<Self> {
            self.out.extend_from_slice(&idx.to_le_bytes());
            Ok(self)
        }
    }
    impl ser::SerializeSeq for Counted<'_> {
        type Ok = ();
        type Error = Error;
        fn serialize_element<T: ?Sized + Serialize>(&mut self, v: &T) -> Result<()> {
            self.n += 1;
            v.serialize(&mut *self.s)
        }
        fn end(self) -> Result<()> {
            self.finish();
            Ok(())
        }
    }
    impl ser::SerializeMap for Counted<'_> {
        type Ok = ();
        type Error = Error;
        fn serialize_key<T: ?Sized + Serialize>(&mut self, v: &T) -> Result<()> {
            self.n += 1;
            v.serialize(&mut *self.s)
        }
        fn serialize_value<T: ?Sized + Serialize>(&mut self, v: &T) -> Result<()> {
            v.serialize(&mut *self.s)
        }
        fn end(self) -> Result<()> {
            self.finish();
            Ok(())
        }
    }
    macro_rules! ser_fields {
        ($tr:ident, $f:ident) => {
            impl ser::$tr for &mut Ser {
                type Ok = ();
                type Error = Error;
                fn $f<T: ?Sized + Serialize>(&mut self, v: &T) -> Result<()> {
                    v.serialize(&mut **self)
                }
                fn end(self) -> Result<()> {
                    Ok(())
                }
            }
        };
    }
    ser_fields!(SerializeTuple, serialize_element);
    ser_fields!(SerializeTupleStruct, serialize_field);
    ser_fields!(SerializeTupleVariant, serialize_field);
    impl ser::SerializeStruct for &mut Ser {
        type Ok = ();
        type Error = Error;
        fn serialize_field<T: ?Sized + Serialize>(&mut self, _: &'static str, v: &T) -> Result<()> {
            v.serialize(&mut **self)
        }
        fn end(self) -> Result<()> {
            Ok(())
        }
    }
    impl ser::SerializeStructVariant for &mut Ser {
        type Ok = ();
        type Error = Error;
        fn serialize_field<T: ?Sized + Serialize>(&mut self, _: &'static str, v: &T) -> Result<()> {
            v.serialize(&mut **self)
        }
        fn end(self) -> Result<()> {
            Ok(())
        }
    }

    pub struct De<'de> {
        b: &'de [u8],
        pos: usize,
    }
    impl<'de> De<'de> {
        fn take(&mut self, n: usize) -> Result<&'de [u8]> {
            if self.pos + n > self.b.len() {
                return Err(Error("unexpected end of input".into()));
            }
            let s = &self.b[self.pos..self.pos + n];
            self.pos += n;
            Ok(s)
        }
        fn len(&mut self) -> Result<usize> {
            let n = u64::from_le_bytes(self.take(8)?.try_into().unwrap());
            if n as usize > self.b.len() {
                return Err(Error(format!("length {n} exceeds the input")));
            }
            Ok(n as usize)
        }
        fn u32(&mut self) -> Result<u32> {
            Ok(u32::from_le_bytes(self.take(4)?.try_into().unwrap()))
        }
    }
    macro_rules! de_num {
        ($f:ident, $v:ident, $t:ty, $n:expr) => {
            fn $f<V: Visitor<'de>>(self, visitor: V) -> Result<V::Value> {
                visitor.$v(<$t>::from_le_bytes(self.take($n)?.try_into().unwrap()))
            }
        };
    }
    struct Elems<'a, 'de> {
        d: &'a mut De<'de>,
        left: usize,
    }
    impl<'de> de::SeqAccess<'de> for Elems<'_, 'de> {
        type Error = Error;
        fn next_element_seed<T: DeserializeSeed<'de>>(&mut self, seed: T) -> Result<Option<T::Value>> {
            if self.left == 0 {
                return Ok(None);
            }
            self.left -= 1;
            seed.deserialize(&mut *self.d).map(Some)
        }
        fn size_hint(&self) -> Option<usize> {
            Some(self.left)
        }
    }
    impl<'de> de::MapAccess<'de> for Elems<'_, 'de> {
        type Error = Error;
        fn next_key_seed<K: DeserializeSeed<'de>>(&mut self, seed: K) -> Result<Option<K::Value>> {
            if self.left == 0 {
                return Ok(None);
            }
            self.left -= 1;
            seed.deserialize(&mut *self.d).map(Some)
        }
        fn next_value_seed<V: DeserializeSeed<'de>>(&mut self, seed: V) -> Result<V::Value> {
            seed.deserialize(&mut *self.d)
        }
        fn size_hint(&self) -> Option<usize> {
            Some(self.left)
        }
    }
    impl<'de> de::EnumAccess<'de> for &mut De<'de> {
        type Error = Error;
        type Variant = Self;
        fn variant_seed<V: DeserializeSeed<'de>>(self, seed: V) -> Result<(V::Value, Self)> {
            let idx = self.u32()?;
            let v = seed.deserialize(IntoDeserializer::<Error>::into_deserializer(idx))?;
            Ok((v, self))
        }
    }
    impl<'de> de::VariantAccess<'de> for &mut De<'de> {
        type Error = Error;
        fn unit_variant(self) -> Result<()> {
            Ok(())
        }
        fn newtype_variant_seed<T: DeserializeSeed<'de>>(self, seed: T) -> Result<T::Value> {
            seed.deserialize(self)
        }
        fn tuple_variant<V: Visitor<'de>>(self, len: usize, visitor: V) -> Result<V::Value> {
            visitor.visit_seq(Elems { d: self, left: len })
        }
        fn struct_variant<V: Visitor<'de>>(self, fields: &'static [&'static str], visitor: V) -> Result<V::Value> {
            visitor.visit_seq(Elems { d: self, left: fields.len() })
        }
    }
    impl<'de> de::Deserializer<'de> for &mut De<'de> {
        type Error = Error;
        fn is_human_readable(&self) -> bool {
            false
        }
        fn deserialize_any<V: Visitor<'de>>(self, _: V) -> Result<V::Value> {
            Err(Error("the format is not self-describing (deserialize_any)".into()))
        }
        fn deserialize_bool<V: Visitor<'de>>(self, visitor: V) -> Result<V::Value> {
            match self.take(1)?[0] {
                0 => visitor.visit_bool(false),
                1 => visitor.visit_bool(true),
                x => Err(Error(format!("invalid bool {x}"))),
            }
        }
        de_num!(deserialize_i8, visit_i8, i8, 1);
        de_num!(deserialize_i16, visit_i16, i16, 2);
        de_num!(deserialize_i32, visit_i32, i32, 4);
        de_num!(deserialize_i64, visit_i64, i64, 8);
        de_num!(deserialize_i128, visit_i128, i128, 16);
        de_num!(deserialize_u8, visit_u8, u8, 1);
        de_num!(deserialize_u16, visit_u16, u16, 2);
        de_num!(deserialize_u32, visit_u32, u32, 4);
        de_num!(deserialize_u64, visit_u64, u64, 8);
        de_num!(deserialize_u128, visit_u128, u128, 16);
        fn deserialize_f32<V: Visitor<'de>>(self, visitor: V) -> Result<V::Value> {
            visitor.visit_f32(f32::from_bits(self.u32()?))
        }
        fn deserialize_f64<V: Visitor<'de>>(self, visitor: V) -> Result<V::Value> {
            visitor.visit_f64(f64::from_bits(u64::from_le_bytes(self.take(8)?.try_into().unwrap())))
        }
        fn deserialize_char<V: Visitor<'de>>(self, visitor: V) -> Result<V::Value> {
            let c = char::from_u32(self.u32()?).ok_or_else(|| Error("invalid char".into()))?;
            visitor.visit_char(c)
        }
        fn deserialize_str<V: Visitor<'de>>(self, visitor: V) -> Result<V::Value> {
            let n = self.len()?;
            let s = std::str::from_utf8(self.take(n)?).map_err(|e| Error(e.to_string()))?;
            visitor.visit_borrowed_str(s)
        }
        fn deserialize_string<V: Visitor<'de>>(self, visitor: V) -> Result<V::Value> {
            self.deserialize_str(visitor)
        }
        fn deserialize_bytes<V: Visitor<'de>>(self, visitor: V) -> Result<V::Value> {
            let n = self.len()?;
            visitor.visit_borrowed_bytes(self.take(n)?)
        }
        fn deserialize_byte_buf<V: Visitor<'de>>(self, visitor: V) -> Result<V::Value> {
            self.deserialize_bytes(visitor)
        }
        fn deserialize_option<V: Visitor<'de>>(self, visitor: V) -> Result<V::Value> {
            match self.take(1)?[0] {
                0 => visitor.visit_none(),
                1 => visitor.visit_some(self),
                x => Err(Error(format!("invalid option tag {x}"))),
            }
        }
        fn deserialize_unit<V: Visitor<'de>>(self, visitor: V) -> Result<V::Value> {
            visitor.visit_unit()
        }
        fn deserialize_unit_struct<V: Visitor<'de>>(self, _: &'static str, visitor: V) -> Result<V::Value> {
            visitor.visit_unit()
        }
        fn deserialize_newtype_struct<V: Visitor<'de>>(self, _: &'static str, visitor: V) -> Result<V::Value> {
            visitor.visit_newtype_struct(self)
        }
        fn deserialize_seq<V: Visitor<'de>>(self, visitor: V) -> Result<V::Value> {
            let n = self.len()?;
            visitor.visit_seq(Elems { d: self, left: n })
        }
        fn deserialize_tuple<V: Visitor<'de>>(self, len: usize, visitor: V) -> Result<V::Value> {
            visitor.visit_seq(Elems { d: self, left: len })
        }
        fn deserialize_tuple_struct<V: Visitor<'de>>(self, _: &'static str, len: usize, visitor: V) -> Result<V::Value> {
            visitor.visit_seq(Elems { d: self, left: len })
        }
        fn deserialize_map<V: Visitor<'de>>(self, visitor: V) -> Result<V::Value> {
            let n = self.len()?;
            visitor.visit_map(Elems { d: self, left: n })
        }
        fn deserialize_struct<V: Visitor<'de>>(self, _: &'static str, fields: &'static [&'static str], visitor: V) -> Result<V::Value> {
            visitor.visit_seq(Elems { d: self, left: fields.len() })
        }
        fn deserialize_enum<V: Visitor<'de>>(self, _: &'static str, _: &'static [&'static str], visitor: V) -> Result<V::Value> {
            visitor.visit_enum(self)
        }
        fn deserialize_identifier<V: Visitor<'de>>(self, _: V) -> Result<V::Value> {
            Err(Error("the format has no identifiers".into()))
        }
        fn deserialize_ignored_any<V: Visitor<'de>>(self, _: V) -> Result<V::Value> {
            Err(Error("the format is not self-describing (ignored_any)".into()))
        }
    }
}

/// text terms in lexicographic order; term id i (-1..=10) <-> TERMS[i+1]
const TERMS: [&str; 12] = ["a", "c0", "c1", "c2", "c3", "c4", "c5", "c6", "c7", "c8", "c9", "zz"];
fn term_of(i: i64) -> String {
    if (-1..=10).contains(&i) {
        TERMS[(i + 1) as usize].to_string()
    } else {
        format!("c9x{i}")
    }
}
fn term_id(s: &str) -> Option<i64> {
    TERMS.iter().position(|t| *t == s).map(|p| p as i64 - 1)
}

/// unit of the fractional field q: value i <-> i / QDEN
const QDEN: f64 = 20.0;
/// scale of the numbers of a histogram request on `field`
fn hden(field: &str) -> f64 {
    if field == "q" {
        QDEN
    } else {
        1.0
    }
}

struct Fields {
    cat: Field,
    v: Field,
    w: Field,
    f: Field,
    d: Field,
    g: Field,
    id: Field,
    q: Field,
}

fn schema() -> (Schema, Fields) {
    let mut sb = Schema::builder();
    let cat = sb.add_text_field("cat", STRING | FAST);
    let v = sb.add_i64_field("v", FAST | INDEXED);
    let w = sb.add_i64_field("w", FAST | INDEXED);
    let f = sb.add_f64_field("f", FAST);
    let d = sb.add_date_field("d", DateOptions::default().set_fast().set_precision(DateTimePrecision::Milliseconds));
    let g = sb.add_u64_field("g", FAST | INDEXED);
    let id = sb.add_u64_field("id", FAST);
    let q = sb.add_f64_field("q", FAST);
    (sb.build(), Fields { cat, v, w, f, d, g, id, q })
}

fn ints(doc: &Value, k: &str) -> Vec<i64> {
    doc.get(k).and_then(|x| x.as_array()).map(|a| a.iter().filter_map(|x| x.as_i64()).collect()).unwrap_or_default()
}

/// one index; a commit after each segment (NoMergePolicy, one indexing thread)
fn build_index(docs: &[Value], segs: &[Vec<usize>]) -> tantivy::Result<Index> {
    let (schema, fl) = schema();
    let index = Index::create_in_ram(schema);
    let mut w: IndexWriter = index.writer_with_num_threads(1, 15_000_000)?;
    w.set_merge_policy(Box::new(NoMergePolicy));
    for seg in segs {
        for &i in seg {
            let doc = &docs[i];
            let mut d = TantivyDocument::default();
            for x in ints(doc, "cat") {
                d.add_text(fl.cat, term_of(x));
            }
            for x in ints(doc, "v") {
                d.add_i64(fl.v, x);
            }
            for x in ints(doc, "w") {
                d.add_i64(fl.w, x);
            }
            for x in ints(doc, "f") {
                d.add_f64(fl.f, x as f64);
            }
            for x in ints(doc, "d") {
                d.add_date(fl.d, DateTime::from_timestamp_millis(x));
            }
            for x in ints(doc, "g") {
                d.add_u64(fl.g, x as u64);
            }
            for x in ints(doc, "id") {
                d.add_u64(fl.id, x as u64);
            }
            for x in ints(doc, "q") {
                d.add_f64(fl.q, x as f64 / QDEN);
            }
            w.add_document(d)?;
        }
        w.commit()?;
    }
    w.wait_merging_threads()?;
    Ok(index)
}

fn key_json(field: &str, x: i64) -> Value {
    if field == "cat" {
        json!(term_of(x))
    } else {
        json!(x)
    }
}

/// abstract request -> tantivy's (elasticsearch compatible) JSON request
fn to_req(subs: &Value) -> Value {
    let mut m = Map::new();
    for p in subs.as_array().cloned().unwrap_or_default() {
        let name = p[0].as_str().unwrap_or("?").to_string();
        m.insert(name, to_agg(&p[1]));
    }
    Value::Object(m)
}

fn to_agg(a: &Value) -> Value {
    let k = a["k"].as_str().unwrap_or("");
    let field = a["field"].as_str().unwrap_or("");
    let mut body = Map::new();
    let mut out = Map::new();
    match k {
        "value_count" | "sum" | "min" | "max" | "avg" | "stats" | "extended_stats" | "cardinality" | "percentiles" => {
            body.insert("field".into(), json!(field));
            if let Some(ms) = a.get("missing").and_then(|x| x.as_i64()) {
                if field == "cat" {
                    body.insert("missing".into(), json!(term_of(ms)));
                } else {
                    body.insert("missing".into(), json!(ms as f64));
                }
            }
            if let Some(p) = a.get("percents") {
                body.insert("percents".into(), p.clone());
            }
        }
        "terms" => {
            body.insert("field".into(), json!(field));
            body.insert("size".into(), a["size"].clone());
            if a.get("mdc_default").and_then(|x| x.as_bool()) != Some(true) {
                body.insert("min_doc_count".into(), a["mdc"].clone());
            }
            if a.get("segsize_set").and_then(|x| x.as_bool()) == Some(true) {
                body.insert("segment_size".into(), a["segsize"].clone());
            }
            let ord = &a["ord"];
            let dir = if ord["asc"].as_bool() == Some(true) { "asc" } else { "desc" };
            let target = match ord["t"].as_str().unwrap_or("count") {
                "count" => "_count".to_string(),
                "key" => "_key".to_string(),
                _ => {
                    let p = ord["prop"].as_str().unwrap_or("");
                    if p.is_empty() {
                        ord["name"].as_str().unwrap_or("").to_string()
                    } else {
                        format!("{}.{}", ord["name"].as_str().unwrap_or(""), p)
                    }
                }
            };
            if a.get("ord_default").and_then(|x| x.as_bool()) != Some(true) {
                let mut o = Map::new();
                o.insert(target, json!(dir));
                body.insert("order".into(), Value::Object(o));
            }
            if let Some(ms) = a.get("missing").and_then(|x| x.as_i64()) {
                body.insert("missing".into(), key_json(field, ms));
            }
        }
        "range" => {
            body.insert("field".into(), json!(field));
            let mut rs = vec![];
            for r in a["ranges"].as_array().cloned().unwrap_or_default() {
                let mut o = Map::new();
                if let Some(x) = r.get("from").and_then(|x| x.as_i64()) {
                    o.insert("from".into(), json!(x as f64));
                }
                if let Some(x) = r.get("to").and_then(|x| x.as_i64()) {
                    o.insert("to".into(), json!(x as f64));
                }
                rs.push(Value::Object(o));
            }
            body.insert("ranges".into(), json!(rs));
        }
        "histogram" => {
            body.insert("field".into(), json!(field));
            let den = hden(field);
            body.insert("interval".into(), json!(a["interval"].as_i64().unwrap_or(1) as f64 / den));
            if a["offset"].as_i64().unwrap_or(0) != 0 || a.get("offset_set").is_some() {
                body.insert("offset".into(), json!(a["offset"].as_i64().unwrap_or(0) as f64 / den));
            }
            if a.get("mdc_default").and_then(|x| x.as_bool()) != Some(true) {
                body.insert("min_doc_count".into(), a["mdc"].clone());
            }
            for (from, to) in [("ext", "extended_bounds"), ("hard", "hard_bounds")] {
                if let Some(b) = a.get(from) {
                    body.insert(to.into(), json!({"min": b["min"].as_i64().unwrap_or(0) as f64 / den, "max": b["max"].as_i64().unwrap_or(0) as f64 / den}));
                }
            }
        }
        "date_histogram" => {
            body.insert("field".into(), json!(field));
            body.insert("fixed_interval".into(), json!(format!("{}ms", a["interval"].as_i64().unwrap_or(1))));
            if a["offset"].as_i64().unwrap_or(0) != 0 {
                body.insert("offset".into(), json!(format!("{}ms", a["offset"].as_i64().unwrap_or(0))));
            }
            if a.get("mdc_default").and_then(|x| x.as_bool()) != Some(true) {
                body.insert("min_doc_count".into(), a["mdc"].clone());
            }
            for (from, to) in [("ext", "extended_bounds"), ("hard", "hard_bounds")] {
                if let Some(b) = a.get(from) {
                    body.insert(to.into(), json!({"min": b["min"].as_i64().unwrap_or(0) as f64, "max": b["max"].as_i64().unwrap_or(0) as f64}));
                }
            }
        }
        "top_hits" => {
            body.insert("size".into(), a["size"].clone());
            let mut sort = vec![];
            for so in a["sort"].as_array().cloned().unwrap_or_default() {
                let mut o = Map::new();
                o.insert(so[0].as_str().unwrap_or("id").to_string(), json!(if so[1].as_bool() == Some(true) { "asc" } else { "desc" }));
                sort.push(Value::Object(o));
            }
            body.insert("sort".into(), json!(sort));
            body.insert("docvalue_fields".into(), a["dv"].clone());
        }
        "composite" => {
            body.insert("size".into(), a["size"].clone());
            let mut srcs = vec![];
            for so in a["sources"].as_array().cloned().unwrap_or_default() {
                let mut o = Map::new();
                o.insert(so[0].as_str().unwrap_or("s").to_string(),
                    json!({"terms": {"field": so[1], "order": if so[2].as_bool() == Some(true) { "asc" } else { "desc" }}}));
                srcs.push(Value::Object(o));
            }
            body.insert("sources".into(), json!(srcs));
        }
        "filter" => {
            let qf = a["qf"].as_str().unwrap_or("g");
            let qv = a["qv"].as_i64().unwrap_or(0);
            let s = if qf == "cat" { format!("cat:{}", term_of(qv)) } else { format!("{qf}:{qv}") };
            out.insert("filter".into(), json!(s));
        }
        _ => {}
    }
    if k != "filter" {
        out.insert(k.to_string(), Value::Object(body));
    }
    if let Some(sub) = a.get("sub") {
        if sub.as_array().map(|x| !x.is_empty()).unwrap_or(false) {
            out.insert("aggs".into(), to_req(sub));
        }
    }
    Value::Object(out)
}

/// A number of a result in integer-only form:
///   null -> {"t":"null"};  integer valued -> {"t":"i","v":n};
///   the f64 nearest to n/d with a small d (certificate: n as f64 / d as f64 == x, bit for bit) -> {"t":"q","n":n,"d":d};
///   anything else -> {"t":"x","s":"<text>"}
fn num(v: Option<&Value>) -> Value {
    match v {
        None | Some(Value::Null) => json!({"t":"null"}),
        Some(Value::Number(n)) => {
            let x = n.as_f64().unwrap_or(f64::NAN);
            if x.fract() == 0.0 && x.abs() < 1.0e9 {
                return json!({"t":"i","v":x as i64});
            }
            if x.is_finite() && x.abs() < 1.0e6 {
                for d in 2..=720i64 {
                    let nn = (x * d as f64).round();
                    if (nn / d as f64).to_bits() == x.to_bits() {
                        return json!({"t":"q","n":nn as i64,"d":d});
                    }
                }
            }
            json!({"t":"x","s":n.to_string()})
        }
        Some(o) => json!({"t":"x","s":o.to_string()}),
    }
}

/// an inexact float as a rounded decimal: {"t":"a","v":round(x*scale),"scale":scale}
fn approx(v: Option<&Value>, scale: i64) -> Value {
    match v {
        None | Some(Value::Null) => json!({"t":"null"}),
        Some(Value::Number(n)) => {
            let x = n.as_f64().unwrap_or(f64::NAN);
            if x.is_finite() && x.abs() < 1.0e6 {
                json!({"t":"a","v":(x * scale as f64).round() as i64,"scale":scale})
            } else {
                json!({"t":"x","s":n.to_string()})
            }
        }
        Some(o) => json!({"t":"x","s":o.to_string()}),
    }
}

fn as_count(v: Option<&Value>) -> Value {
    match v.and_then(|x| x.as_u64()) {
        Some(n) if n < 1_000_000_000 => json!(n),
        _ => json!(-7),
    }
}

/// bucket key as an integer (text terms through the inverse of the concretisation); -777777 = not a key of the domain
fn key_int(field: &str, v: Option<&Value>) -> Value {
    match v {
        Some(Value::String(s)) if field == "cat" => json!(term_id(s).unwrap_or(-777777)),
        Some(Value::Number(n)) if field != "cat" => {
            let x = n.as_f64().unwrap_or(f64::NAN);
            if x.fract() == 0.0 && x.abs() < 1.0e9 {
                json!(x as i64)
            } else {
                json!(-777777)
            }
        }
        _ => json!(-777777),
    }
}

/// Key of a bucket of a histogram with a fractional interval (field q), in units of 1/QDEN.
/// The documented key of a bucket is `pos * interval + offset` evaluated in f64 (pos = the bucket
/// position, an integer).  The key is reported as the integer `pos * interval_units + offset_units`
/// only with the certificate that it IS that f64 value, bit for bit; any other float (e.g. one that
/// is an ulp away, which would make two buckets of one interval) is reported as -777777, which is
/// a key of no bucket of the specification.
fn frac_key(a: &Value, v: Option<&Value>) -> Value {
    let (Some(iu), ou) = (a["interval"].as_i64(), a["offset"].as_i64().unwrap_or(0)) else {
        return json!(-777777);
    };
    let (iv, off) = (iu as f64 / QDEN, ou as f64 / QDEN);
    let Some(x) = v.and_then(|x| x.as_f64()) else {
        return json!(-777777);
    };
    let pos = ((x - off) / iv).round();
    if pos.abs() < 1.0e6 && (pos * iv + off).to_bits() == x.to_bits() {
        json!(pos as i64 * iu + ou)
    } else {
        json!(-777777)
    }
}

/// result JSON of tantivy -> normalised structure that follows the request
fn norm_subs(subs: &Value, res: &Value) -> Value {
    let mut out = vec![];
    for p in subs.as_array().cloned().unwrap_or_default() {
        let name = p[0].as_str().unwrap_or("?");
        out.push(json!([name, norm_agg(&p[1], res.get(name).unwrap_or(&Value::Null))]));
    }
    json!(out)
}

fn norm_agg(a: &Value, r: &Value) -> Value {
    let k = a["k"].as_str().unwrap_or("");
    let field = a["field"].as_str().unwrap_or("");
    let empty = json!([]);
    let sub = a.get("sub").unwrap_or(&empty);
    match k {
        "value_count" | "sum" | "min" | "max" | "avg" | "cardinality" => json!({"value": num(r.get("value"))}),
        "stats" | "extended_stats" => {
            let mut m = Map::new();
            for f in ["count", "sum", "min", "max", "avg"] {
                m.insert(f.into(), num(r.get(f)));
            }
            if k == "extended_stats" {
                m.insert("sum_of_squares".into(), num(r.get("sum_of_squares")));
                for f in ["variance", "variance_population", "variance_sampling"] {
                    m.insert(f.into(), approx(r.get(f), 100));
                }
                for f in ["std_deviation", "std_deviation_population", "std_deviation_sampling"] {
                    m.insert(f.into(), approx(r.get(f), 10));
                }
            }
            Value::Object(m)
        }
        "percentiles" => {
            // keyed output {"25.0": x, ..}: one entry per requested percent, in request order
            let mut vals = vec![];
            for p in a["percents"].as_array().cloned().unwrap_or_default() {
                let key = format!("{:?}", p.as_f64().unwrap_or(-1.0));
                let v = r.get("values").and_then(|x| x.get(&key));
                vals.push(if v.is_none() { json!({"t":"x","s":"absent"}) } else { approx(v, 100) });
            }
            json!({"values": vals})
        }
        "top_hits" => {
            let mut hs = vec![];
            for h in r.get("hits").and_then(|x| x.as_array()).cloned().unwrap_or_default() {
                // sort values are the u64 fast field representation; the sort fields used are u64 fields
                let sort: Vec<Value> = h.get("sort").and_then(|x| x.as_array()).map(|xs| xs.iter().map(|x| num(Some(x))).collect()).unwrap_or_default();
                let dvo = h.get("docvalue_fields").cloned().unwrap_or(json!({}));
                let mut dv = vec![];
                for f in a["dv"].as_array().cloned().unwrap_or_default() {
                    let fname = f.as_str().unwrap_or("");
                    let vals: Vec<Value> = match dvo.get(fname) {
                        Some(Value::Array(xs)) => xs.iter().map(|x| key_int(fname, Some(x))).collect(),
                        None => vec![],
                        Some(x) => vec![key_int(fname, Some(x))],
                    };
                    dv.push(json!(vals));
                }
                let id = dvo.get("id").and_then(|x| x.as_array()).and_then(|x| x.first()).and_then(|x| x.as_i64()).unwrap_or(-1);
                hs.push(json!({"id": id, "sort": sort, "dv": dv}));
            }
            json!({"hits": hs})
        }
        "composite" => {
            let mut bs = vec![];
            for b in r.get("buckets").and_then(|x| x.as_array()).cloned().unwrap_or_default() {
                let mut key = vec![];
                for so in a["sources"].as_array().cloned().unwrap_or_default() {
                    key.push(key_int(so[1].as_str().unwrap_or(""), b.get("key").and_then(|k| k.get(so[0].as_str().unwrap_or("")))));
                }
                bs.push(json!({"key": key, "doc_count": as_count(b.get("doc_count")), "sub": norm_subs(sub, &b)}));
            }
            json!({"buckets": bs, "has_after": r.get("after_key").is_some()})
        }
        "terms" => {
            let mut bs = vec![];
            for b in r.get("buckets").and_then(|x| x.as_array()).cloned().unwrap_or_default() {
                bs.push(json!({"key": key_int(field, b.get("key")), "doc_count": as_count(b.get("doc_count")), "sub": norm_subs(sub, &b)}));
            }
            json!({"buckets": bs, "other": as_count(r.get("sum_other_doc_count")),
                   "err": r.get("doc_count_error_upper_bound").map(|x| as_count(Some(x))).unwrap_or(json!(-1)),
                   "shape": r.get("buckets").map(|x| x.is_array()).unwrap_or(false)})
        }
        "range" => {
            let mut bs = vec![];
            for b in r.get("buckets").and_then(|x| x.as_array()).cloned().unwrap_or_default() {
                bs.push(json!({"key": b.get("key").and_then(|x| x.as_str()).unwrap_or("?"), "from": num(b.get("from")), "to": num(b.get("to")),
                               "doc_count": as_count(b.get("doc_count")), "sub": norm_subs(sub, &b)}));
            }
            json!({"buckets": bs, "shape": r.get("buckets").map(|x| x.is_array()).unwrap_or(false)})
        }
        "histogram" | "date_histogram" => {
            let mut bs = vec![];
            for b in r.get("buckets").and_then(|x| x.as_array()).cloned().unwrap_or_default() {
                let key = if k == "histogram" && field == "q" { frac_key(a, b.get("key")) } else { key_int(field, b.get("key")) };
                bs.push(json!({"key": key, "doc_count": as_count(b.get("doc_count")), "sub": norm_subs(sub, &b),
                               "key_as_string": b.get("key_as_string").cloned().unwrap_or(Value::Null)}));
            }
            json!({"buckets": bs, "shape": r.get("buckets").map(|x| x.is_array()).unwrap_or(false)})
        }
        "filter" => json!({"doc_count": as_count(r.get("doc_count")), "sub": norm_subs(sub, r)}),
        _ => json!({"unknown": k}),
    }
}

thread_local! {
    /// source location of the last panic on this thread (set by the panic hook)
    static PANIC_AT: std::cell::RefCell<String> = const { std::cell::RefCell::new(String::new()) };
}

fn panic_msg(e: Box<dyn std::any::Any + Send>) -> String {
    let m = if let Some(s) = e.downcast_ref::<&str>() {
        s.to_string()
    } else if let Some(s) = e.downcast_ref::<String>() {
        s.clone()
    } else {
        "?".to_string()
    };
    let at = PANIC_AT.with(|p| p.borrow().clone());
    format!("{m} [{at}]")
}

fn query_of(q: &str, g: Field) -> Box<dyn Query> {
    if q == "g1" {
        Box::new(TermQuery::new(Term::from_field_u64(g, 1), IndexRecordOption::Basic))
    } else {
        Box::new(AllQuery)
    }
}

fn segs_of(v: &Value) -> Vec<Vec<usize>> {
    v.as_array()
        .map(|a| a.iter().map(|s| s.as_array().map(|x| x.iter().filter_map(|i| i.as_u64().map(|i| i as usize)).collect()).unwrap_or_default()).collect())
        .unwrap_or_default()
}

/// emit one observation; `r` = outcome of the guarded call
fn observe(tracer: &mut Vec<Value>, base: Value, req: &Value, raw: bool, r: std::thread::Result<Result<Value, String>>) {
    let mut ev = base;
    let m = ev.as_object_mut().unwrap();
    match r {
        Ok(Ok(res)) => {
            m.insert("ev".into(), json!("obs"));
            m.insert("res".into(), norm_subs(req, &res));
            if raw {
                m.insert("raw".into(), res);
            }
        }
        Ok(Err(e)) => {
            m.insert("ev".into(), json!("error"));
            m.insert("msg".into(), json!(e));
        }
        Err(p) => {
            m.insert("ev".into(), json!("panic"));
            m.insert("msg".into(), json!(panic_msg(p)));
        }
    }
    tracer.push(ev);
}

fn final_of(inter: &IntermediateAggregationResults, agg: &Aggregations) -> Result<Value, String> {
    let ctx = AggContextParams::default();
    let r = inter.clone().into_final_result(agg.clone(), ctx.limits).map_err(|e| e.to_string())?;
    serde_json::to_value(&r).map_err(|e| e.to_string())
}

fn run_case(case: &Value, raw: bool) -> Vec<Value> {
    let mut out: Vec<Value> = vec![];
    let tracer = &mut out;
    let docs: Vec<Value> = case["docs"].as_array().cloned().unwrap_or_default();
    let req = &case["req"];
    let id = case["id"].clone();
    let query = case["query"].as_str().unwrap_or("all").to_string();
    // part of every document (1 based part numbers, 0 = in no part)
    let mut part_of = vec![0usize; docs.len()];
    let parts: Vec<Vec<Vec<usize>>> = case["parts"].as_array().map(|a| a.iter().map(segs_of).collect()).unwrap_or_default();
    for (p, segs) in parts.iter().enumerate() {
        for s in segs {
            for &i in s {
                part_of[i] = p + 1;
            }
        }
    }
    tracer.push(json!({"ev":"case","id":id,"tag":case.get("tag").cloned().unwrap_or(Value::Null),"docs":docs,"query":query,"req":req,"part":part_of}));
    let req_json = to_req(req);
    let agg: Aggregations = match serde_json::from_value(req_json.clone()) {
        Ok(a) => a,
        Err(e) => {
            tracer.push(json!({"ev":"error","op":"parse","id":id,"msg":e.to_string(),"request":req_json}));
            return out;
        }
    };
    let (_, fl) = schema();
    // (1) AggregationCollector on one index holding all documents
    let all = segs_of(&case["all"]);
    if !all.is_empty() {
        let r = catch_unwind(AssertUnwindSafe(|| -> Result<Value, String> {
            let index = build_index(&docs, &all).map_err(|e| e.to_string())?;
            let searcher = index.reader().map_err(|e| e.to_string())?.searcher();
            let coll = AggregationCollector::from_aggs(agg.clone(), AggContextParams::default());
            let res = searcher.search(&*query_of(&query, fl.g), &coll).map_err(|e| e.to_string())?;
            serde_json::to_value(&res).map_err(|e| e.to_string())
        }));
        observe(tracer, json!({"op":"search","id":id,"nsegs":all.len()}), req, raw, r);
    }
    // (2) DistributedAggregationCollector per part, merges, serialisation, finalisation
    let mut pool: HashMap<u64, IntermediateAggregationResults> = HashMap::new();
    for step in case["plan"].as_array().cloned().unwrap_or_default() {
        let op = step["op"].as_str().unwrap_or("");
        match op {
            "collect" => {
                let h = step["h"].as_u64().unwrap_or(0);
                let p = step["part"].as_u64().unwrap_or(0) as usize;
                let mut got = None;
                let r = catch_unwind(AssertUnwindSafe(|| -> Result<Value, String> {
                    let index = build_index(&docs, &parts[p]).map_err(|e| e.to_string())?;
                    let searcher = index.reader().map_err(|e| e.to_string())?.searcher();
                    let coll = DistributedAggregationCollector::from_aggs(agg.clone(), AggContextParams::default());
                    let inter = searcher.search(&*query_of(&query, fl.g), &coll).map_err(|e| e.to_string())?;
                    let v = final_of(&inter, &agg);
                    got = Some(inter);
                    v
                }));
                if let Some(i) = got {
                    pool.insert(h, i);
                }
                observe(tracer, json!({"op":"collect","id":id,"h":h,"part":p + 1,"nsegs":parts[p].len()}), req, raw, r);
            }
            "empty" => {
                // the value that seeds a fold over intermediate results
                let h = step["h"].as_u64().unwrap_or(0);
                let x = IntermediateAggregationResults::default();
                let r = catch_unwind(AssertUnwindSafe(|| final_of(&x, &agg)));
                observe(tracer, json!({"op":"empty","id":id,"h":h}), req, raw, r);
                pool.insert(h, x);
            }
            "merge" => {
                let a = step["a"].as_u64().unwrap_or(0);
                let b = step["b"].as_u64().unwrap_or(0);
                let (Some(mut x), Some(y)) = (pool.remove(&a), pool.remove(&b)) else {
                    tracer.push(json!({"ev":"skipped","op":"merge","id":id,"a":a,"b":b}));
                    continue;
                };
                let r = catch_unwind(AssertUnwindSafe(|| -> Result<Value, String> {
                    x.merge_fruits(y).map_err(|e| e.to_string())?;
                    final_of(&x, &agg)
                }));
                let ok = matches!(r, Ok(Ok(_)));
                observe(tracer, json!({"op":"merge","id":id,"a":a,"b":b}), req, raw, r);
                if ok {
                    pool.insert(a, x);
                }
            }
            "ser" => {
                let h = step["h"].as_u64().unwrap_or(0);
                let Some(x) = pool.remove(&h) else {
                    tracer.push(json!({"ev":"skipped","op":"ser","id":id,"h":h}));
                    continue;
                };
                let mut got = None;
                let mut nbytes = 0usize;
                let r = catch_unwind(AssertUnwindSafe(|| -> Result<Value, String> {
                    let bytes = agg_wire::to_bytes(&x).map_err(|e| format!("serialize: {e}"))?;
                    nbytes = bytes.len();
                    let y: IntermediateAggregationResults = agg_wire::from_bytes(&bytes).map_err(|e| format!("deserialize: {e}"))?;
                    let v = final_of(&y, &agg);
                    got = Some(y);
                    v
                }));
                observe(tracer, json!({"op":"ser","id":id,"h":h,"bytes":nbytes}), req, raw, r);
                pool.insert(h, got.unwrap_or(x));
            }
            "final" => {
                let h = step["h"].as_u64().unwrap_or(0);
                let Some(x) = pool.get(&h) else {
                    tracer.push(json!({"ev":"skipped","op":"final","id":id,"h":h}));
                    continue;
                };
                let r = catch_unwind(AssertUnwindSafe(|| final_of(x, &agg)));
                observe(tracer, json!({"op":"final","id":id,"h":h}), req, raw, r);
            }
            _ => {}
        }
    }
    tracer.push(json!({"ev":"end","id":id}));
    out
}

fn main() {
    let a = Args::parse();
    let mode = a.pos.first().cloned().unwrap_or_default();
    let out = a.get("out", "/dev/stdout");
    let tracer = Tracer::to_file(&out);
    std::panic::set_hook(Box::new(|info| {
        let at = info.location().map(|l| format!("{}:{}", l.file().trim_start_matches("/repo/"), l.line())).unwrap_or_default();
        PANIC_AT.with(|p| *p.borrow_mut() = at);
    }));
    match mode.as_str() {
        "run" => {
            let f = std::fs::File::open(a.get("in", "")).expect("open --in");
            let mut cases: Vec<Value> = vec![];
            for line in std::io::BufReader::new(f).lines() {
                let line = line.unwrap();
                if line.trim().is_empty() {
                    continue;
                }
                cases.push(serde_json::from_str(&line).expect("case json"));
            }
            // cases are independent (own RAM indexes): run them on a few threads, write them in input order
            let raw = a.flag("raw");
            let nthreads = (a.num("threads", 6) as usize).max(1);
            let next = std::sync::atomic::AtomicUsize::new(0);
            let slots: Vec<std::sync::Mutex<Vec<Value>>> = cases.iter().map(|_| std::sync::Mutex::new(vec![])).collect();
            std::thread::scope(|sc| {
                for _ in 0..nthreads {
                    sc.spawn(|| loop {
                        let i = next.fetch_add(1, std::sync::atomic::Ordering::SeqCst);
                        if i >= cases.len() {
                            break;
                        }
                        let evs = run_case(&cases[i], raw);
                        *slots[i].lock().unwrap() = evs;
                    });
                }
            });
            for sl in slots {
                for e in sl.into_inner().unwrap() {
                    tracer.emit(e);
                }
            }
        }
        "request" => {
            // print the tantivy request of an abstract request (debugging aid)
            let v: Value = serde_json::from_str(&a.get("req", "[]")).expect("req json");
            println!("{}", to_req(&v));
        }
        _ => {
            eprintln!("usage: agg_driver run --in cases.ndjson --out trace.ndjson [--raw]");
            std::process::exit(2);
        }
    }
    tracer.flush();
}
