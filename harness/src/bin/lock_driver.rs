//! C18 driver: executes writer-lock lifecycles (printed by spec/Gen_WriterLock.tla) on the real
//! tantivy code, for three directory kinds, and records what happened.  Nothing is judged here.
//!   lock_driver run --in cases.ndjson --out trace.ndjson [--dirs sim,ram,mmap] [--no-probe]
//! Invalid options (`bad`): budget (too small, through writer_with_num_threads), toobig, threads0
//! (writer_with_options), threads0n (zero threads through writer_with_num_threads).
//! `failroll` = rollback with one injected read fault (SimDir only; `skip` elsewhere).
//! A case: {"id":7,"ops":[{"op":"race","hs":["A","B"],"bad":["none","budget"],"spawn":true},
//!                        {"op":"rollback","w":1,"contend":true},{"op":"kill","w":1,"how":"schema"},
//!                        {"op":"drop","w":1},{"op":"wait","w":1},{"op":"failroll","w":1}]}
//! Directory kinds: sim = harness SimDir (default acquire_lock: lock file through open_write),
//! ram = RamDirectory (same default code, tantivy's own open_write), mmap = MmapDirectory on a
//! fresh directory under /tmp (flock).  Handle "A" is the Index that created the index, handle
//! "B" a second `Index::open` on the same directory (for mmap: a second MmapDirectory object).
//! After every step the driver logs which writer objects it still holds and whether each of them
//! can still add a document and commit (`live`), and whether `.tantivy-writer.lock` exists.
use serde_json::{json, Value};
use std::collections::BTreeMap;
use std::io::BufRead;
use std::panic::{catch_unwind, AssertUnwindSafe};
use std::path::{Path, PathBuf};
use std::sync::atomic::{AtomicBool, AtomicU64, Ordering};
use std::sync::{Arc, Barrier, Mutex};
use tantivy::directory::{Directory, MmapDirectory, RamDirectory};
use tantivy::indexer::{IndexWriterOptions, NoMergePolicy};
use tantivy::schema::*;
use tantivy::{Index, IndexSettings, IndexWriter, TantivyDocument, TantivyError};
use vh::simdir::{FaultPlan, Gate, OpInfo, SimDir};
use vh::trace::Tracer;
use vh::Args;

const LOCKFILE: &str = ".tantivy-writer.lock";
const BUDGET: usize = 15_000_000;

#[derive(Clone)]
enum DirK {
    Sim(SimDir),
    Ram(RamDirectory),
    Mmap(PathBuf),
}

impl DirK {
    fn name(&self) -> &'static str {
        match self {
            DirK::Sim(_) => "sim",
            DirK::Ram(_) => "ram",
            DirK::Mmap(_) => "mmap",
        }
    }
    fn create(&self, schema: Schema) -> tantivy::Result<Index> {
        let st = IndexSettings::default();
        match self {
            DirK::Sim(d) => Index::create(d.clone(), schema, st),
            DirK::Ram(d) => Index::create(d.clone(), schema, st),
            DirK::Mmap(p) => Index::create(MmapDirectory::open(p).map_err(|e| TantivyError::SystemError(format!("{e:?}")))?, schema, st),
        }
    }
    fn open(&self) -> tantivy::Result<Index> {
        match self {
            DirK::Sim(d) => Index::open(d.clone()),
            DirK::Ram(d) => Index::open(d.clone()),
            DirK::Mmap(p) => Index::open(MmapDirectory::open(p).map_err(|e| TantivyError::SystemError(format!("{e:?}")))?),
        }
    }
    /// does the lock file exist (meaningless for flock: the file stays)
    fn lockfile(&self) -> Value {
        match self {
            DirK::Sim(d) => json!(d.lock_files().iter().any(|f| f == LOCKFILE)),
            DirK::Ram(d) => json!(d.exists(Path::new(LOCKFILE)).unwrap_or(false)),
            DirK::Mmap(_) => Value::Null,
        }
    }
}

fn errclass(e: &TantivyError) -> String {
    match e {
        TantivyError::LockFailure(le, _) => {
            let s = format!("{le:?}");
            if s.starts_with("LockBusy") {
                "LockBusy".to_string()
            } else {
                format!("LockFailure:{}", s.chars().take(80).collect::<String>())
            }
        }
        TantivyError::InvalidArgument(_) => "InvalidArgument".to_string(),
        other => {
            let s = format!("{other:?}");
            let head: String = s.chars().take_while(|c| c.is_alphanumeric()).collect();
            format!("err:{head}")
        }
    }
}

fn options(bad: &str) -> IndexWriterOptions {
    match bad {
        "budget" => IndexWriterOptions::builder().num_worker_threads(1).memory_budget_per_thread(1000).build(),
        "toobig" => IndexWriterOptions::builder().num_worker_threads(1).memory_budget_per_thread(u32::MAX as usize).build(),
        "threads0" => IndexWriterOptions::builder().num_worker_threads(0).memory_budget_per_thread(BUDGET).build(),
        _ => IndexWriterOptions::builder().num_worker_threads(1).memory_budget_per_thread(BUDGET).build(),
    }
}

/// one creation attempt; never panics
fn create(index: &Index, bad: &str) -> Result<IndexWriter, String> {
    let r = catch_unwind(AssertUnwindSafe(|| -> tantivy::Result<IndexWriter> {
        // the budget variants also go through the other entry point of the API
        if bad == "budget" {
            index.writer_with_num_threads(1, 1000)
        } else if bad == "threads0n" {
            // zero threads through the convenience entry point
            index.writer_with_num_threads(0, BUDGET)
        } else {
            index.writer_with_options(options(bad))
        }
    }));
    match r {
        Ok(Ok(w)) => {
            w.set_merge_policy(Box::new(NoMergePolicy));
            Ok(w)
        }
        Ok(Err(e)) => Err(errclass(&e)),
        Err(_) => Err("panic".to_string()),
    }
}

struct Env {
    dir: DirK,
    tracer: Tracer,
    handles: BTreeMap<String, Index>,
    writers: BTreeMap<u64, (String, IndexWriter)>,
    next_w: u64,
    next_doc: u64,
    idf: Field,
    tf: Field,
    probe: bool,
}

impl Env {
    fn doc(&mut self, t: &str) -> TantivyDocument {
        self.next_doc += 1;
        let mut d = TantivyDocument::default();
        d.add_u64(self.idf, self.next_doc);
        d.add_text(self.tf, t);
        d
    }
    /// a document no worker can index: a text where the schema says u64
    fn bad_doc(&self) -> TantivyDocument {
        let mut d = TantivyDocument::default();
        d.add_text(self.idf, "not a number");
        d
    }
    fn other(&self, h: &str) -> &Index {
        let o = if h == "A" { "B" } else { "A" };
        &self.handles[o]
    }
    /// [[w, can add + commit], ...] for every writer object held
    fn live(&mut self) -> Value {
        let ids: Vec<u64> = self.writers.keys().cloned().collect();
        let mut out = vec![];
        for id in ids {
            if !self.probe {
                out.push(json!([id, true]));
                continue;
            }
            let d = self.doc("p");
            let w = &mut self.writers.get_mut(&id).unwrap().1;
            let ok = catch_unwind(AssertUnwindSafe(|| w.add_document(d).is_ok() && w.commit().is_ok())).unwrap_or(false);
            out.push(json!([id, ok]));
        }
        json!(out)
    }
    fn emit(&mut self, mut ev: Value) {
        let live = self.live();
        ev["live"] = live;
        ev["lockfile"] = self.dir.lockfile();
        self.tracer.emit(ev);
    }

    fn exec(&mut self, op: &Value) {
        let name = op["op"].as_str().unwrap_or("?");
        let w = op["w"].as_u64().unwrap_or(0);
        if matches!(name, "rollback" | "failroll" | "drop" | "wait" | "kill") && !self.writers.contains_key(&w) {
            self.emit(json!({"ev":"skip","op":name,"w":w}));
            return;
        }
        match name {
            "race" => self.race(op),
            "rollback" => self.rollback(w, op["contend"].as_bool().unwrap_or(false)),
            "failroll" => self.failroll(w),
            "drop" => {
                let (_, wr) = self.writers.remove(&w).unwrap();
                let r = catch_unwind(AssertUnwindSafe(move || drop(wr)));
                self.emit(json!({"ev":"drop","w":w,"res":if r.is_ok() {"ok"} else {"panic"}}));
            }
            "wait" => {
                let (_, wr) = self.writers.remove(&w).unwrap();
                let r = catch_unwind(AssertUnwindSafe(move || wr.wait_merging_threads()));
                let res = match r {
                    Ok(Ok(())) => "ok".to_string(),
                    Ok(Err(e)) => errclass(&e),
                    Err(_) => "panic".to_string(),
                };
                self.emit(json!({"ev":"wait","w":w,"res":res}));
            }
            "kill" => self.kill(w, op["how"].as_str().unwrap_or("schema")),
            _ => self.emit(json!({"ev":"unknown","op":name})),
        }
    }

    /// n >= 1 creation attempts; n = 1 and !spawn: on the calling thread; otherwise one thread per
    /// attempt behind a barrier
    fn race(&mut self, op: &Value) {
        let hs: Vec<String> = op["hs"].as_array().unwrap().iter().map(|x| x.as_str().unwrap().to_string()).collect();
        let bad: Vec<String> = op["bad"].as_array().unwrap().iter().map(|x| x.as_str().unwrap().to_string()).collect();
        let spawn = op["spawn"].as_bool().unwrap_or(false) || hs.len() > 1;
        let mut results: Vec<Result<IndexWriter, String>> = vec![];
        if !spawn {
            results.push(create(&self.handles[&hs[0]], &bad[0]));
        } else {
            let barrier = Arc::new(Barrier::new(hs.len()));
            let slots: Arc<Mutex<Vec<Option<Result<IndexWriter, String>>>>> = Arc::new(Mutex::new((0..hs.len()).map(|_| None).collect()));
            std::thread::scope(|s| {
                for i in 0..hs.len() {
                    let index = self.handles[&hs[i]].clone();
                    let b = bad[i].clone();
                    let barrier = barrier.clone();
                    let slots = slots.clone();
                    std::thread::Builder::new()
                        .name(format!("racer{i}"))
                        .spawn_scoped(s, move || {
                            barrier.wait();
                            let r = create(&index, &b);
                            slots.lock().unwrap()[i] = Some(r);
                        })
                        .expect("spawn racer");
                }
            });
            let mut g = slots.lock().unwrap();
            for s in g.iter_mut() {
                results.push(s.take().unwrap_or(Err("nothread".into())));
            }
        }
        let mut res = vec![];
        let mut wids = vec![];
        for (i, r) in results.into_iter().enumerate() {
            match r {
                Ok(wr) => {
                    let id = self.next_w;
                    self.next_w += 1;
                    self.writers.insert(id, (hs[i].clone(), wr));
                    res.push("ok".to_string());
                    wids.push(id);
                }
                Err(e) => {
                    res.push(e);
                    wids.push(0);
                }
            }
        }
        self.emit(json!({"ev":"race","hs":hs,"bad":bad,"spawn":spawn,"res":res,"w":wids}));
    }

    fn rollback(&mut self, w: u64, contend: bool) {
        let h = self.writers[&w].0.clone();
        let other = self.other(&h).clone();
        // (1) SimDir: whenever the writer lock file is deleted during the call, an intruder tries at once
        let gate_hits = Arc::new(AtomicU64::new(0));
        let gate_wins = Arc::new(AtomicU64::new(0));
        if let DirK::Sim(d) = &self.dir {
            let (hits, wins) = (gate_hits.clone(), gate_wins.clone());
            let busy = Arc::new(AtomicBool::new(false));
            let idx = other.clone();
            let g: Gate = Arc::new(move |info: &OpInfo, after: bool| {
                if after && info.op == "delete" && info.path == LOCKFILE && !busy.swap(true, Ordering::SeqCst) {
                    hits.fetch_add(1, Ordering::SeqCst);
                    if let Ok(wr) = create(&idx, "none") {
                        wins.fetch_add(1, Ordering::SeqCst);
                        drop(wr);
                    }
                    busy.store(false, Ordering::SeqCst);
                }
            });
            d.set_gate(Some(g));
        }
        // (2) any directory: a second thread keeps trying on the other handle while rollback runs
        let stop = Arc::new(AtomicBool::new(false));
        let tries = Arc::new(AtomicU64::new(0));
        let wins = Arc::new(AtomicU64::new(0));
        let started = Arc::new(Barrier::new(2));
        let mut res = String::new();
        std::thread::scope(|s| {
            if contend {
                let (stop, tries, wins, started2, idx) = (stop.clone(), tries.clone(), wins.clone(), started.clone(), other.clone());
                std::thread::Builder::new()
                    .name("intruder".into())
                    .spawn_scoped(s, move || {
                        started2.wait();
                        loop {
                            match create(&idx, "none") {
                                Ok(wr) => {
                                    wins.fetch_add(1, Ordering::SeqCst);
                                    drop(wr);
                                }
                                Err(_) => {}
                            }
                            tries.fetch_add(1, Ordering::SeqCst);
                            if stop.load(Ordering::SeqCst) {
                                break;
                            }
                        }
                    })
                    .expect("spawn intruder");
                started.wait();
            }
            let wr = &mut self.writers.get_mut(&w).unwrap().1;
            let n = if contend { 3 } else { 1 };
            for _ in 0..n {
                let r = catch_unwind(AssertUnwindSafe(|| wr.rollback()));
                res = match r {
                    Ok(Ok(_)) => "ok".to_string(),
                    Ok(Err(e)) => errclass(&e),
                    Err(_) => "panic".to_string(),
                };
                if res != "ok" {
                    break;
                }
            }
            stop.store(true, Ordering::SeqCst);
        });
        if let DirK::Sim(d) = &self.dir {
            d.set_gate(None);
        }
        if res == "ok" {
            self.writers[&w].1.set_merge_policy(Box::new(NoMergePolicy));
        }
        self.emit(json!({"ev":"rollback","w":w,"res":res,"contend":contend,"intr_tries":tries.load(Ordering::SeqCst),
            "intr_ok":wins.load(Ordering::SeqCst) + gate_wins.load(Ordering::SeqCst),"lock_deletes":gate_hits.load(Ordering::SeqCst)}));
    }

    /// SimDir only: the first atomic_read of the call fails (load_metas inside IndexWriter::new)
    fn failroll(&mut self, w: u64) {
        let DirK::Sim(d) = self.dir.clone() else {
            self.emit(json!({"ev":"skip","op":"failroll","w":w}));
            return;
        };
        {
            let mut g = d.st.lock().unwrap();
            g.faults_fired = 0;
            g.fault = FaultPlan { k: g.opcount + 1, permanent: false, ops: vec!["atomic_read".into()], skip_locks: true, after_effect: false, ..Default::default() };
        }
        let wr = &mut self.writers.get_mut(&w).unwrap().1;
        let r = catch_unwind(AssertUnwindSafe(|| wr.rollback()));
        let fired = {
            let mut g = d.st.lock().unwrap();
            g.fault = FaultPlan::default();
            g.faults_fired
        };
        let res = match r {
            Ok(Ok(_)) => "ok".to_string(),
            Ok(Err(e)) => errclass(&e),
            Err(_) => "panic".to_string(),
        };
        self.emit(json!({"ev":"failroll","w":w,"res":res,"fired":fired}));
    }

    /// provoke the death of the indexing worker: "schema" = a document the worker cannot index,
    /// "fault" (SimDir) = the next `write` of the directory fails while the segment is written
    fn kill(&mut self, w: u64, how: &str) {
        let mut how = how.to_string();
        let sim = if let DirK::Sim(d) = &self.dir { Some(d.clone()) } else { None };
        if how == "fault" && sim.is_none() {
            how = "schema".into();
        }
        let d = if how == "fault" { self.doc("k") } else { self.bad_doc() };
        if let (Some(dir), true) = (&sim, how == "fault") {
            let mut g = dir.st.lock().unwrap();
            g.faults_fired = 0;
            g.fault = FaultPlan { k: g.opcount + 1, permanent: false, ops: vec!["write".into()], skip_locks: true, after_effect: false, ..Default::default() };
        }
        let wr = &mut self.writers.get_mut(&w).unwrap().1;
        let r = catch_unwind(AssertUnwindSafe(|| {
            let a = wr.add_document(d).map(|_| ()).map_err(|e| errclass(&e));
            let c = wr.commit().map(|_| ()).map_err(|e| errclass(&e));
            (a, c)
        }));
        if let Some(dir) = &sim {
            dir.st.lock().unwrap().fault = FaultPlan::default();
        }
        let (add, commit) = match r {
            Ok((a, c)) => (a.err().unwrap_or("ok".into()), c.err().unwrap_or("ok".into())),
            Err(_) => ("panic".to_string(), "panic".to_string()),
        };
        self.emit(json!({"ev":"kill","w":w,"how":how,"add":add,"commit":commit}));
    }
}

static MMAP_N: AtomicU64 = AtomicU64::new(0);

fn run_case(tracer: &Tracer, kind: &str, case: &Value, probe: bool) {
    let dir = match kind {
        "sim" => {
            let d = SimDir::new(Tracer::sink());
            d.set_quiet(true);
            DirK::Sim(d)
        }
        "ram" => DirK::Ram(RamDirectory::create()),
        _ => {
            let p = PathBuf::from(format!("/tmp/vh_lock_{}_{}", std::process::id(), MMAP_N.fetch_add(1, Ordering::SeqCst)));
            let _ = std::fs::remove_dir_all(&p);
            std::fs::create_dir_all(&p).expect("create temp dir");
            DirK::Mmap(p)
        }
    };
    let mut sb = Schema::builder();
    let idf = sb.add_u64_field("id", STORED | FAST | INDEXED);
    let tf = sb.add_text_field("t", STRING | STORED);
    let schema = sb.build();
    tracer.emit(json!({"ev":"reset","dir":dir.name(),"case":case["id"],"probe":probe}));
    let a = dir.create(schema).expect("create index");
    let b = dir.open().expect("open index");
    let mut handles = BTreeMap::new();
    handles.insert("A".to_string(), a);
    handles.insert("B".to_string(), b);
    let mut env = Env { dir: dir.clone(), tracer: tracer.clone(), handles, writers: BTreeMap::new(), next_w: 1, next_doc: 0, idf, tf, probe };
    for op in case["ops"].as_array().cloned().unwrap_or_default() {
        env.exec(&op);
    }
    // epilogue: whatever happened, once every writer object is gone a writer can be created on
    // either handle (events of the ordinary kinds)
    let ids: Vec<u64> = env.writers.keys().cloned().collect();
    for id in ids {
        env.exec(&json!({"op":"drop","w":id}));
    }
    for h in ["B", "A"] {
        let before = env.next_w;
        env.exec(&json!({"op":"race","hs":[h],"bad":["none"]}));
        if env.next_w > before {
            env.exec(&json!({"op":"drop","w":before}));
        }
    }
    tracer.emit(json!({"ev":"end","lockfile":dir.lockfile()}));
    drop(env);
    if let DirK::Mmap(p) = &dir {
        let _ = std::fs::remove_dir_all(p);
    }
}

fn main() {
    let a = Args::parse();
    let mode = a.pos.get(0).cloned().unwrap_or_default();
    if mode != "run" {
        eprintln!("usage: lock_driver run --in cases.ndjson --out trace.ndjson [--dirs sim,ram,mmap] [--no-probe]");
        std::process::exit(2);
    }
    std::panic::set_hook(Box::new(|_| {}));
    let tracer = Tracer::to_file(&a.get("out", "/dev/stdout"));
    let dirs: Vec<String> = a.get("dirs", "sim,ram,mmap").split(',').map(|s| s.to_string()).collect();
    let probe = !a.flag("no-probe");
    let f = std::fs::File::open(a.get("in", "")).expect("open --in");
    for line in std::io::BufReader::new(f).lines() {
        let line = line.unwrap();
        if line.trim().is_empty() {
            continue;
        }
        let case: Value = serde_json::from_str(&line).expect("case json");
        for k in &dirs {
            run_case(&tracer, k, &case, probe);
        }
    }
    tracer.flush();
}
