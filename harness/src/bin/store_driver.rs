//! C09 driver: stored documents.  Executes cases (layouts enumerated by TLC, or seeded random
//! documents) on a real index with the given doc-store settings, reads every document back
//! through StoreReader::get / Searcher::doc / StoreReader::iter before and after deletes and a
//! merge, and records inputs and outputs in one canonical rendering.  spec/StoreTrace.tla judges.
//!   store_driver run --in cases.ndjson --out trace.ndjson
//! case: {"id":n,"cfg":{"blocksize":B,"comp":"none"|"lz4","thread":bool,"cache":c},
//!        "segs":[[spec,...],...], "deletes":[id,...], "merge":bool,
//!        "access":"fwd"|"rev"|"alt"|"rand"|"twice", "seed":s}
//! spec: {"pad":n} (a document whose serialised size is controlled by n) | {"rich":seed}
use rand::prelude::*;
use serde_json::{json, Value};
use std::collections::BTreeMap;
use std::io::BufRead;
use std::net::Ipv6Addr;
use std::panic::{catch_unwind, AssertUnwindSafe};
use tantivy::indexer::NoMergePolicy;
use tantivy::schema::*;
use tantivy::store::Compressor;
use tantivy::tokenizer::{PreTokenizedString, Token};
use tantivy::{DateTime, DocAddress, Index, IndexSettings, IndexWriter, TantivyDocument, Term};
use vh::trace::Tracer;
use vh::Args;

fn hex(b: &[u8]) -> String {
    b.iter().map(|x| format!("{x:02x}")).collect()
}

/// values of this many bytes or more are logged as (length, 64-bit FNV-1a hash, first and last 16 bytes): the
/// same function renders what is written and what is read back
const LONG: usize = 4096;
fn long(t: &str, b: &[u8]) -> Value {
    let mut h: u64 = 0xcbf29ce484222325;
    for x in b {
        h ^= *x as u64;
        h = h.wrapping_mul(0x100000001b3);
    }
    json!({"t":t,"len":b.len(),"h":format!("{h:016x}"),"head":hex(&b[..16.min(b.len())]),"tail":hex(&b[b.len().saturating_sub(16)..])})
}

/// canonical rendering of a value: uniform records {"t":type,"v":...}; numbers as strings
fn render(v: &OwnedValue) -> Value {
    match v {
        OwnedValue::Null => json!({"t":"null","v":""}),
        OwnedValue::Str(s) if s.len() >= LONG => long("str", s.as_bytes()),
        OwnedValue::Str(s) => json!({"t":"str","v":s}),
        OwnedValue::PreTokStr(p) => json!({"t":"pretok","v":p.text,
            "toks":p.tokens.iter().map(|t| json!([t.offset_from, t.offset_to, t.position, t.text, t.position_length])).collect::<Vec<_>>()}),
        OwnedValue::U64(x) => json!({"t":"u64","v":x.to_string()}),
        OwnedValue::I64(x) => json!({"t":"i64","v":x.to_string()}),
        OwnedValue::F64(x) => json!({"t":"f64","v":format!("{:016x}", x.to_bits())}),
        OwnedValue::Bool(x) => json!({"t":"bool","v":x.to_string()}),
        OwnedValue::Date(d) => json!({"t":"date","v":d.into_timestamp_nanos().to_string()}),
        OwnedValue::Facet(f) => json!({"t":"facet","v":f.to_path_string()}),
        OwnedValue::Bytes(b) if b.len() >= LONG => long("bytes", b),
        OwnedValue::Bytes(b) => json!({"t":"bytes","v":hex(b)}),
        OwnedValue::IpAddr(a) => json!({"t":"ip","v":format!("{:032x}", u128::from(*a))}),
        OwnedValue::Array(a) => json!({"t":"arr","v":a.iter().map(render).collect::<Vec<_>>()}),
        OwnedValue::Object(o) => {
            // an object is the SEQUENCE of its entries (keys in the order added, duplicates kept)
            json!({"t":"obj","v":o.iter().map(|(k, x)| json!([k, render(x)])).collect::<Vec<Value>>(),"n":o.len()})
        }
    }
}

/// a document as field name -> rendered values in order
fn render_doc(schema: &Schema, d: &TantivyDocument) -> Value {
    let mut m: BTreeMap<String, Vec<Value>> = BTreeMap::new();
    for (f, v) in d.field_values() {
        let ov: OwnedValue = v.into();
        m.entry(schema.get_field_name(f).to_string()).or_default().push(render(&ov));
    }
    json!(m)
}

struct Fields {
    schema: Schema,
    id: Field,
}

fn build_schema() -> Fields {
    let mut sb = Schema::builder();
    let id = sb.add_u64_field("id", STORED | FAST | INDEXED);
    sb.add_text_field("pad", STORED);
    sb.add_text_field("t", TEXT | STORED);
    sb.add_text_field("ns", TEXT); // not stored
    sb.add_u64_field("nu", FAST); // not stored
    sb.add_u64_field("u", STORED | FAST);
    sb.add_i64_field("i", STORED);
    sb.add_f64_field("f", STORED);
    sb.add_bool_field("b", STORED);
    sb.add_date_field("d", STORED | INDEXED);
    sb.add_bytes_field("y", STORED);
    sb.add_ip_addr_field("ip", STORED);
    sb.add_facet_field("fa", FacetOptions::default().set_stored());
    sb.add_json_field("j", STORED);
    sb.add_json_field("jt", STORED | TEXT);
    sb.add_text_field("pt", TEXT | STORED);
    Fields { schema: sb.build(), id }
}

const WORDS: &[&str] = &["", "a", "ab", "é", "日本語", "😀", "x\u{0}y", "  sp ace ", "\"q\"", "\\", "línea\nnueva", "\u{7f}", "\u{10ffff}", "ß"];

fn rstring(rng: &mut StdRng) -> String {
    match rng.random_range(0..10) {
        0..=5 => WORDS[rng.random_range(0..WORDS.len())].to_string(),
        6..=7 => (0..rng.random_range(1..6)).map(|_| WORDS[rng.random_range(0..WORDS.len())]).collect::<Vec<_>>().join(" "),
        8 => "w".repeat(rng.random_range(100..400)),
        _ => (0..rng.random_range(1..40)).map(|_| char::from_u32(rng.random_range(0x20..0x2fff)).unwrap_or('?')).collect(),
    }
}
fn ru64(rng: &mut StdRng) -> u64 {
    *[0u64, 1, 127, 128, 255, 256, 65535, 1 << 31, (1 << 32) - 1, 1 << 32, 1 << 63, u64::MAX - 1, u64::MAX, rng.random()].choose(rng).unwrap()
}
fn ri64(rng: &mut StdRng) -> i64 {
    *[0i64, 1, -1, 127, -128, i64::MIN, i64::MAX, i64::MIN + 1, 1 << 40, -(1 << 40), rng.random()].choose(rng).unwrap()
}
fn rf64(rng: &mut StdRng) -> f64 {
    *[0.0f64, -0.0, 1.5, -1.5, f64::INFINITY, f64::NEG_INFINITY, f64::MIN_POSITIVE, f64::MAX, f64::MIN, 1e-310, f64::EPSILON, rng.random::<f64>() * 1e6].choose(rng).unwrap()
}

fn rjson(rng: &mut StdRng, depth: u32, native: bool) -> OwnedValue {
    let k = if depth == 0 { rng.random_range(0..6) } else { rng.random_range(0..9) };
    match k {
        0 => OwnedValue::Str(rstring(rng)),
        1 => OwnedValue::U64(ru64(rng)),
        2 => OwnedValue::I64(ri64(rng)),
        3 => OwnedValue::F64(rf64(rng)),
        4 => OwnedValue::Bool(rng.random()),
        5 => {
            if native {
                OwnedValue::Null
            } else {
                [OwnedValue::Null, OwnedValue::Date(DateTime::from_timestamp_nanos(ri64(rng))), OwnedValue::Bytes(vec![0, 255, 7]),
                  OwnedValue::IpAddr(Ipv6Addr::from(rng.random::<u128>()))].choose(rng).unwrap().clone()
            }
        }
        6 => OwnedValue::Array((0..rng.random_range(0..4)).map(|_| rjson(rng, depth - 1, native)).collect()),
        _ => robject(rng, depth - 1, native),
    }
}
fn robject(rng: &mut StdRng, depth: u32, native: bool) -> OwnedValue {
    let n = rng.random_range(0..4);
    let mut keys: Vec<String> = vec![];
    let mut out = vec![];
    for i in 0..n {
        let k = *["a", "b", "k.dot", "ключ", "", "k k", "z"].choose(rng).unwrap();
        // (keys in any order; now and then the same key twice)
        let k = if keys.iter().any(|x| x == k) && rng.random_bool(0.7) { format!("{k}{i}") } else { k.to_string() };
        keys.push(k.clone());
        out.push((k, rjson(rng, depth, native)));
    }
    OwnedValue::Object(out)
}

/// a rich document: (field name, value) pairs in the order they are added
fn rich_doc(seed: u64) -> Vec<(String, OwnedValue)> {
    let mut rng = StdRng::seed_from_u64(seed);
    let rng = &mut rng;
    let mut v: Vec<(String, OwnedValue)> = vec![];
    let multi = |rng: &mut StdRng| *[0usize, 0, 1, 1, 1, 2, 3].choose(rng).unwrap();
    for _ in 0..multi(rng) {
        v.push(("t".into(), OwnedValue::Str(rstring(rng))));
    }
    if rng.random_bool(0.5) {
        v.push(("ns".into(), OwnedValue::Str(rstring(rng))));
    }
    if rng.random_bool(0.5) {
        v.push(("nu".into(), OwnedValue::U64(ru64(rng))));
    }
    for _ in 0..multi(rng) {
        v.push(("u".into(), OwnedValue::U64(ru64(rng))));
    }
    for _ in 0..multi(rng) {
        v.push(("i".into(), OwnedValue::I64(ri64(rng))));
    }
    for _ in 0..multi(rng) {
        v.push(("f".into(), OwnedValue::F64(rf64(rng))));
    }
    for _ in 0..multi(rng) {
        v.push(("b".into(), OwnedValue::Bool(rng.random())));
    }
    for _ in 0..multi(rng) {
        v.push(("d".into(), OwnedValue::Date(DateTime::from_timestamp_nanos(ri64(rng)))));
    }
    for _ in 0..multi(rng) {
        let n = *[0usize, 1, 3, 40, 300].choose(rng).unwrap();
        v.push(("y".into(), OwnedValue::Bytes((0..n).map(|_| rng.random()).collect())));
    }
    for _ in 0..multi(rng) {
        let a = match rng.random_range(0..4) {
            0 => Ipv6Addr::from(0u128),
            1 => std::net::Ipv4Addr::new(rng.random(), rng.random(), 0, 1).to_ipv6_mapped(),
            2 => Ipv6Addr::from(u128::MAX),
            _ => Ipv6Addr::from(rng.random::<u128>()),
        };
        v.push(("ip".into(), OwnedValue::IpAddr(a)));
    }
    for _ in 0..multi(rng) {
        let segs: Vec<&str> = (0..rng.random_range(0..4)).map(|_| *["a", "b b", "é", "x/y", "0"].choose(rng).unwrap()).collect();
        v.push(("fa".into(), OwnedValue::Facet(Facet::from_path(segs))));
    }
    for _ in 0..multi(rng) {
        v.push(("j".into(), robject(rng, 3, false)));
    }
    if rng.random_bool(0.4) {
        v.push(("jt".into(), robject(rng, 2, true)));
    }
    if rng.random_bool(0.4) {
        let words: Vec<String> = (0..rng.random_range(0..5)).map(|i| format!("p{i}")).collect();
        let text = words.join(" ");
        let mut off = 0;
        let tokens = words.iter().enumerate().map(|(i, w)| {
            let t = Token { offset_from: off, offset_to: off + w.len(), position: i, text: w.clone(), position_length: 1 };
            off += w.len() + 1;
            t
        }).collect();
        v.push(("pt".into(), OwnedValue::PreTokStr(PreTokenizedString { text, tokens })));
    }
    if rng.random_bool(0.05) {
        v.push(("pad".into(), OwnedValue::Str("Z".repeat(rng.random_range(3000..9000)))));
    }
    // the order in which fields are added is shuffled (values of one field keep their order)
    let mut order: Vec<(u8, usize)> = (0..v.len()).map(|i| (rng.random_range(0..3u8), i)).collect();
    order.sort();
    order.into_iter().map(|(_, i)| v[i].clone()).collect()
}

fn doc_of(spec: &Value, id: u64) -> Vec<(String, OwnedValue)> {
    let mut v = vec![("id".to_string(), OwnedValue::U64(id))];
    if let Some(n) = spec.get("pad").and_then(|x| x.as_u64()) {
        // "q" is never a long run of one byte pair, so lz4 does not make sizes irrelevant
        let s: String = (0..n as usize).map(|i| (b'a' + ((i * 7 + (i / 13) + id as usize) % 26) as u8) as char).collect();
        v.push(("pad".to_string(), OwnedValue::Str(s)));
    } else if let Some(s) = spec.get("rich").and_then(|x| x.as_u64()) {
        v.extend(rich_doc(s));
    } else if let Some(m) = spec.get("many") {
        // n values, the multi-valued stored fields t, u, i, f, b taken in turn (every value distinct or nearly so)
        let (n, nf) = (m["n"].as_u64().unwrap() as usize, m["nfields"].as_u64().unwrap_or(3) as usize);
        for k in 0..n {
            v.push(match (k * 7 + k / 5) % nf {
                0 => ("t".to_string(), OwnedValue::Str(format!("v{k}"))),
                1 => ("u".to_string(), OwnedValue::U64(1000 + k as u64)),
                2 => ("i".to_string(), OwnedValue::I64(-(k as i64))),
                3 => ("f".to_string(), OwnedValue::F64(k as f64 / 4.0)),
                _ => ("b".to_string(), OwnedValue::Bool(k % 3 == 0)),
            });
        }
    } else if let Some(b) = spec.get("big") {
        // one value of exactly `len` bytes derived from a small seed: text, bytes, or a string leaf of a JSON object
        let len = b["len"].as_u64().unwrap() as usize;
        let mut x = b["seed"].as_u64().unwrap_or(1).wrapping_mul(0x9E3779B97F4A7C15) | 1;
        let mut next = || {
            x ^= x << 13;
            x ^= x >> 7;
            x ^= x << 17;
            x
        };
        match b["kind"].as_str().unwrap() {
            "bytes" => v.push(("y".to_string(), OwnedValue::Bytes((0..len).map(|_| next() as u8).collect()))),
            k => {
                let s: String = (0..len).map(|_| (b' ' + (next() % 95) as u8) as char).collect();
                if k == "text" {
                    v.push(("pad".to_string(), OwnedValue::Str(s)));
                } else {
                    v.push(("j".to_string(), OwnedValue::Object(vec![("k".to_string(), OwnedValue::Str(s))])));
                }
            }
        }
    }
    v
}

fn errclass(e: &tantivy::TantivyError) -> String {
    let s = format!("{e:?}");
    s.chars().take(160).collect()
}

struct Run<'a> {
    tracer: &'a Tracer,
    f: &'a Fields,
    index: Index,
    cache: usize,
    access: String,
    rng: StdRng,
}

impl<'a> Run<'a> {
    fn observe(&mut self, phase: &str) {
        let reader: tantivy::IndexReader = self
            .index
            .reader_builder()
            .reload_policy(tantivy::ReloadPolicy::Manual)
            .doc_store_cache_num_blocks(self.cache)
            .try_into()
            .expect("reader");
        let searcher = reader.searcher();
        let mut nseg = 0;
        for (ord, sr) in searcher.segment_readers().iter().enumerate() {
            nseg += 1;
            let idcol = sr.fast_fields().u64("id").expect("id column");
            let alive: Vec<u32> = sr.doc_ids_alive().collect();
            let ids: Vec<u64> = alive.iter().map(|d| idcol.first(*d).unwrap_or(0)).collect();
            let store = sr.get_store_reader(self.cache).expect("store reader");
            // access order over positions of `alive`
            let n = alive.len();
            let mut order: Vec<usize> = match self.access.as_str() {
                "fwd" => (0..n).collect(),
                "rev" => (0..n).rev().collect(),
                "alt" => (0..n).map(|i| if i % 2 == 0 { i / 2 } else { n - 1 - i / 2 }).collect(),
                "twice" => (0..n).flat_map(|i| [i, i]).collect(),
                _ => {
                    let mut v: Vec<usize> = (0..n).collect();
                    v.extend((0..n / 2).map(|_| self.rng.random_range(0..n)));
                    v.shuffle(&mut self.rng);
                    v
                }
            };
            order.truncate(3000);
            let mut gets = vec![];
            for (gi, &k) in order.iter().enumerate() {
                let d = alive[k];
                let via_searcher = gi % 3 == 2;
                let r = catch_unwind(AssertUnwindSafe(|| {
                    if via_searcher {
                        searcher.doc::<TantivyDocument>(DocAddress::new(ord as u32, d))
                    } else {
                        store.get::<TantivyDocument>(d)
                    }
                }));
                match r {
                    Ok(Ok(doc)) => {
                        // the same document through to_named_doc (per field the values in order) and through to_json (the
                        // string values of field t as the JSON text gives them)
                        use tantivy::schema::document::Document as _;
                        let named: BTreeMap<String, Vec<Value>> = doc.to_named_doc(&self.f.schema).0.iter().map(|(k, vs)| (k.clone(), vs.iter().map(render).collect())).collect();
                        let js: Value = serde_json::from_str(&doc.to_json(&self.f.schema)).unwrap_or(Value::Null);
                        let jt: Vec<Value> = js.get("t").and_then(|x| x.as_array()).cloned().unwrap_or_default();
                        gets.push(json!([k + 1, d, render_doc(&self.f.schema, &doc), named, jt]))
                    }
                    Ok(Err(e)) => gets.push(json!([k + 1, d, {"error": errclass(&e)}])),
                    Err(_) => {
                        self.tracer.emit(json!({"ev":"panic","in":"get","doc":d,"phase":phase}));
                    }
                }
            }
            let iter: Vec<Value> = match catch_unwind(AssertUnwindSafe(|| {
                store.iter::<TantivyDocument>(sr.alive_bitset()).map(|r| match r {
                    Ok(doc) => render_doc(&self.f.schema, &doc),
                    Err(e) => json!({"error": errclass(&e)}),
                }).collect::<Vec<Value>>()
            })) {
                Ok(v) => v,
                Err(_) => {
                    self.tracer.emit(json!({"ev":"panic","in":"iter","phase":phase}));
                    vec![]
                }
            };
            // serialised sizes of all documents of the segment (deleted ones included) and the
            // size of the data part: lets the judge compare the layout with Store!Cut (informative)
            let sizes: Vec<usize> = match catch_unwind(AssertUnwindSafe(|| {
                (0..sr.max_doc()).map(|d| store.get_document_bytes(d).map(|b| b.len()).unwrap_or(0)).collect::<Vec<usize>>()
            })) {
                Ok(v) => v,
                Err(_) => {
                    self.tracer.emit(json!({"ev":"panic","in":"get_document_bytes","phase":phase}));
                    vec![]
                }
            };
            let oob = match catch_unwind(AssertUnwindSafe(|| store.get::<TantivyDocument>(sr.max_doc()))) {
                Ok(Ok(_)) => "ok",
                Ok(Err(_)) => "err",
                Err(_) => "panic",
            };
            self.tracer.emit(json!({"ev":"seg","phase":phase,"seg":ord,"max_doc":sr.max_doc(),"alive":alive,"ids":ids,
                "gets":gets,"iter":iter,"sizes":sizes,"data_bytes":store.space_usage().data_usage().get_bytes(),"oob":oob}));
        }
        self.tracer.emit(json!({"ev":"phase_end","phase":phase,"nsegs":nseg}));
    }
}

fn run_case(tracer: &Tracer, f: &Fields, case: &Value) {
    let cfg = &case["cfg"];
    let settings = IndexSettings {
        docstore_blocksize: cfg["blocksize"].as_u64().unwrap_or(16384) as usize,
        docstore_compression: if cfg["comp"].as_str() == Some("none") { Compressor::None } else { Compressor::Lz4 },
        docstore_compress_dedicated_thread: cfg["thread"].as_bool().unwrap_or(true),
        ..Default::default()
    };
    let mut index = Index::builder().schema(f.schema.clone()).settings(settings).create_in_ram().expect("index");
    let mut w: IndexWriter = index.writer_with_num_threads(1, 20_000_000).expect("writer");
    w.set_merge_policy(Box::new(NoMergePolicy));
    let mut id = 0u64;
    let mut rendered = vec![];
    let stored: Vec<Value> = f.schema.fields().map(|(_, e)| json!({"name":e.name(),"stored":e.is_stored()})).collect();
    let mut docs_per_seg = vec![];
    let mut big = vec![];
    // `seg_comp`: the compressor of the index while each segment is written (the codec changes during the life of
    // the index); `created`: the segments in the order of their creation (one per commit)
    let mut comp_cur = cfg["comp"].as_str().unwrap_or("lz4").to_string();
    let mut created: Vec<tantivy::index::SegmentId> = vec![];
    for (si, seg) in case["segs"].as_array().unwrap().iter().enumerate() {
        if let Some(c) = case.get("seg_comp").and_then(|x| x.get(si)).and_then(|x| x.as_str()) {
            if c != comp_cur {
                let _ = w.wait_merging_threads();
                index.settings_mut().docstore_compression = if c == "none" { Compressor::None } else { Compressor::Lz4 };
                w = index.writer_with_num_threads(1, 20_000_000).expect("writer");
                w.set_merge_policy(Box::new(NoMergePolicy));
                comp_cur = c.to_string();
            }
        }
        let specs = seg.as_array().unwrap();
        docs_per_seg.push(specs.len());
        for spec in specs {
            id += 1;
            if let Some(b) = spec.get("big") {
                let field = match b["kind"].as_str().unwrap() { "text" => "pad", "bytes" => "y", _ => "j" };
                big.push(json!([id, field, b["len"]]));
            }
            let fv = doc_of(spec, id);
            // the input, rendered before the document is built
            let mut m: BTreeMap<String, Vec<Value>> = BTreeMap::new();
            for (name, v) in &fv {
                m.entry(name.clone()).or_default().push(render(v));
            }
            rendered.push(json!(m));
            let mut d = TantivyDocument::default();
            for (name, v) in &fv {
                d.add_field_value(f.schema.get_field(name).unwrap(), v);
            }
            if let Err(e) = w.add_document(d) {
                tracer.emit(json!({"ev":"add_error","id":id,"msg":errclass(&e)}));
            }
        }
        w.commit().expect("commit");
        for sid in index.searchable_segment_ids().unwrap_or_default() {
            if !created.contains(&sid) {
                created.push(sid);
            }
        }
    }
    tracer.emit(json!({"ev":"store","case":case["id"],"cfg":cfg,"schema":stored,"docs":rendered,"docs_per_seg":docs_per_seg,"big":if big.is_empty() { Value::Null } else { json!(big) }}));
    let mut run = Run { tracer, f, index: index.clone(), cache: cfg["cache"].as_u64().unwrap_or(100) as usize,
        access: case["access"].as_str().unwrap_or("fwd").to_string(), rng: StdRng::seed_from_u64(case["seed"].as_u64().unwrap_or(1)) };
    run.observe("commit");
    let dels: Vec<u64> = case["deletes"].as_array().map(|a| a.iter().filter_map(|x| x.as_u64()).collect()).unwrap_or_default();
    if !dels.is_empty() {
        for d in &dels {
            w.delete_term(Term::from_field_u64(f.id, *d));
        }
        w.commit().expect("commit");
        tracer.emit(json!({"ev":"deleted","ids":dels}));
        run.observe("delete");
    }
    if let Some(fids) = case.get("filter_ids").and_then(|x| x.as_array()) {
        // a FILTERED merge (merge_filtered_segments, the split / demux API): the caller removes documents by an
        // alive bitset per source segment; the ids to remove come with the case, `filter_none` asks for no
        // bitset at all (None) for sources from which nothing is removed.  The result is a new index.
        let remove: std::collections::HashSet<u64> = fids.iter().filter_map(|x| x.as_u64()).collect();
        let pass_none = case["filter_none"].as_bool().unwrap_or(true);
        let _ = w.wait_merging_threads();
        let r = catch_unwind(AssertUnwindSafe(|| -> tantivy::Result<(Index, Vec<u64>, Vec<Value>)> {
            let mut segs: Vec<(u64, tantivy::Segment, Option<tantivy::fastfield::AliveBitSet>, Value)> = vec![];
            let mut removed = vec![];
            for seg in index.searchable_segments()? {
                let sr = tantivy::SegmentReader::open(&seg)?;
                let idcol = sr.fast_fields().u64("id")?;
                let mut bs = tantivy_common::BitSet::with_max_value_and_full(sr.max_doc());
                let mut n = 0;
                let mut first = u64::MAX;
                for d in 0..sr.max_doc() {
                    let id = idcol.first(d).unwrap_or(0);
                    first = first.min(id);
                    if remove.contains(&id) {
                        bs.remove(d);
                        n += 1;
                        if !sr.is_deleted(d) {
                            removed.push(id);
                        }
                    }
                }
                let filter = if n == 0 && pass_none {
                    None
                } else {
                    let mut buf = vec![];
                    tantivy::fastfield::write_alive_bitset(&bs, &mut buf)?;
                    Some(tantivy::fastfield::AliveBitSet::open(tantivy_common::OwnedBytes::new(buf)))
                };
                segs.push((first, seg, filter, json!({"max_doc":sr.max_doc(),"own_deletes":sr.num_deleted_docs(),"removed_by_filter":n,"bitset":n != 0 || !pass_none})));
            }
            segs.sort_by_key(|x| x.0);      // in the order of creation
            let info: Vec<Value> = segs.iter().map(|x| x.3.clone()).collect();
            let segments: Vec<tantivy::Segment> = segs.iter().map(|x| x.1.clone()).collect();
            let filters: Vec<Option<tantivy::fastfield::AliveBitSet>> = segs.into_iter().map(|x| x.2).collect();
            let merged = tantivy::indexer::merge_filtered_segments(&segments, index.settings().clone(), filters, tantivy::directory::RamDirectory::create())?;
            Ok((merged, removed, info))
        }));
        match r {
            Ok(Ok((merged, removed, info))) => {
                tracer.emit(json!({"ev":"deleted","ids":removed,"by":"filter","sources":info}));
                tracer.emit(json!({"ev":"merged","ok":true,"n":info.len(),"comp":cfg["comp"],"filtered":true}));
                run.index = merged;
                run.observe("merge");
            }
            Ok(Err(e)) => {
                tracer.emit(json!({"ev":"merged","ok":false,"msg":errclass(&e),"filtered":true}));
            }
            Err(_) => {
                tracer.emit(json!({"ev":"panic","in":"merge_filtered_segments","phase":"merge"}));
            }
        }
        tracer.emit(json!({"ev":"end"}));
        return;
    }
    if case["merge"].as_bool().unwrap_or(false) {
        // optionally the docstore compressor of the index is changed before the merge (the older
        // segments keep their codec): a new writer is created on the index with the new settings
        let mut comp_now = comp_cur.clone();
        if let Some(mc) = case.get("merge_comp").and_then(|x| x.as_str()).filter(|mc| *mc != comp_cur) {
            let _ = w.wait_merging_threads();
            index.settings_mut().docstore_compression = if mc == "none" { Compressor::None } else { Compressor::Lz4 };
            w = index.writer_with_num_threads(1, 20_000_000).expect("writer");
            w.set_merge_policy(Box::new(NoMergePolicy));
            run.index = index.clone();
            comp_now = mc.to_string();
        }
        let mut ids = index.searchable_segment_ids().unwrap();
        // `merge_order`: the sources in this order (indices of the segments in creation order); otherwise the order of meta.json
        if let Some(mo) = case.get("merge_order").and_then(|x| x.as_array()) {
            let want: Vec<tantivy::index::SegmentId> = mo.iter().filter_map(|x| x.as_u64()).filter_map(|i| created.get(i as usize).cloned()).filter(|sid| ids.contains(sid)).collect();
            if want.len() == ids.len() {
                ids = want;
            }
        }
        if !ids.is_empty() {
            let r = w.merge(&ids).wait();
            tracer.emit(json!({"ev":"merged","ok":r.is_ok(),"n":ids.len(),"comp":comp_now}));
            run.observe("merge");
        }
    }
    let _ = w.wait_merging_threads();
    tracer.emit(json!({"ev":"end"}));
}

fn main() {
    let a = Args::parse();
    std::panic::set_hook(Box::new(|info| {
        let s = info.to_string();
        if s.contains("store_driver.rs") || std::env::var("VH_PANICS").is_ok() {
            eprintln!("{s}");
        }
    }));
    let tracer = Tracer::to_file(&a.get("out", "/dev/stdout"));
    let f = build_schema();
    let file = std::fs::File::open(a.get("in", "")).expect("open --in");
    for line in std::io::BufReader::new(file).lines() {
        let line = line.unwrap();
        if line.trim().is_empty() {
            continue;
        }
        let case: Value = serde_json::from_str(&line).expect("case json");
        tracer.emit(json!({"ev":"begin","case":case["id"]}));
        tracer.flush();
        run_case(&tracer, &f, &case);
        tracer.flush();
    }
    tracer.flush();
}
