//! C17 driver: indexes documents under `IndexSettings::sort_by_field` for every sort-key type
//! the code accepts (i64, u64, f64, date, str, bytes), both directions, with duplicates and
//! documents WITHOUT a value, deletes inside the transaction, commits and explicit merges, and
//! records per segment, in doc-id order, what every structure says about each document.
//! Nothing is judged here (spec/SortedIndexTrace.tla does).
//!   sorted_driver replay --in histories.ndjson --out trace.ndjson
//! A history line:
//!   {"cfg":{"type":"i64","order":"asc","threads":1,"flush_after":2},
//!    "keys":["-9223372036854775808","-1","0","7"],          raw sort values, in sort order (rank = index)
//!    "ops":[{"op":"add","id":1,"t":"a","k":2},{"op":"add","id":2,"t":"b","k":-1},   k = rank, -1 = no value
//!           {"op":"del","pred":{"k":"term","t":"a"}},{"op":"del","pred":{"k":"id","id":2}},
//!           {"op":"commit"},{"op":"merge"},{"op":"merge","from":0,"n":2},{"op":"rollback"}]}
//! Sort values travel as ranks (order-preserving small integers) plus the raw value as a string.
//! Every document also carries a text field with positions (`body`) and, depending on `j`
//! (0 none, 1 all leaves, 2 text leaf only, 3 non-text leaves only; default derived from the id), an
//! indexed JSON object `js` = {name: text, n: i64, even: bool, d: date, f: f64}.  Per segment the
//! driver walks the term dictionary of EVERY indexed field (JSON paths included) and logs, for
//! each term, which documents (ids through the fast field) its posting list designates and at
//! which positions: `terms: [[term, [[id, [positions]], ...]], ...]`, term = "<field or path>:<value>".
use serde_json::{json, Value};
use std::collections::{BTreeMap, HashMap};
use std::io::BufRead;
use std::panic::{catch_unwind, AssertUnwindSafe};
use tantivy::collector::{Count, DocSetCollector};
use tantivy::directory::RamDirectory;
use tantivy::index::SegmentId;
use tantivy::indexer::NoMergePolicy;
use tantivy::query::{AllQuery, TermQuery};
use tantivy::schema::Value as TValue;
use tantivy::schema::*;
use tantivy::postings::Postings;
use tantivy::{DateTime, DocSet, Index, IndexSettings, IndexSortByField, IndexWriter, Order, ReloadPolicy, TantivyDocument, Term, TERMINATED};
use vh::trace::Tracer;
use vh::Args;

#[derive(Clone, Debug, PartialEq)]
enum Key {
    I(i64),
    U(u64),
    F(u64), // bit pattern (no NaN is ever sent)
    D(i64), // seconds
    S(String),
    B(Vec<u8>),
}

fn parse_key(ty: &str, raw: &str) -> Key {
    match ty {
        "i64" => Key::I(raw.parse().expect("i64")),
        "u64" => Key::U(raw.parse().expect("u64")),
        "f64" => Key::F(raw.parse::<f64>().expect("f64").to_bits()),
        "date" => Key::D(raw.parse().expect("date seconds")),
        "str" => Key::S(raw.to_string()),
        "bytes" => Key::B((0..raw.len() / 2).map(|i| u8::from_str_radix(&raw[2 * i..2 * i + 2], 16).expect("hex")).collect()),
        _ => panic!("unknown key type {ty}"),
    }
}

struct F {
    js: Field,
    id: Field,
    t: Field,
    u: Field,
    body: Field,
    fr: Field,
    k: Field,
}

fn schema(ty: &str) -> (Schema, F) {
    let mut sb = Schema::builder();
    let id = sb.add_u64_field("id", STORED | FAST | INDEXED);
    let t = sb.add_text_field("t", STRING | STORED);
    let u = sb.add_text_field("u", STRING);
    let body = sb.add_text_field("body", TEXT);
    // the same text indexed with frequencies but without positions: the three recorders of the indexer are
    // DocIdRecorder (t, u: Basic), TermFrequencyRecorder (fr: WithFreqs), TfAndPositionRecorder (body: positions)
    let fr = sb.add_text_field("fr", TextOptions::default().set_indexing_options(
        TextFieldIndexing::default().set_tokenizer("default").set_index_option(IndexRecordOption::WithFreqs)));
    let k = match ty {
        "i64" => sb.add_i64_field("k", STORED | FAST | INDEXED),
        "u64" => sb.add_u64_field("k", STORED | FAST),
        "f64" => sb.add_f64_field("k", STORED | FAST),
        "date" => sb.add_date_field("k", STORED | FAST),
        "str" => sb.add_text_field("k", STRING | STORED | FAST),
        "bytes" => sb.add_bytes_field("k", BytesOptions::default().set_fast().set_stored()),
        _ => panic!("unknown key type {ty}"),
    };
    let js = sb.add_json_field("js", TEXT);
    (sb.build(), F { js, id, t, u, body, fr, k })
}

fn errclass(e: &tantivy::TantivyError) -> String {
    let s = format!("{e:?}");
    s.chars().take(200).collect()
}

struct Run {
    ty: String,
    keys: Vec<Key>,
    raws: Vec<String>,
    ram: RamDirectory,
    index: Index,
    writer: Option<IndexWriter>,
    f: F,
    tracer: Tracer,
    threads: usize,
}

/// body = tf times "x" then (nb - tf) times "y": the field norm is nb, the frequency of x is tf
fn body_of(id: u64) -> (u32, u32, String) {
    let nb = 1 + (id % 5) as u32;
    let tf = (id % (nb as u64 + 1)) as u32;
    let mut s = vec![];
    for i in 0..nb {
        s.push(if i < tf { "x" } else { "y" });
    }
    (nb, tf, s.join(" "))
}

/// the JSON object of a document (None = the document has no `js`), and its leaves as logged in
/// the add event: name = token list, n = integer, even = bool, d = seconds, f = float as a string
fn js_of(id: u64, j: u64) -> Option<(BTreeMap<String, OwnedValue>, Value)> {
    if j == 0 {
        return None;
    }
    let mut m = BTreeMap::new();
    let mut ev = serde_json::Map::new();
    if j == 1 || j == 2 {
        let (a, b) = (format!("na{}", id % 3), format!("nb{}", id % 2));
        m.insert("name".to_string(), OwnedValue::Str(format!("{a} {b}")));
        ev.insert("name".into(), json!([a, b]));
    }
    if j == 1 || j == 3 {
        let n = (id % 4) as i64 - 1;
        let even = id % 2 == 0;
        let d = 1_700_000_000i64 + (id % 3) as i64 * 86_400;
        let f = (id % 3) as f64 + 0.5;
        m.insert("n".to_string(), OwnedValue::I64(n));
        m.insert("even".to_string(), OwnedValue::Bool(even));
        m.insert("d".to_string(), OwnedValue::Date(DateTime::from_timestamp_secs(d)));
        m.insert("f".to_string(), OwnedValue::F64(f));
        ev.insert("n".into(), json!(n));
        ev.insert("even".into(), json!(even));
        ev.insert("d".into(), json!(d));
        ev.insert("f".into(), json!(format!("{f}")));
    }
    Some((m, Value::Object(ev)))
}

fn default_j(id: u64) -> u64 {
    [1, 3, 1, 2, 0, 1, 3][(id % 7) as usize]
}

/// "<field or json path>:<value>" of one key of a term dictionary; None for a JSON text leaf =
/// false (no positions to read), Some(true) when the posting list carries positions
fn render_term(name: &str, typ: Type, key: &[u8], has_pos: bool) -> Result<(String, bool), String> {
    let fixed = |b: &[u8]| -> Result<u64, String> { b.try_into().map(u64::from_be_bytes).map_err(|_| format!("term of {name}: {} value bytes", b.len())) };
    let scalar = |typ: Type, b: &[u8]| -> Result<String, String> {
        Ok(match typ {
            Type::Str => String::from_utf8(b.to_vec()).map_err(|_| "non utf-8 term".to_string())?,
            Type::U64 => fixed(b)?.to_string(),
            Type::I64 => tantivy_common::u64_to_i64(fixed(b)?).to_string(),
            Type::F64 => format!("{}", tantivy_common::u64_to_f64(fixed(b)?)),
            Type::Bool => (fixed(b)? != 0).to_string(),
            Type::Date => DateTime::from_timestamp_nanos(tantivy_common::u64_to_i64(fixed(b)?)).into_timestamp_secs().to_string(),
            other => format!("?{other:?}"),
        })
    };
    if typ != Type::Json {
        return Ok((format!("{name}:{}", scalar(typ, key)?), has_pos));
    }
    let pos = key.iter().position(|b| *b == 0).ok_or_else(|| "json term without end of path".to_string())?;
    let path: String = String::from_utf8(key[..pos].to_vec()).map_err(|_| "non utf-8 path".to_string())?.replace('\u{1}', ".");
    let vb = ValueBytes::wrap(&key[pos + 1..]);
    let lt = vb.typ();
    Ok((format!("{name}.{path}:{}", scalar(lt, &key[pos + 2..])?), has_pos && lt == Type::Str))
}

impl Run {
    fn rank_of(&self, k: &Key) -> i64 {
        self.keys.iter().position(|x| x == k).map(|p| p as i64).unwrap_or(-2)
    }

    fn doc(&self, id: u64, t: &str, k: i64, k2: i64, j: u64) -> TantivyDocument {
        let mut d = TantivyDocument::default();
        if let Some((obj, _)) = js_of(id, j) {
            d.add_object(self.f.js, obj);
        }
        d.add_u64(self.f.id, id);
        d.add_text(self.f.t, t);
        d.add_text(self.f.u, format!("u{id}"));
        d.add_text(self.f.body, body_of(id).2);
        d.add_text(self.f.fr, body_of(id).2);
        // (k2 >= 0: a second value for the sort field - the column of the segment becomes multi-valued)
        for k in [k, k2] {
            if k < 0 {
                continue;
            }
            match &self.keys[k as usize] {
                Key::I(v) => d.add_i64(self.f.k, *v),
                Key::U(v) => d.add_u64(self.f.k, *v),
                Key::F(v) => d.add_f64(self.f.k, f64::from_bits(*v)),
                Key::D(v) => d.add_date(self.f.k, DateTime::from_timestamp_secs(*v)),
                Key::S(v) => d.add_text(self.f.k, v),
                Key::B(v) => d.add_bytes(self.f.k, v),
            }
        }
        d
    }

    fn open_writer(&mut self) -> Result<(), String> {
        match self.index.writer_with_num_threads::<TantivyDocument>(self.threads, 15_000_000 * self.threads) {
            Ok(w) => {
                w.set_merge_policy(Box::new(NoMergePolicy));
                self.writer = Some(w);
                Ok(())
            }
            Err(e) => Err(errclass(&e)),
        }
    }

    fn observe(&self) -> Value {
        match catch_unwind(AssertUnwindSafe(|| self.observe_inner())) {
            Ok(Ok(v)) => v,
            Ok(Err(e)) => json!({"ok":false,"err":e}),
            Err(_) => json!({"ok":false,"err":"panic"}),
        }
    }

    /// Everything is read through a fresh Index::open.  Per segment, per live document in doc-id
    /// order: [pos, id(stored), t(stored), key rank(stored), ids(fast), key ranks(fast),
    ///         field norm of body, live docs of the unique term u<id> in this segment, tf of x]
    fn observe_inner(&self) -> Result<Value, String> {
        let index = Index::open(self.ram.clone()).map_err(|e| format!("open: {}", errclass(&e)))?;
        let metas = index.load_metas().map_err(|e| format!("load_metas: {}", errclass(&e)))?;
        let reader = index.reader_builder().reload_policy(ReloadPolicy::Manual).try_into().map_err(|e: tantivy::TantivyError| format!("reader: {}", errclass(&e)))?;
        let s = reader.searcher();
        let mut segs = vec![];
        let mut n = 0u64;
        let mut terms: std::collections::BTreeSet<String> = ["a", "b", "c"].iter().map(|s| s.to_string()).collect();
        for sr in s.segment_readers() {
            let store = sr.get_store_reader(1).map_err(|e| format!("store: {e}"))?;
            let ff = sr.fast_fields();
            let idcol = ff.u64("id").map_err(|e| format!("fast id: {}", errclass(&e)))?;
            let norms = sr.get_fieldnorms_reader(self.f.body).map_err(|e| format!("norms: {}", errclass(&e)))?;
            // tf of "x" per document, from the postings
            let mut tfx: HashMap<u32, u32> = HashMap::new();
            let inv_body = sr.inverted_index(self.f.body).map_err(|e| format!("inv body: {}", errclass(&e)))?;
            if let Some(mut p) = inv_body.read_postings(&Term::from_field_text(self.f.body, "x"), IndexRecordOption::WithFreqs).map_err(|e| format!("postings x: {e}"))? {
                while p.doc() != TERMINATED {
                    tfx.insert(p.doc(), p.term_freq());
                    p.advance();
                }
            }
            let inv_u = sr.inverted_index(self.f.u).map_err(|e| format!("inv u: {}", errclass(&e)))?;
            // typed access to the sort column
            let fk: Box<dyn Fn(u32) -> Result<Vec<Key>, String>> = match self.ty.as_str() {
                "i64" => {
                    let c = ff.i64("k").map_err(|e| format!("fast k: {}", errclass(&e)))?;
                    Box::new(move |d| Ok(c.values_for_doc(d).map(Key::I).collect()))
                }
                "u64" => {
                    let c = ff.u64("k").map_err(|e| format!("fast k: {}", errclass(&e)))?;
                    Box::new(move |d| Ok(c.values_for_doc(d).map(Key::U).collect()))
                }
                "f64" => {
                    let c = ff.f64("k").map_err(|e| format!("fast k: {}", errclass(&e)))?;
                    Box::new(move |d| Ok(c.values_for_doc(d).map(|v| Key::F(v.to_bits())).collect()))
                }
                "date" => {
                    let c = ff.date("k").map_err(|e| format!("fast k: {}", errclass(&e)))?;
                    Box::new(move |d| Ok(c.values_for_doc(d).map(|v| Key::D(v.into_timestamp_secs())).collect()))
                }
                "str" => {
                    let c = ff.str("k").map_err(|e| format!("fast k: {}", errclass(&e)))?;
                    Box::new(move |d| {
                        let mut out = vec![];
                        if let Some(c) = &c {
                            for o in c.term_ords(d) {
                                let mut sbuf = String::new();
                                c.ord_to_str(o, &mut sbuf).map_err(|e| format!("ord_to_str: {e}"))?;
                                out.push(Key::S(sbuf));
                            }
                        }
                        Ok(out)
                    })
                }
                _ => {
                    let c = ff.bytes("k").map_err(|e| format!("fast k: {}", errclass(&e)))?;
                    Box::new(move |d| {
                        let mut out = vec![];
                        if let Some(c) = &c {
                            for o in c.term_ords(d) {
                                let mut b = vec![];
                                c.ord_to_bytes(o, &mut b).map_err(|e| format!("ord_to_bytes: {e}"))?;
                                out.push(Key::B(b));
                            }
                        }
                        Ok(out)
                    })
                }
            };
            let mut docs = vec![];
            for d in 0..sr.max_doc() {
                if sr.is_deleted(d) {
                    continue;
                }
                let doc: TantivyDocument = store.get(d).map_err(|e| format!("doc({d}): {}", errclass(&e)))?;
                let id = doc.get_first(self.f.id).and_then(|v| v.as_u64()).ok_or_else(|| "no id".to_string())?;
                let t = doc.get_first(self.f.t).and_then(|v| v.as_str().map(|s| s.to_string())).ok_or_else(|| "no t".to_string())?;
                let kst: i64 = match doc.get_first(self.f.k) {
                    None => -1,
                    Some(v) => {
                        let key = match self.ty.as_str() {
                            "i64" => v.as_i64().map(Key::I),
                            "u64" => v.as_u64().map(Key::U),
                            "f64" => v.as_f64().map(|x| Key::F(x.to_bits())),
                            "date" => v.as_datetime().map(|x| Key::D(x.into_timestamp_secs())),
                            "str" => v.as_str().map(|x| Key::S(x.to_string())),
                            _ => v.as_bytes().map(|x| Key::B(x.to_vec())),
                        };
                        key.map(|k| self.rank_of(&k)).unwrap_or(-3)
                    }
                };
                let fid: Vec<u64> = idcol.values_for_doc(d).collect();
                let fkr: Vec<i64> = fk(d)?.iter().map(|k| self.rank_of(k)).collect();
                let mut udocs: Vec<u32> = vec![];
                if let Some(mut p) = inv_u.read_postings(&Term::from_field_text(self.f.u, &format!("u{id}")), IndexRecordOption::Basic).map_err(|e| format!("postings u: {e}"))? {
                    while p.doc() != TERMINATED {
                        if !sr.is_deleted(p.doc()) {
                            udocs.push(p.doc());
                        }
                        p.advance();
                    }
                }
                terms.insert(t.clone());
                docs.push(json!([d, id, t, kst, fid, fkr, norms.fieldnorm(d), udocs, tfx.get(&d).cloned().unwrap_or(0)]));
                n += 1;
            }
            // every term of every indexed field: which documents, which positions
            let mut tdump = vec![];
            let schema = sr.schema().clone();
            for (field, entry) in schema.fields() {
                if !entry.is_indexed() {
                    continue;
                }
                let typ = entry.field_type().value_type();
                let has_pos = entry.field_type().get_index_record_option().map(|o| o.has_positions()).unwrap_or(false);
                // a field with frequencies but no positions: the frequency is logged in the place of the positions
                let freq_only = entry.field_type().get_index_record_option().map(|o| o.has_freq() && !o.has_positions()).unwrap_or(false) && typ == Type::Str;
                let inv = sr.inverted_index(field).map_err(|e| format!("inv {}: {}", entry.name(), errclass(&e)))?;
                let mut st = inv.terms().stream().map_err(|e| format!("stream {}: {e}", entry.name()))?;
                while st.advance() {
                    let (term, with_pos) = render_term(entry.name(), typ, st.key(), has_pos)?;
                    let opt = if with_pos { IndexRecordOption::WithFreqsAndPositions } else if freq_only { IndexRecordOption::WithFreqs } else { IndexRecordOption::Basic };
                    let mut p = inv.read_postings_from_terminfo(st.value(), opt).map_err(|e| format!("postings of {term}: {e}"))?;
                    let mut hits = vec![];
                    let mut posbuf: Vec<u32> = vec![];
                    while p.doc() != TERMINATED {
                        let d = p.doc();
                        if d >= sr.max_doc() {
                            hits.push(json!([-1, [d]]));
                        } else if !sr.is_deleted(d) {
                            posbuf.clear();
                            if with_pos {
                                p.positions(&mut posbuf);
                            } else if freq_only {
                                posbuf.push(p.term_freq());
                            }
                            let ids: Vec<u64> = idcol.values_for_doc(d).collect();
                            hits.push(json!([ids.first().map(|x| *x as i64).unwrap_or(-1), posbuf]));
                        }
                        p.advance();
                    }
                    if !hits.is_empty() {
                        tdump.push(json!([term, hits]));
                    }
                }
            }
            segs.push(json!({"sid": self.tracer.seg(&sr.segment_id().uuid_string()), "max_doc": sr.max_doc(), "ndel": sr.num_deleted_docs(), "docs": docs, "terms": tdump}));
        }
        let mut byterm = serde_json::Map::new();
        for t in terms {
            let q = TermQuery::new(Term::from_field_text(self.f.t, &t), IndexRecordOption::Basic);
            let addrs = s.search(&q, &DocSetCollector).map_err(|e| format!("search: {}", errclass(&e)))?;
            let mut ids = vec![];
            for a in addrs {
                let sr = s.segment_reader(a.segment_ord);
                let idcol = sr.fast_fields().u64("id").map_err(|e| format!("fast id: {}", errclass(&e)))?;
                ids.extend(idcol.values_for_doc(a.doc_id));
            }
            ids.sort();
            byterm.insert(t, json!(ids));
        }
        let all = s.search(&AllQuery, &Count).map_err(|e| format!("count: {}", errclass(&e)))?;
        Ok(json!({"ok":true,"segs":segs,"byterm":Value::Object(byterm),"n":n,"count_all":all,"metaop":metas.opstamp}))
    }

    fn exec(&mut self, op: &Value) {
        let name = op["op"].as_str().unwrap_or("?").to_string();
        let ev = match catch_unwind(AssertUnwindSafe(|| self.exec_inner(&name, op))) {
            Ok(v) => v,
            Err(_) => json!({"ev":"panic","op":name}),
        };
        self.tracer.emit(ev);
    }

    fn exec_inner(&mut self, name: &str, op: &Value) -> Value {
        if self.writer.is_none() {
            return json!({"ev":name,"ok":false,"err":"nowriter"});
        }
        match name {
            "add" => {
                let (id, t, k) = (op["id"].as_u64().unwrap(), op["t"].as_str().unwrap().to_string(), op["k"].as_i64().unwrap_or(-1));
                let j = op["j"].as_u64().unwrap_or_else(|| default_j(id));
                let k2 = if k >= 0 { op["k2"].as_i64().unwrap_or(-1) } else { -1 };
                let d = self.doc(id, &t, k, k2, j);
                let (nb, tf, body) = body_of(id);
                let toks: Vec<&str> = body.split(' ').collect();
                let js = js_of(id, j).map(|x| x.1);
                let raw = if k >= 0 { json!(self.raws[k as usize]) } else { json!("missing") };
                match self.writer.as_ref().unwrap().add_document(d) {
                    Ok(o) => json!({"ev":"add","ok":true,"id":id,"t":t,"v":k,"raw":raw,"nb":nb,"tf":tf,"toks":toks,"js":js,"opstamp":o,
                                    "v2":if k2 >= 0 { json!(k2) } else { Value::Null },"raw2":if k2 >= 0 { json!(self.raws[k2 as usize]) } else { Value::Null }}),
                    Err(e) => json!({"ev":"add","ok":false,"id":id,"err":errclass(&e)}),
                }
            }
            "del" => {
                let p = &op["pred"];
                let term = match p["k"].as_str().unwrap() {
                    "term" => Term::from_field_text(self.f.t, p["t"].as_str().unwrap()),
                    "id" => Term::from_field_u64(self.f.id, p["id"].as_u64().unwrap()),
                    k => panic!("unknown predicate {k}"),
                };
                let o = self.writer.as_ref().unwrap().delete_term(term);
                json!({"ev":"del","ok":true,"pred":p,"opstamp":o})
            }
            "commit" => match self.writer.as_mut().unwrap().commit() {
                Ok(o) => json!({"ev":"commit","ok":true,"opstamp":o,"obs":self.observe()}),
                Err(e) => json!({"ev":"commit","ok":false,"err":errclass(&e),"obs":self.observe()}),
            },
            "rollback" => match self.writer.as_mut().unwrap().rollback() {
                Ok(o) => {
                    self.writer.as_ref().unwrap().set_merge_policy(Box::new(NoMergePolicy));
                    json!({"ev":"rollback","ok":true,"opstamp":o,"obs":self.observe()})
                }
                Err(e) => json!({"ev":"rollback","ok":false,"err":errclass(&e),"obs":self.observe()}),
            },
            "merge" => {
                // the searchable segments in canonical order; optionally a window [from, from+n)
                let mut ids: Vec<SegmentId> = self.index.searchable_segment_ids().unwrap_or_default();
                ids.sort_by_key(|i| self.tracer.seg(&i.uuid_string()));
                if let (Some(from), Some(n)) = (op["from"].as_u64(), op["n"].as_u64()) {
                    let from = (from as usize).min(ids.len());
                    let to = (from + n as usize).min(ids.len());
                    ids = ids[from..to].to_vec();
                }
                let sids: Vec<usize> = ids.iter().map(|i| self.tracer.seg(&i.uuid_string())).collect();
                if ids.len() < 2 {
                    return json!({"ev":"merge","ok":false,"err":"nosegments","sids":sids});
                }
                match self.writer.as_mut().unwrap().merge(&ids).wait() {
                    Ok(m) => {
                        let res = m.map(|m| self.tracer.seg(&m.id().uuid_string()));
                        json!({"ev":"merge","ok":true,"sids":sids,"res":res,"obs":self.observe()})
                    }
                    Err(e) => json!({"ev":"merge","ok":false,"sids":sids,"err":errclass(&e),"obs":self.observe()}),
                }
            }
            other => json!({"ev":other,"ok":false,"err":"unknown op"}),
        }
    }
}

fn run_history(tracer: &Tracer, h: &Value, line: usize) {
    let cfg = &h["cfg"];
    let ty = cfg["type"].as_str().unwrap_or("i64").to_string();
    let order = cfg["order"].as_str().unwrap_or("asc").to_string();
    let threads = cfg["threads"].as_u64().unwrap_or(1) as usize;
    let flush_after = cfg["flush_after"].as_u64().unwrap_or(0) as u32;
    let raws: Vec<String> = h["keys"].as_array().map(|a| a.iter().map(|x| x.as_str().unwrap().to_string()).collect()).unwrap_or_default();
    let keys: Vec<Key> = raws.iter().map(|r| parse_key(&ty, r)).collect();
    tracer.reset_canon();
    tracer.emit(json!({"ev":"reset","cfg":{"type":ty,"order":order,"threads":threads,"flush_after":flush_after},"nkeys":keys.len(),"tag":h.get("tag").cloned().unwrap_or(json!(line))}));
    let (schema, f) = schema(&ty);
    let mut settings = IndexSettings::default();
    settings.sort_by_field = Some(IndexSortByField { field: "k".into(), order: if order == "asc" { Order::Asc } else { Order::Desc } });
    let ram = RamDirectory::create();
    let index = match Index::create(ram.clone(), schema, settings) {
        Ok(i) => i,
        Err(e) => {
            tracer.emit(json!({"ev":"create_failed","err":errclass(&e)}));
            return;
        }
    };
    tantivy::verif::set_flush_after_docs(flush_after);
    let mut run = Run { ty, keys, raws, ram, index, writer: None, f, tracer: tracer.clone(), threads };
    if let Err(e) = run.open_writer() {
        tracer.emit(json!({"ev":"writer_failed","err":e}));
        return;
    }
    for op in h["ops"].as_array().cloned().unwrap_or_default() {
        run.exec(&op);
    }
    run.exec(&json!({"op":"commit"}));
    if let Some(w) = run.writer.take() {
        let _ = catch_unwind(AssertUnwindSafe(move || w.wait_merging_threads()));
    }
    tracer.emit(json!({"ev":"end","obs":run.observe()}));
    tantivy::verif::set_flush_after_docs(0);
}

fn main() {
    let a = Args::parse();
    let mode = a.pos.get(0).cloned().unwrap_or_default();
    if mode != "replay" {
        eprintln!("usage: sorted_driver replay --in histories.ndjson --out trace.ndjson");
        std::process::exit(2);
    }
    std::panic::set_hook(Box::new(|_| {}));
    let tracer = Tracer::to_file(&a.get("out", "/dev/stdout"));
    let f = std::fs::File::open(a.get("in", "")).expect("open --in");
    for (i, line) in std::io::BufReader::new(f).lines().enumerate() {
        let line = line.unwrap();
        if line.trim().is_empty() {
            continue;
        }
        let h: Value = serde_json::from_str(&line).expect("history json");
        run_history(&tracer, &h, i);
    }
    tracer.flush();
}
