//! C11: fault enumeration.  A fixed set of workloads is first run fault-free to count the storage
//! operations n; then run again with operation k failing (once, or from k on), for the selected
//! k, with one of three policies after a failing call (keep using the writer / rollback /
//! drop + new writer).  At the end the fault is cleared, a new writer adds a probe document and
//! commits, and everything is read back.  Every call result is logged; TLC is the judge.
//!   fault_driver enum --seed S --out trace.ndjson --points N [--workload i] [--locks]
use rand::prelude::*;
use serde_json::{json, Value};
use vh::core::{install_sink, Cfg, World};
use vh::simdir::FaultPlan;
use vh::trace::Tracer;
use vh::Args;

fn workloads() -> Vec<(Cfg, Vec<Value>)> {
    let a = |i: u64, t: &str| json!({"op":"add","id":i,"t":t,"v":(i % 5) as i64});
    let d = |t: &str| json!({"op":"del","pred":{"k":"term","t":t}});
    let c = || json!({"op":"commit"});
    let mut out = vec![];
    let mut c1 = Cfg::default();
    c1.flush_after = 2;
    out.push((c1.clone(), vec![a(1, "a"), a(2, "b"), a(3, "a"), c(), d("a"), a(4, "c"), c(), json!({"op":"merge"}), a(5, "b"), a(6, "a"), c(), json!({"op":"gc"}), a(7, "c"), c()]));
    let mut c2 = Cfg::default();
    c2.threads = 2;
    c2.flush_after = 1;
    c2.merge = "any2".into();
    out.push((c2, vec![a(1, "a"), a(2, "b"), c(), a(3, "c"), d("b"), a(4, "b"), json!({"op":"prepare_commit","abort":false,"payload":"p1"}), a(5, "a"), json!({"op":"rollback"}), a(6, "c"), a(7, "a"), c(), d("c"), c()]));
    let mut c3 = Cfg::default();
    c3.flush_after = 3;
    c3.merge = "log".into();
    out.push((c3, vec![a(1, "a"), a(2, "a"), a(3, "b"), a(4, "c"), c(), json!({"op":"run","ops":[{"k":"del","t":"a"},{"k":"add","id":5,"t":"a","v":1}]}), c(), a(6, "b"), json!({"op":"drop_writer"}), json!({"op":"new_writer"}), a(7, "b"), d("b"), a(8, "b"), c(), json!({"op":"merge"}), c()]));
    // a merge whose own meta.json replacement may fail, a collection and a reload BEFORE the next commit
    let g = || json!({"op":"gc"});
    out.push((c1.clone(), vec![a(1, "a"), a(2, "b"), a(3, "a"), c(), d("a"), a(4, "c"), c(), d("b"), c(), g(), json!({"op":"merge"}), g(), a(5, "b"), g(), d("c"), c(), g(), a(6, "a"), c()]));
    // large stored documents in ONE segment with small doc-store blocks: the doc-store compressor thread
    // writes many blocks, most of them neither the first nor the last
    let mut c5 = Cfg::default();
    c5.blocksize = 2048;
    let big = |i: u64, t: &str| json!({"op":"add","id":i,"t":t,"v":(i % 5) as i64,"pad":700});
    // workload 5 below is pushed after this one (index 4 is referenced by the storeblocks mode)
    out.push((c5, vec![big(1, "a"), big(2, "b"), big(3, "c"), big(4, "a"), big(5, "b"), big(6, "c"), big(7, "a"), big(8, "b"), c(), big(9, "c"), big(10, "a"), big(11, "b"), d("a"), c()]));
    // writers taking turns between two Index instances (the second one opened before anything was written):
    // every new writer re-reads the managed list
    let sw = || vec![json!({"op":"wait_merges"}), json!({"op":"switch_index"}), json!({"op":"new_writer"})];
    let mut ops6 = vec![json!({"op":"open_second"}), a(1, "a"), a(2, "b"), c()];
    ops6.extend(sw());
    ops6.extend(vec![a(3, "a"), d("b"), c(), json!({"op":"merge"}), g()]);
    ops6.extend(sw());
    ops6.extend(vec![a(4, "c"), c(), json!({"op":"merge"}), g(), a(5, "b"), c()]);
    out.push((c1.clone(), ops6));
    out
}

/// run one workload under a fault plan; returns the number of storage operations counted
fn run_one(tracer: &Tracer, cfg: &Cfg, ops: &[Value], plan: Option<FaultPlan>, policy: &str, tag: Value, oplog: bool) -> (u64, Vec<(u64, &'static str, String)>) {
    tracer.reset_canon();
    tracer.emit(json!({"ev":"reset","cfg":cfg.to_json(),"tag":tag}));
    let mut w = World::new_quiet(tracer, cfg, false);
    install_sink(tracer, w.regs.clone(), None);
    let base = w.dir.opcount();
    if oplog {
        w.dir.st.lock().unwrap().oplog = Some(vec![]);
    }
    if let Some(p) = plan.clone() {
        let mut p = p;
        p.k += base;
        w.dir.set_fault(p);
    }
    let t0 = std::time::Instant::now();
    let r = std::panic::catch_unwind(std::panic::AssertUnwindSafe(|| {
        let ev = w.exec(&json!({"op":"new_writer"}));
        if ev["ok"] != json!(true) {
            // could not even open: wait for the heal phase
        }
        for op in ops {
            if w.writer.is_none() && op["op"] != "new_writer" && op["op"] != "switch_index" && op["op"] != "open_second" {
                let e = w.exec(&json!({"op":"new_writer"}));
                if e["ok"] != json!(true) {
                    continue;
                }
            }
            let ev = w.exec(op);
            if matches!(op["op"].as_str(), Some("commit") | Some("prepare_commit") | Some("merge") | Some("rollback") | Some("gc")) {
                w.exec(&json!({"op":"reload"}));
            }
            let failed = ev["ok"] == json!(false) && ev.get("err").map(|e| e != "nowriter").unwrap_or(true);
            if failed && op["op"] != "merge" && op["op"] != "gc" {
                match policy {
                    "keep" => {}
                    "rollback" => {
                        let e = w.exec(&json!({"op":"rollback"}));
                        if e["ok"] != json!(true) {
                            w.exec(&json!({"op":"drop_writer"}));
                        }
                    }
                    _ => {
                        w.exec(&json!({"op":"drop_writer"}));
                    }
                }
            }
        }
    }));
    if r.is_err() {
        tracer.emit(json!({"ev":"panic","where":"workload"}));
    }
    let ops_counted = w.dir.opcount() - base;
    let log: Vec<(u64, &'static str, String)> = w.dir.st.lock().unwrap().oplog.take().unwrap_or_default().into_iter().map(|(k, o, c)| (k - base, o, c)).collect();
    let fired = w.dir.st.lock().unwrap().faults_fired;
    // heal: the storage works again; drop whatever writer is left, open a new one, probe
    w.dir.set_fault(FaultPlan::default());
    let r2 = std::panic::catch_unwind(std::panic::AssertUnwindSafe(|| {
        if w.writer.is_some() {
            w.exec(&json!({"op":"drop_writer"}));
        }
        tracer.emit(json!({"ev":"heal","fired":fired}));
        w.exec(&json!({"op":"new_writer"}));
        w.exec(&json!({"op":"add","id":9000,"t":"zz","v":0}));
        w.exec(&json!({"op":"commit"}));
        w.exec(&json!({"op":"wait_merges"}));
        w.exec(&json!({"op":"new_writer"}));
        for round in 0..25 {
            let ev = w.exec(&json!({"op":"gc"}));
            let deleted = ev["deleted"].as_array().map(|a| a.len()).unwrap_or(0);
            let mut wanted: Vec<String> = vec![];
            if let Ok(metas) = w.index.searchable_segment_metas() {
                for m in metas {
                    for f in m.list_files() {
                        wanted.push(w.tracer.path(&f));
                    }
                }
            }
            let extra = w.dir.listing().iter().filter(|p| !wanted.contains(p)).count();
            if (deleted == 0 && extra == 0) || round >= 24 {
                break;
            }
            std::thread::sleep(std::time::Duration::from_millis(if round < 3 { 15 } else { 100 }));
        }
        w.exec(&json!({"op":"wait_merges"}));
        w.exec(&json!({"op":"reload"}));
        w.exec(&json!({"op":"observe"}));
    }));
    if r2.is_err() {
        tracer.emit(json!({"ev":"panic","where":"heal"}));
    }
    tantivy::verif::set_sink(None);
    let ms = t0.elapsed().as_millis() as u64;
    if ms > 8000 {
        tracer.emit(json!({"ev":"hang","ms":ms}));
    }
    tracer.emit(json!({"ev":"end","listing":w.dir.listing(),"locks":w.dir.lock_files(),"managed":w.managed(),"ms":ms}));
    SLOW.store(ms > 8000, std::sync::atomic::Ordering::SeqCst);
    (ops_counted, log)
}

/// the last run took longer than the hang threshold (it was reported; stop enumerating)
static SLOW: std::sync::atomic::AtomicBool = std::sync::atomic::AtomicBool::new(false);

/// recorded finding F40: commit fails while writing meta.json, the writer is kept, a merge follows
fn run_f40(tracer: &Tracer) {
    tracer.reset_canon();
    let mut cfg = Cfg::default();
    cfg.flush_after = 2;
    tracer.emit(json!({"ev":"reset","cfg":cfg.to_json(),"tag":{"f40":true}}));
    let mut w = World::new_quiet(tracer, &cfg, false);
    install_sink(tracer, w.regs.clone(), None);
    w.exec(&json!({"op":"new_writer"}));
    w.exec(&json!({"op":"add","id":1,"t":"b","v":0}));
    w.exec(&json!({"op":"add","id":2,"t":"c","v":0}));
    w.exec(&json!({"op":"commit"}));
    w.exec(&json!({"op":"add","id":3,"t":"b","v":0}));
    w.exec(&json!({"op":"del","pred":{"k":"term","t":"b"}}));
    w.exec(&json!({"op":"add","id":4,"t":"b","v":0}));
    let now = w.dir.opcount();
    w.dir.set_fault(FaultPlan { k: now + 1, ops: vec!["atomic_write".into()], only_path: "meta.json".into(), skip_locks: true, ..Default::default() });
    w.exec(&json!({"op":"commit"}));
    w.exec(&json!({"op":"merge"}));
    w.exec(&json!({"op":"reload"}));
    w.dir.set_fault(FaultPlan::default());
    w.exec(&json!({"op":"drop_writer"}));
    tracer.emit(json!({"ev":"heal","fired":1}));
    w.exec(&json!({"op":"new_writer"}));
    w.exec(&json!({"op":"add","id":9000,"t":"zz","v":0}));
    w.exec(&json!({"op":"commit"}));
    w.exec(&json!({"op":"wait_merges"}));
    w.exec(&json!({"op":"observe"}));
    tantivy::verif::set_sink(None);
    tracer.emit(json!({"ev":"end","listing":w.dir.listing(),"locks":w.dir.lock_files(),"managed":w.managed()}));
}

/// finding F55 (repaired): a commit with deletes fails in the directory sync AFTER meta.json was replaced while the
/// end_merge task of a merge started at the previous commit is queued behind the commit task: the killed updater
/// must not collect from its registers.  The gate parks the merge thread at its first storage operation, releases
/// it when the commit task reaches its second sync_directory, waits until the merge thread has gone quiet (its
/// end_merge is queued) and only then lets the sync fail.
fn run_killgc(tracer: &Tracer) {
    use std::sync::{Arc, Condvar, Mutex};
    use std::time::{Duration, Instant};
    use vh::simdir::OpInfo;
    struct St {
        armed: bool,
        parked: bool,
        release: bool,
        meta_seen: bool,
        fired: bool,
        last_merge: Instant,
    }
    tracer.reset_canon();
    let mut cfg = Cfg::default();
    cfg.flush_after = 3;
    cfg.merge = "log".into();
    tracer.emit(json!({"ev":"reset","cfg":cfg.to_json(),"tag":{"killgc":true}}));
    let mut w = World::new_quiet(tracer, &cfg, false);
    install_sink(tracer, w.regs.clone(), None);
    let st = Arc::new((Mutex::new(St { armed: false, parked: false, release: false, meta_seen: false, fired: false, last_merge: Instant::now() }), Condvar::new()));
    let g2 = st.clone();
    let dir2 = w.dir.clone();
    w.dir.set_gate(Some(Arc::new(move |op: &OpInfo, after: bool| {
        let (m, cv) = &*g2;
        if op.role.starts_with("merge") {
            let mut s = m.lock().unwrap();
            if !s.armed {
                return;
            }
            if !after && !s.release {
                s.parked = true;
                cv.notify_all();
                let t0 = Instant::now();
                while !s.release && t0.elapsed() < Duration::from_secs(10) {
                    let (x, _) = cv.wait_timeout(s, Duration::from_millis(10)).unwrap();
                    s = x;
                }
            }
            s.last_merge = Instant::now();
            return;
        }
        if op.role.starts_with("updater") && !after {
            let mut s = m.lock().unwrap();
            if !s.armed || s.fired {
                return;
            }
            if op.op == "atomic_write" && op.path == "meta.json" {
                s.meta_seen = true;
                return;
            }
            if op.op == "sync_directory" && s.meta_seen && s.parked {
                s.fired = true;
                s.release = true;
                s.last_merge = Instant::now();
                cv.notify_all();
                drop(s);
                let t0 = Instant::now();
                loop {
                    std::thread::sleep(Duration::from_millis(20));
                    let s = m.lock().unwrap();
                    if s.last_merge.elapsed() > Duration::from_millis(300) || t0.elapsed() > Duration::from_secs(5) {
                        break;
                    }
                }
                dir2.set_fault(FaultPlan { k: 1, ops: vec!["sync_directory".into()], only_role: "updater".into(), skip_locks: true, ..Default::default() });
            }
        }
    })));
    let a = |i: u64, t: &str| json!({"op":"add","id":i,"t":t,"v":(i % 5) as i64});
    w.exec(&json!({"op":"new_writer"}));
    for op in [a(1, "a"), a(2, "a"), a(3, "b"), a(4, "c"), json!({"op":"commit"}), json!({"op":"reload"}),
               json!({"op":"run","ops":[{"k":"del","t":"a"},{"k":"add","id":5,"t":"a","v":1}]}), json!({"op":"commit"}), json!({"op":"reload"}),
               a(6, "b"), json!({"op":"drop_writer"}), json!({"op":"new_writer"}), a(7, "b"), json!({"op":"del","pred":{"k":"term","t":"b"}}), a(8, "b")] {
        w.exec(&op);
    }
    st.0.lock().unwrap().armed = true;
    w.exec(&json!({"op":"commit"}));
    let (parked, fired) = {
        let mut s = st.0.lock().unwrap();
        s.release = true;
        s.armed = false;
        st.1.notify_all();
        (s.parked, s.fired)
    };
    w.exec(&json!({"op":"reload"}));
    w.exec(&json!({"op":"rollback"}));
    w.exec(&json!({"op":"reload"}));
    let nfired = w.dir.st.lock().unwrap().faults_fired;
    w.dir.set_fault(FaultPlan::default());
    w.dir.set_gate(None);
    w.exec(&json!({"op":"drop_writer"}));
    tracer.emit(json!({"ev":"schedule","name":"end_merge queued behind a commit task whose directory sync fails after meta.json was replaced","realised":parked && fired && nfired > 0}));
    tracer.emit(json!({"ev":"heal","fired":nfired}));
    w.exec(&json!({"op":"new_writer"}));
    w.exec(&json!({"op":"add","id":9000,"t":"zz","v":0}));
    w.exec(&json!({"op":"commit"}));
    w.exec(&json!({"op":"wait_merges"}));
    w.exec(&json!({"op":"observe"}));
    tantivy::verif::set_sink(None);
    tracer.emit(json!({"ev":"end","listing":w.dir.listing(),"locks":w.dir.lock_files(),"managed":w.managed()}));
}

/// a commit that wrote a delete file fails while replacing meta.json; the writer is rolled back and
/// the SAME transaction is issued again: it draws the same opstamps, so the same delete-file name
fn run_reuse(tracer: &Tracer, how: &str, retry_term: &str) {
    tracer.reset_canon();
    // one segment holding all documents: both transactions write <that segment>.<opstamp>.del
    let cfg = Cfg::default();
    tracer.emit(json!({"ev":"reset","cfg":cfg.to_json(),"tag":{"reuse":how,"retry":retry_term}}));
    let mut w = World::new_quiet(tracer, &cfg, false);
    install_sink(tracer, w.regs.clone(), None);
    w.exec(&json!({"op":"new_writer"}));
    w.exec(&json!({"op":"add","id":1,"t":"a","v":0}));
    w.exec(&json!({"op":"add","id":2,"t":"b","v":0}));
    w.exec(&json!({"op":"add","id":3,"t":"c","v":0}));
    w.exec(&json!({"op":"commit"}));
    // a fresh writer: its stamper starts at the committed opstamp, as the one after the failure will
    w.exec(&json!({"op":"drop_writer"}));
    w.exec(&json!({"op":"new_writer"}));
    w.exec(&json!({"op":"del","pred":{"k":"term","t":"a"}}));
    let now = w.dir.opcount();
    w.dir.set_fault(FaultPlan { k: now + 1, ops: vec!["atomic_write".into()], only_path: "meta.json".into(), skip_locks: true, ..Default::default() });
    w.exec(&json!({"op":"commit"}));
    w.dir.set_fault(FaultPlan::default());
    tracer.emit(json!({"ev":"heal","fired":1}));
    if how == "rollback" {
        w.exec(&json!({"op":"rollback"}));
    } else {
        w.exec(&json!({"op":"drop_writer"}));
        w.exec(&json!({"op":"new_writer"}));
    }
    // the transaction is issued again (same opstamps, same delete-file name) - with the same delete,
    // or with ANOTHER one: the left-over file of the failed commit must not be what gets published
    w.exec(&json!({"op":"del","pred":{"k":"term","t":retry_term}}));
    w.exec(&json!({"op":"commit"}));
    w.exec(&json!({"op":"reload"}));
    w.exec(&json!({"op":"add","id":4,"t":"c","v":0}));
    w.exec(&json!({"op":"commit"}));
    w.exec(&json!({"op":"wait_merges"}));
    w.exec(&json!({"op":"observe"}));
    tantivy::verif::set_sink(None);
    tracer.emit(json!({"ev":"end","listing":w.dir.listing(),"locks":w.dir.lock_files(),"managed":w.managed()}));
}

/// The indexing worker is parked at the first file creation of its segment (the storage stalls) while a
/// producer thread keeps adding documents until the pipeline is full and `add_document` blocks; then
/// the creation fails: the worker dies.  The blocked call has to return (FaultProto: AddWake) - a
/// producer left waiting for ever is a hang.
fn run_stall(tracer: &Tracer) {
    use std::sync::atomic::{AtomicBool, AtomicU64, Ordering};
    use std::sync::{Arc, Condvar, Mutex};
    use std::time::{Duration, Instant};
    use vh::simdir::OpInfo;
    tracer.reset_canon();
    let mut cfg = Cfg::default();
    cfg.threads = 1;
    tracer.emit(json!({"ev":"reset","cfg":cfg.to_json(),"tag":{"stall":true}}));
    let mut w = World::new_quiet(tracer, &cfg, false);
    install_sink(tracer, w.regs.clone(), None);
    w.exec(&json!({"op":"new_writer"}));
    let gate = Arc::new((Mutex::new((false, false)), Condvar::new())); // (parked, release)
    let g2 = gate.clone();
    w.dir.set_gate(Some(Arc::new(move |op: &OpInfo, after: bool| {
        if op.role.starts_with("worker") && op.op == "open_write" && !after {
            let (m, cv) = &*g2;
            let mut g = m.lock().unwrap();
            if !g.0 {
                g.0 = true;
                cv.notify_all();
                let t0 = Instant::now();
                while !g.1 && t0.elapsed() < Duration::from_secs(60) {
                    let (x, _) = cv.wait_timeout(g, Duration::from_millis(20)).unwrap();
                    g = x;
                }
            }
        }
    })));
    let writer = Arc::new(w.writer.take().expect("writer"));
    let accepted = Arc::new(AtomicU64::new(0));
    let finished = Arc::new(AtomicBool::new(false));
    let failed = Arc::new(AtomicBool::new(false));
    let docs: Vec<tantivy::TantivyDocument> = vec![w.doc(1, "a", 0)];
    let (wr, acc, fin, fl) = (writer.clone(), accepted.clone(), finished.clone(), failed.clone());
    let d0 = docs[0].clone();
    std::thread::Builder::new()
        .name("producer".into())
        .spawn(move || {
            for _ in 0..30_000u32 {
                match wr.add_document(d0.clone()) {
                    Ok(_) => {
                        acc.fetch_add(1, Ordering::SeqCst);
                    }
                    Err(_) => {
                        fl.store(true, Ordering::SeqCst);
                        break;
                    }
                }
            }
            fin.store(true, Ordering::SeqCst);
        })
        .unwrap();
    // wait until the worker is parked and the producer has stopped making progress (pipeline full)
    let t0 = Instant::now();
    let (mut last, mut still) = (0u64, 0u32);
    while t0.elapsed() < Duration::from_secs(30) && still < 15 && !finished.load(Ordering::SeqCst) {
        std::thread::sleep(Duration::from_millis(20));
        let now = accepted.load(Ordering::SeqCst);
        let parked = gate.0.lock().unwrap().0;
        still = if parked && now == last { still + 1 } else { 0 };
        last = now;
    }
    let blocked = !finished.load(Ordering::SeqCst);
    tracer.emit(json!({"ev":"stall_state","worker_parked":gate.0.lock().unwrap().0,"accepted":accepted.load(Ordering::SeqCst),"producer_blocked":blocked}));
    // the stalled creation fails
    let now = w.dir.opcount();
    w.dir.set_fault(FaultPlan { k: now + 1, ops: vec!["open_write".into()], skip_locks: true, permanent: true, ..Default::default() });
    {
        let (m, cv) = &*gate;
        m.lock().unwrap().1 = true;
        cv.notify_all();
    }
    let t1 = Instant::now();
    while !finished.load(Ordering::SeqCst) && t1.elapsed() < Duration::from_secs(10) {
        std::thread::sleep(Duration::from_millis(10));
    }
    w.dir.set_gate(None);
    if !finished.load(Ordering::SeqCst) {
        tracer.emit(json!({"ev":"hang","ms":10_000,"where":"add_document blocked on a full pipeline after the indexing worker died","accepted":accepted.load(Ordering::SeqCst)}));
        tracer.emit(json!({"ev":"schedule","name":"worker stalled at its first file creation until the pipeline is full, then the creation fails","realised":blocked}));
        tracer.flush();
        // the producer thread cannot be woken: nothing more can be done in this process
        std::process::exit(0);
    }
    tracer.emit(json!({"ev":"stall_result","returned":true,"add_failed":failed.load(Ordering::SeqCst),"accepted":accepted.load(Ordering::SeqCst)}));
    tracer.emit(json!({"ev":"schedule","name":"worker stalled at its first file creation until the pipeline is full, then the creation fails","realised":blocked}));
    w.dir.set_fault(FaultPlan::default());
    drop(writer);
    tracer.emit(json!({"ev":"drop_writer","ok":true,"locks":w.dir.lock_files()}));
    tracer.emit(json!({"ev":"heal","fired":1}));
    w.exec(&json!({"op":"new_writer"}));
    w.exec(&json!({"op":"add","id":9000,"t":"zz","v":0}));
    w.exec(&json!({"op":"commit"}));
    w.exec(&json!({"op":"wait_merges"}));
    w.exec(&json!({"op":"observe"}));
    tantivy::verif::set_sink(None);
    tracer.emit(json!({"ev":"end","listing":w.dir.listing(),"locks":w.dir.lock_files(),"managed":w.managed()}));
}

fn main() {
    let a = Args::parse();
    let tracer = Tracer::to_file(&a.get("out", "/dev/stdout"));
    let seed = a.num("seed", 1);
    let points = a.num("points", 60);
    let locks = a.flag("locks");
    let mut rng = StdRng::seed_from_u64(seed);
    let wl = workloads();
    std::panic::set_hook(Box::new(|_| {}));
    if a.pos.get(0).map(|s| s.as_str()) == Some("reuse") {
        for how in ["rollback", "reopen"] {
            for retry_term in ["a", "b"] {
                run_reuse(&tracer, how, retry_term);
            }
        }
        tracer.flush();
        return;
    }
    if a.pos.get(0).map(|s| s.as_str()) == Some("stall") {
        run_stall(&tracer);
        tracer.flush();
        return;
    }
    if a.pos.get(0).map(|s| s.as_str()) == Some("killgc") {
        run_killgc(&tracer);
        tracer.flush();
        return;
    }
    if a.pos.get(0).map(|s| s.as_str()) == Some("f40") {
        run_f40(&tracer);
        tracer.flush();
        return;
    }
    if a.pos.get(0).map(|s| s.as_str()) == Some("storeblocks") {
        // every transient fault in a write / flush / terminate of a doc-store file of the workload
        // with many doc-store blocks per segment; the writer is kept, the commit is retried
        let (cfg, ops) = &wl[4];
        let sink = Tracer::sink();
        let (n, oplog) = run_one(&sink, cfg, ops, None, "keep", json!({}), true);
        for (k, op, class) in &oplog {
            if class != "store" || !(*op == "write" || *op == "flush" || *op == "terminate") {
                continue;
            }
            let plan = FaultPlan { k: *k, permanent: false, skip_locks: true, ..Default::default() };
            run_one(&tracer, cfg, ops, Some(plan), "keep", json!({"workload":4,"k":k,"permanent":false,"policy":"keep","n":n,"storeblocks":true,"fop":op}), false);
        }
        tracer.flush();
        return;
    }
    if a.pos.get(0).map(|s| s.as_str()) == Some("managedread") {
        // every read of .managed.json of the two-instance workload fails once (a new writer re-reads the list:
        // the error has to reach the caller - a writer created with a stale list leaves orphans behind)
        let (cfg, ops) = &wl[5];
        let sink = Tracer::sink();
        let (n, oplog) = run_one(&sink, cfg, ops, None, "keep", json!({}), true);
        for (k, op, class) in &oplog {
            if *op != "atomic_read" || class != ".managed.json" {
                continue;
            }
            for policy in ["keep", "drop"] {
                let plan = FaultPlan { k: *k, permanent: false, skip_locks: true, ..Default::default() };
                run_one(&tracer, cfg, ops, Some(plan), policy, json!({"workload":5,"k":k,"permanent":false,"policy":policy,"n":n,"managedread":true,"fop":op}), false);
            }
        }
        tracer.flush();
        return;
    }
    if a.pos.get(0).map(|s| s.as_str()) == Some("publish") {
        // every transient fault in a publication step (atomic_write of meta.json / .managed.json,
        // sync_directory) of the workload that collects and reloads between its commits and its
        // merge; the writer is kept after the failing call
        let (cfg, ops) = &wl[3];
        let sink = Tracer::sink();
        let (n, oplog) = run_one(&sink, cfg, ops, None, "keep", json!({}), true);
        for (k, op, class) in &oplog {
            if class == "lock" || !(*op == "atomic_write" || *op == "sync_directory") {
                continue;
            }
            for after_effect in [false, true] {
                if after_effect && *op != "atomic_write" {
                    continue;
                }
                let plan = FaultPlan { k: *k, permanent: false, skip_locks: true, after_effect, ..Default::default() };
                run_one(&tracer, cfg, ops, Some(plan), "keep", json!({"workload":3,"k":k,"permanent":false,"policy":"keep","n":n,"publish":true,"after_effect":after_effect,"fop":op,"class":class}), false);
            }
        }
        tracer.flush();
        return;
    }
    let only: Option<usize> = a.kv.get("workload").map(|s| s.parse().unwrap());
    let mut total = 0u64;
    let mut slow_runs = 0u32;
    for (wi, (cfg, ops)) in wl.iter().enumerate() {
        if let Some(o) = only {
            if o != wi {
                continue;
            }
        } else if wi == 5 {
            // the two-instance workload has its own mode (managedread)
            continue;
        }
        // fault-free run: records the operations (index, kind, file class)
        let sink = Tracer::sink();
        let (n, oplog) = run_one(&sink, cfg, ops, None, "keep", json!({}), true);
        let mut ks: Vec<u64>;
        if locks {
            // every creation / flush of a lock file
            ks = oplog.iter().filter(|(_, op, class)| class == "lock" && (*op == "open_write" || *op == "flush")).map(|(k, _, _)| *k).collect();
            if (points as usize) < ks.len() {
                ks.shuffle(&mut rng);
                ks.truncate(points as usize);
                ks.sort();
            }
        } else if (points as usize) >= n as usize {
            ks = (1..=n).collect();
        } else {
            // stratified by (operation kind, file class): two points per class first, then random
            let mut by_class: std::collections::BTreeMap<(String, String), Vec<u64>> = Default::default();
            for (k, op, class) in &oplog {
                if class != "lock" {
                    by_class.entry((op.to_string(), class.clone())).or_default().push(*k);
                }
            }
            ks = vec![];
            for (_, v) in by_class.iter_mut() {
                v.shuffle(&mut rng);
                ks.extend(v.iter().take(2));
            }
            let mut rest: Vec<u64> = (1..=n).filter(|k| !ks.contains(k)).collect();
            rest.shuffle(&mut rng);
            let want = (points as usize).saturating_sub(ks.len());
            ks.extend(rest.into_iter().take(want));
            ks.sort();
            ks.dedup();
        }
        if let Some(k1) = a.kv.get("k") {
            ks = vec![k1.parse().unwrap()];
        }
        for k in ks {
            for (mi, permanent) in [false, true].iter().enumerate() {
                let policy0 = ["keep", "rollback", "reopen"][((k as usize) + mi + wi) % 3];
                let forced = a.get("policy", "");
                let policy = if forced.is_empty() { policy0 } else { forced.as_str() };
                if locks && *permanent {
                    continue;
                }
                // lock-file faults: creation and flush of a lock file fail transiently (F18 class);
                // a failing unlink of a lock file is outside what the lock-file protocol can survive
                let plan = if locks {
                    FaultPlan { k, permanent: false, ops: vec!["open_write".into(), "flush".into()], skip_locks: false, after_effect: false, only_locks: true, ..Default::default() }
                } else {
                    FaultPlan { k, permanent: *permanent, ops: a.kv.get("fop").map(|o| vec![o.clone()]).unwrap_or_default(), skip_locks: true, after_effect: (k % 7 == 3), only_locks: false, only_role: a.get("role", ""), ..Default::default() }
                };
                run_one(&tracer, cfg, ops, Some(plan), policy, json!({"workload":wi,"k":k,"permanent":permanent,"policy":policy,"n":n,"locks":locks}), false);
                total += 1;
                if SLOW.load(std::sync::atomic::Ordering::SeqCst) {
                    slow_runs += 1;
                }
            }
            if slow_runs >= 1 {
                // hangs were reported as events; enumerating further points would take hours
                tracer.emit(json!({"ev":"summary","runs":total,"stopped_after_hangs":slow_runs}));
                tracer.flush();
                return;
            }
        }
    }
    tracer.emit(json!({"ev":"summary","runs":total}));
    tracer.flush();
}
