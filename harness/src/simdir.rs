//! SimDirectory: an in-memory `Directory` that separates *visible* from *durable* state,
//! logs every storage operation (with the calling thread's role) to a `Tracer`, can inject
//! faults at the k-th operation, can call a user supplied gate before/after each operation
//! (pause points for schedules), and can materialise crash images.
use crate::trace::{role, Tracer};
use rand::prelude::*;
use serde_json::{json, Value};
use std::collections::BTreeMap;
use std::io::{self, BufWriter, Write};
use std::path::{Path, PathBuf};
use std::sync::{Arc, Mutex};
use tantivy::directory::error::{DeleteError, OpenReadError, OpenWriteError};
use tantivy::directory::{
    AntiCallToken, Directory, FileHandle, OwnedBytes, TerminatingWrite, WatchCallback,
    WatchCallbackList, WatchHandle, WritePtr,
};

#[derive(Clone, Default, Debug)]
pub struct RegFile {
    pub data: Vec<u8>,
    pub synced_len: usize,
    pub terminated: bool,
    pub entry_durable: bool,
    pub writer_alive: bool,
}
#[derive(Clone, Default, Debug)]
pub struct AtomFile {
    pub versions: Vec<Vec<u8>>,
    /// index of the newest version known durable (None: not even the file)
    pub durable: Option<usize>,
}
#[derive(Clone, Default, Debug)]
pub struct Fs {
    pub reg: BTreeMap<PathBuf, RegFile>,
    /// unlinked files whose directory entry was durable and whose unlink is not yet synced
    pub ghosts: BTreeMap<PathBuf, RegFile>,
    pub atom: BTreeMap<PathBuf, AtomFile>,
}

pub fn is_lock(p: &Path) -> bool {
    let s = p.to_string_lossy();
    s.ends_with(".lock")
}

/// What an operation is, for gates and fault filters.
#[derive(Clone, Debug)]
pub struct OpInfo {
    pub role: String,
    pub op: &'static str,
    pub path: String,
    /// index of this operation among all fallible operations (1-based), 0 for `before` calls
    pub k: u64,
}

#[derive(Clone, Debug, Default)]
pub struct FaultPlan {
    /// fail the k-th fallible operation (1-based); 0 = none
    pub k: u64,
    /// keep failing every later operation too
    pub permanent: bool,
    /// only operations of these kinds count as failing candidates (empty = all)
    pub ops: Vec<String>,
    /// never fail operations on lock files
    pub skip_locks: bool,
    /// for atomic_write: take effect and then report the error
    pub after_effect: bool,
    /// only operations on lock files are failing candidates
    pub only_locks: bool,
    /// only operations on this path (raw file name) are failing candidates ("" = any)
    pub only_path: String,
    /// only operations on a path with this suffix (e.g. ".del")
    pub only_suffix: String,
    /// only operations of threads whose role starts with this are failing candidates ("" = any)
    pub only_role: String,
}

thread_local! {
    /// storage operations of this thread are not logged (read-back by the harness itself)
    pub static THREAD_QUIET: std::cell::Cell<bool> = const { std::cell::Cell::new(false) };
    /// injected faults that fired on this thread
    pub static THREAD_FAULTS: std::cell::Cell<u64> = const { std::cell::Cell::new(0) };
}
/// run `f` with the calling thread's storage operations unlogged
pub fn quietly<T>(f: impl FnOnce() -> T) -> T {
    let prev = THREAD_QUIET.with(|q| q.replace(true));
    let r = std::panic::catch_unwind(std::panic::AssertUnwindSafe(f));
    THREAD_QUIET.with(|q| q.set(prev));
    match r {
        Ok(v) => v,
        Err(p) => std::panic::resume_unwind(p),
    }
}

pub type Gate = Arc<dyn Fn(&OpInfo, bool) + Send + Sync>;

pub struct State {
    pub fs: Fs,
    watch: WatchCallbackList,
    pub opcount: u64,
    pub fault: FaultPlan,
    pub faults_fired: u64,
    /// bytes accepted per `write` call at most (0 = unlimited), for short-write experiments
    pub max_write: usize,
    pub snaps: Option<Vec<(u64, Fs)>>,
    /// snapshot only every n-th `write` operation (all other operations always)
    pub snap_write_stride: u64,
    /// when Some: (k, operation, path class) of every counted operation
    pub oplog: Option<Vec<(u64, &'static str, String)>>,
}

#[derive(Clone)]
pub struct SimDir {
    pub st: Arc<Mutex<State>>,
    pub tracer: Tracer,
    pub gate: Arc<Mutex<Option<Gate>>>,
    /// quiet = do not emit storage events (still counts operations)
    pub quiet: Arc<std::sync::atomic::AtomicBool>,
}

impl std::fmt::Debug for SimDir {
    fn fmt(&self, f: &mut std::fmt::Formatter<'_>) -> std::fmt::Result {
        write!(f, "SimDir")
    }
}

fn ioerr(what: &str) -> io::Error {
    io::Error::new(io::ErrorKind::Other, format!("injected fault: {what}"))
}

impl SimDir {
    pub fn new(tracer: Tracer) -> SimDir {
        SimDir {
            st: Arc::new(Mutex::new(State {
                fs: Fs::default(),
                watch: WatchCallbackList::default(),
                opcount: 0,
                fault: FaultPlan::default(),
                faults_fired: 0,
                max_write: 0,
                snaps: None,
                snap_write_stride: 1,
                oplog: None,
            })),
            tracer,
            gate: Arc::new(Mutex::new(None)),
            quiet: Arc::new(std::sync::atomic::AtomicBool::new(false)),
        }
    }
    pub fn from_image(fs: Fs, tracer: Tracer) -> SimDir {
        let d = SimDir::new(tracer);
        d.st.lock().unwrap().fs = fs;
        d
    }
    pub fn set_gate(&self, g: Option<Gate>) {
        *self.gate.lock().unwrap() = g;
    }
    pub fn set_fault(&self, f: FaultPlan) {
        self.st.lock().unwrap().fault = f;
    }
    pub fn set_quiet(&self, q: bool) {
        self.quiet.store(q, std::sync::atomic::Ordering::SeqCst);
    }
    pub fn record_snaps(&self, on: bool) {
        self.st.lock().unwrap().snaps = if on { Some(Vec::new()) } else { None };
    }
    pub fn take_snaps(&self) -> Vec<(u64, Fs)> {
        self.st.lock().unwrap().snaps.replace(Vec::new()).unwrap_or_default()
    }
    pub fn opcount(&self) -> u64 {
        self.st.lock().unwrap().opcount
    }
    pub fn fs(&self) -> Fs {
        self.st.lock().unwrap().fs.clone()
    }
    /// names of the visible regular files (canonical), lock files excluded
    pub fn listing(&self) -> Vec<String> {
        let g = self.st.lock().unwrap();
        let mut v: Vec<String> = g
            .fs
            .reg
            .keys()
            .filter(|p| !is_lock(p))
            .map(|p| self.tracer.path(p))
            .collect();
        v.sort();
        v
    }
    pub fn raw_listing(&self) -> Vec<PathBuf> {
        let g = self.st.lock().unwrap();
        g.fs.reg.keys().filter(|p| !is_lock(p)).cloned().collect()
    }
    pub fn lock_files(&self) -> Vec<String> {
        let g = self.st.lock().unwrap();
        g.fs.reg.keys().filter(|p| is_lock(p)).map(|p| p.to_string_lossy().to_string()).collect()
    }

    fn gate_call(&self, role: &str, op: &'static str, path: &Path, after: bool, k: u64) {
        let g = self.gate.lock().unwrap().clone();
        if let Some(g) = g {
            g(
                &OpInfo { role: role.to_string(), op, path: self.tracer.path(path), k },
                after,
            );
        }
    }

    /// Counts the operation and decides whether it fails. Must be called with the state lock.
    fn fault_here(&self, g: &mut State, op: &'static str, path: &Path) -> bool {
        if THREAD_QUIET.with(|q| q.get()) {
            // the harness's own read-back: neither counted nor failed
            return false;
        }
        g.opcount += 1;
        let k = g.opcount;
        if g.oplog.is_some() {
            let name = path.to_string_lossy().to_string();
            let class = if is_lock(path) {
                "lock".to_string()
            } else if name.len() > 33 && name.as_bytes()[32] == b'.' {
                let ext = &name[33..];
                if ext.ends_with(".del") { "del".to_string() } else { ext.to_string() }
            } else {
                name
            };
            g.oplog.as_mut().unwrap().push((k, op, class));
        }
        let f = &g.fault;
        if f.k == 0 || k < f.k {
            return false;
        }
        if !f.permanent && g.faults_fired > 0 {
            return false;
        }
        if !f.ops.is_empty() && !f.ops.iter().any(|o| o == op) {
            return false;
        }
        if f.skip_locks && is_lock(path) {
            return false;
        }
        if f.only_locks && !is_lock(path) {
            return false;
        }
        if !f.only_path.is_empty() && path.to_string_lossy() != f.only_path.as_str() {
            return false;
        }
        if !f.only_suffix.is_empty() && !path.to_string_lossy().ends_with(f.only_suffix.as_str()) {
            return false;
        }
        if !f.only_role.is_empty() && !role().starts_with(f.only_role.as_str()) {
            return false;
        }
        if !f.permanent && k != f.k {
            // transient: exactly the k-th operation (if it was filtered out, the next eligible)
        }
        g.faults_fired += 1;
        THREAD_FAULTS.with(|c| c.set(c.get() + 1));
        true
    }

    fn ev(&self, g: &mut State, role: &str, op: &str, path: &Path, extra: Value) {
        if self.quiet.load(std::sync::atomic::Ordering::SeqCst) || THREAD_QUIET.with(|q| q.get()) {
            return;
        }
        if g.snaps.is_some() && (op != "write" || g.opcount % g.snap_write_stride.max(1) == 0) {
            // a snapshot of the file system state *after* this operation
            let fs = g.fs.clone();
            let k = g.opcount;
            g.snaps.as_mut().unwrap().push((k, fs));
        }
        let mut o = json!({"ev":"st","op":op,"path":self.tracer.path(path),"th":role,"k":g.opcount});
        if let (Value::Object(m), Value::Object(x)) = (&mut o, extra) {
            for (k, v) in x {
                m.insert(k, v);
            }
        }
        self.tracer.emit(o);
    }

    /// Parse a meta.json payload into the abstract view used by the specification.
    pub fn meta_view(&self, data: &[u8]) -> Value {
        let v: Value = match serde_json::from_slice(data) {
            Ok(v) => v,
            Err(_) => return json!({"bad":true}),
        };
        let mut segs = vec![];
        let mut files: Vec<String> = vec![];
        if let Some(arr) = v.get("segments").and_then(|s| s.as_array()) {
            for s in arr {
                let uuid = s.get("segment_id").and_then(|x| x.as_str()).unwrap_or("").replace('-', "");
                let n = self.tracer.seg(&uuid);
                let max_doc = s.get("max_doc").and_then(|x| x.as_u64()).unwrap_or(0);
                let del = s.get("deletes").cloned().unwrap_or(Value::Null);
                let (ndel, delop) = if del.is_null() {
                    (0, -1i64)
                } else {
                    (
                        del.get("num_deleted_docs").and_then(|x| x.as_u64()).unwrap_or(0),
                        del.get("opstamp").and_then(|x| x.as_i64()).unwrap_or(-1),
                    )
                };
                segs.push(json!({"sid":n,"max_doc":max_doc,"ndel":ndel,"delop":delop}));
                for ext in ["idx", "pos", "term", "store", "fast", "fieldnorm"] {
                    files.push(format!("s{n}.{ext}"));
                }
                if delop >= 0 {
                    files.push(format!("s{n}.{delop}.del"));
                }
            }
        }
        files.sort();
        json!({"opstamp": v.get("opstamp").and_then(|x| x.as_u64()).unwrap_or(0),
               "payload": v.get("payload").cloned().unwrap_or(Value::Null),
               "segs": segs, "files": files})
    }
    fn managed_view(&self, data: &[u8]) -> Value {
        let v: Value = serde_json::from_slice(data).unwrap_or(Value::Null);
        let mut files: Vec<String> = v
            .as_array()
            .map(|a| a.iter().filter_map(|x| x.as_str()).map(|s| self.tracer.path(Path::new(s))).collect())
            .unwrap_or_default();
        files.sort();
        json!(files)
    }

    /// One crash image of `fs`. mode 0 = nothing un-synced survives, 1 = everything un-synced
    /// survives, 2 = each un-synced item independently (seeded).
    pub fn image(fs: &Fs, mode: u8, rng: &mut StdRng) -> (Fs, Value) {
        let mut out = Fs::default();
        let mut choice = serde_json::Map::new();
        let mut pick = |rng: &mut StdRng| match mode {
            0 => false,
            1 => true,
            _ => rng.random_bool(0.5),
        };
        let mut present = vec![];
        let mut trunc = serde_json::Map::new();
        for (p, f) in &fs.reg {
            if is_lock(p) {
                continue;
            }
            let here = f.entry_durable || pick(rng);
            if !here {
                continue;
            }
            let len = if f.synced_len == f.data.len() {
                f.data.len()
            } else {
                match mode {
                    0 => f.synced_len,
                    1 => f.data.len(),
                    _ => *[f.synced_len, f.data.len(), rng.random_range(f.synced_len..=f.data.len())]
                        .choose(rng)
                        .unwrap(),
                }
            };
            if len != f.data.len() {
                trunc.insert(p.to_string_lossy().to_string(), json!(len));
            }
            present.push(p.to_string_lossy().to_string());
            out.reg.insert(
                p.clone(),
                RegFile { data: f.data[..len].to_vec(), synced_len: len, terminated: true, entry_durable: true, writer_alive: false },
            );
        }
        for (p, f) in &fs.ghosts {
            let unlink_applied = pick(rng);
            if !unlink_applied && !out.reg.contains_key(p) {
                present.push(p.to_string_lossy().to_string());
                out.reg.insert(
                    p.clone(),
                    RegFile { data: f.data[..f.synced_len].to_vec(), synced_len: f.synced_len, terminated: true, entry_durable: true, writer_alive: false },
                );
            }
        }
        for (p, a) in &fs.atom {
            if a.versions.is_empty() {
                continue;
            }
            let lo: i64 = a.durable.map(|x| x as i64).unwrap_or(-1);
            let hi = a.versions.len() as i64 - 1;
            let idx: i64 = match mode {
                0 => lo,
                1 => hi,
                _ => rng.random_range(lo..=hi),
            };
            choice.insert(p.to_string_lossy().to_string(), json!(idx + 1));
            if idx >= 0 {
                out.atom.insert(p.clone(), AtomFile { versions: vec![a.versions[idx as usize].clone()], durable: Some(0) });
            }
        }
        choice.insert("mode".into(), json!(mode));
        choice.insert("present".into(), json!(present));
        choice.insert("trunc".into(), Value::Object(trunc));
        (out, Value::Object(choice))
    }
}

struct W {
    dir: SimDir,
    path: PathBuf,
}
impl Write for W {
    fn write(&mut self, buf: &[u8]) -> io::Result<usize> {
        let r = role();
        self.dir.gate_call(&r, "write", &self.path, false, 0);
        let mut g = self.dir.st.lock().unwrap();
        if self.dir.fault_here(&mut g, "write", &self.path) {
            let k = g.opcount;
            self.dir.ev(&mut g, &r, "fault", &self.path, json!({"fop":"write"}));
            drop(g);
            self.dir.gate_call(&r, "write", &self.path, true, k);
            return Err(ioerr("write"));
        }
        let n = if g.max_write > 0 { buf.len().min(g.max_write) } else { buf.len() };
        let mut len = 0;
        if let Some(f) = g.fs.reg.get_mut(&self.path) {
            f.data.extend_from_slice(&buf[..n]);
            len = f.data.len();
        }
        let k = g.opcount;
        self.dir.ev(&mut g, &r, "write", &self.path, json!({"n":n,"len":len}));
        drop(g);
        self.dir.gate_call(&r, "write", &self.path, true, k);
        Ok(n)
    }
    fn flush(&mut self) -> io::Result<()> {
        let r = role();
        let mut g = self.dir.st.lock().unwrap();
        if self.dir.fault_here(&mut g, "flush", &self.path) {
            self.dir.ev(&mut g, &r, "fault", &self.path, json!({"fop":"flush"}));
            return Err(ioerr("flush"));
        }
        Ok(())
    }
}
impl TerminatingWrite for W {
    fn terminate_ref(&mut self, _: AntiCallToken) -> io::Result<()> {
        let r = role();
        self.dir.gate_call(&r, "terminate", &self.path, false, 0);
        let mut g = self.dir.st.lock().unwrap();
        if self.dir.fault_here(&mut g, "terminate", &self.path) {
            self.dir.ev(&mut g, &r, "fault", &self.path, json!({"fop":"terminate"}));
            return Err(ioerr("terminate"));
        }
        let mut len = 0;
        if let Some(f) = g.fs.reg.get_mut(&self.path) {
            f.synced_len = f.data.len();
            f.terminated = true;
            len = f.data.len();
        }
        let k = g.opcount;
        self.dir.ev(&mut g, &r, "terminate", &self.path, json!({"len":len}));
        drop(g);
        self.dir.gate_call(&r, "terminate", &self.path, true, k);
        Ok(())
    }
}
impl Drop for W {
    fn drop(&mut self) {
        let r = role();
        let mut g = self.dir.st.lock().unwrap();
        let mut was_term = true;
        if let Some(f) = g.fs.reg.get_mut(&self.path) {
            f.writer_alive = false;
            was_term = f.terminated;
        }
        if !is_lock(&self.path) {
            self.dir.ev(&mut g, &r, "drop_writer", &self.path, json!({"terminated":was_term}));
        }
    }
}

impl Directory for SimDir {
    fn get_file_handle(&self, path: &Path) -> Result<Arc<dyn FileHandle>, OpenReadError> {
        let r = role();
        self.gate_call(&r, "open_read", path, false, 0);
        let mut g = self.st.lock().unwrap();
        if self.fault_here(&mut g, "open_read", path) {
            self.ev(&mut g, &r, "fault", path, json!({"fop":"open_read"}));
            return Err(OpenReadError::IoError { io_error: Arc::new(ioerr("open_read")), filepath: path.to_path_buf() });
        }
        let res = g.fs.reg.get(path).map(|f| f.data.clone());
        let k = g.opcount;
        match res {
            Some(data) => {
                self.ev(&mut g, &r, "open_read", path, json!({"ok":true,"len":data.len()}));
                drop(g);
                self.gate_call(&r, "open_read", path, true, k);
                Ok(Arc::new(OwnedBytes::new(data)))
            }
            None => {
                self.ev(&mut g, &r, "open_read", path, json!({"ok":false}));
                drop(g);
                self.gate_call(&r, "open_read", path, true, k);
                Err(OpenReadError::FileDoesNotExist(path.to_path_buf()))
            }
        }
    }
    fn delete(&self, path: &Path) -> Result<(), DeleteError> {
        let r = role();
        self.gate_call(&r, "delete", path, false, 0);
        let mut g = self.st.lock().unwrap();
        if self.fault_here(&mut g, "delete", path) {
            self.ev(&mut g, &r, "fault", path, json!({"fop":"delete"}));
            return Err(DeleteError::IoError { io_error: Arc::new(ioerr("delete")), filepath: path.to_path_buf() });
        }
        let k = g.opcount;
        match g.fs.reg.remove(path) {
            Some(f) => {
                if f.entry_durable && !is_lock(path) {
                    g.fs.ghosts.insert(path.to_path_buf(), f);
                }
                self.ev(&mut g, &r, "delete", path, json!({"ok":true}));
                drop(g);
                self.gate_call(&r, "delete", path, true, k);
                Ok(())
            }
            None => {
                self.ev(&mut g, &r, "delete", path, json!({"ok":false}));
                drop(g);
                self.gate_call(&r, "delete", path, true, k);
                Err(DeleteError::FileDoesNotExist(path.to_path_buf()))
            }
        }
    }
    fn exists(&self, path: &Path) -> Result<bool, OpenReadError> {
        let r = role();
        let mut g = self.st.lock().unwrap();
        if self.fault_here(&mut g, "exists", path) {
            self.ev(&mut g, &r, "fault", path, json!({"fop":"exists"}));
            return Err(OpenReadError::IoError { io_error: Arc::new(ioerr("exists")), filepath: path.to_path_buf() });
        }
        let e = g.fs.reg.contains_key(path) || g.fs.atom.get(path).map(|a| !a.versions.is_empty()).unwrap_or(false);
        self.ev(&mut g, &r, "exists", path, json!({"res":e}));
        Ok(e)
    }
    fn open_write(&self, path: &Path) -> Result<WritePtr, OpenWriteError> {
        let r = role();
        self.gate_call(&r, "open_write", path, false, 0);
        let mut g = self.st.lock().unwrap();
        if self.fault_here(&mut g, "open_write", path) {
            self.ev(&mut g, &r, "fault", path, json!({"fop":"open_write"}));
            return Err(OpenWriteError::IoError { io_error: Arc::new(ioerr("open_write")), filepath: path.to_path_buf() });
        }
        let k = g.opcount;
        if g.fs.reg.contains_key(path) {
            self.ev(&mut g, &r, "open_write", path, json!({"ok":false}));
            drop(g);
            self.gate_call(&r, "open_write", path, true, k);
            return Err(OpenWriteError::FileAlreadyExists(path.to_path_buf()));
        }
        // re-creating a name whose unlink is not yet synced: the old inode can no longer come back
        g.fs.ghosts.remove(path);
        g.fs.reg.insert(path.to_path_buf(), RegFile { writer_alive: true, ..RegFile::default() });
        self.ev(&mut g, &r, "open_write", path, json!({"ok":true}));
        drop(g);
        self.gate_call(&r, "open_write", path, true, k);
        Ok(BufWriter::new(Box::new(W { dir: self.clone(), path: path.to_path_buf() })))
    }
    fn atomic_read(&self, path: &Path) -> Result<Vec<u8>, OpenReadError> {
        let r = role();
        self.gate_call(&r, "atomic_read", path, false, 0);
        let mut g = self.st.lock().unwrap();
        if self.fault_here(&mut g, "atomic_read", path) {
            self.ev(&mut g, &r, "fault", path, json!({"fop":"atomic_read"}));
            return Err(OpenReadError::IoError { io_error: Arc::new(ioerr("atomic_read")), filepath: path.to_path_buf() });
        }
        let k = g.opcount;
        let res = g.fs.atom.get(path).and_then(|a| a.versions.last().cloned().map(|v| (v, a.versions.len())));
        match res {
            Some((v, ver)) => {
                self.ev(&mut g, &r, "atomic_read", path, json!({"ok":true,"ver":ver}));
                drop(g);
                self.gate_call(&r, "atomic_read", path, true, k);
                Ok(v)
            }
            None => {
                self.ev(&mut g, &r, "atomic_read", path, json!({"ok":false}));
                drop(g);
                self.gate_call(&r, "atomic_read", path, true, k);
                Err(OpenReadError::FileDoesNotExist(path.to_path_buf()))
            }
        }
    }
    fn atomic_write(&self, path: &Path, data: &[u8]) -> io::Result<()> {
        let r = role();
        self.gate_call(&r, "atomic_write", path, false, 0);
        let mut g = self.st.lock().unwrap();
        let faulty = self.fault_here(&mut g, "atomic_write", path);
        if faulty && !g.fault.after_effect {
            self.ev(&mut g, &r, "fault", path, json!({"fop":"atomic_write"}));
            return Err(ioerr("atomic_write"));
        }
        let k = g.opcount;
        let a = g.fs.atom.entry(path.to_path_buf()).or_default();
        a.versions.push(data.to_vec());
        let ver = a.versions.len();
        let name = path.to_string_lossy().to_string();
        let extra = if name == "meta.json" {
            json!({"ver":ver,"meta":self.meta_view(data)})
        } else if name == ".managed.json" {
            json!({"ver":ver,"managed":self.managed_view(data)})
        } else {
            json!({"ver":ver})
        };
        self.ev(&mut g, &r, "atomic_write", path, extra);
        if faulty {
            self.ev(&mut g, &r, "fault", path, json!({"fop":"atomic_write","after_effect":true}));
            return Err(ioerr("atomic_write (after effect)"));
        }
        drop(g);
        self.gate_call(&r, "atomic_write", path, true, k);
        Ok(())
    }
    fn sync_directory(&self) -> io::Result<()> {
        let r = role();
        let p = PathBuf::from(".");
        self.gate_call(&r, "sync_directory", &p, false, 0);
        let mut g = self.st.lock().unwrap();
        if self.fault_here(&mut g, "sync_directory", &p) {
            self.ev(&mut g, &r, "fault", &p, json!({"fop":"sync_directory"}));
            return Err(ioerr("sync_directory"));
        }
        let k = g.opcount;
        for f in g.fs.reg.values_mut() {
            f.entry_durable = true;
        }
        g.fs.ghosts.clear();
        for a in g.fs.atom.values_mut() {
            if !a.versions.is_empty() {
                a.durable = Some(a.versions.len() - 1);
            }
        }
        self.ev(&mut g, &r, "sync_directory", &p, json!({}));
        drop(g);
        self.gate_call(&r, "sync_directory", &p, true, k);
        Ok(())
    }
    fn watch(&self, cb: WatchCallback) -> tantivy::Result<WatchHandle> {
        Ok(self.st.lock().unwrap().watch.subscribe(cb))
    }
}

impl SimDir {
    /// Fire the watch callbacks (what a file watcher would do after meta.json changed).
    pub fn broadcast(&self) {
        let fut = self.st.lock().unwrap().watch.broadcast();
        let _ = fut.wait();
    }
}
