//! ndjson event writer. One global sequence number, assigned under the writer's mutex.
use serde_json::{json, Map, Value};
use std::collections::HashMap;
use std::io::Write;
use std::sync::{Arc, Mutex};

struct Inner {
    out: Box<dyn Write + Send>,
    seq: u64,
    canon: HashMap<String, usize>,
    count: u64,
}

#[derive(Clone)]
pub struct Tracer {
    inner: Arc<Mutex<Inner>>,
}

/// Role of the calling thread, from the names tantivy gives to its threads.
pub fn role() -> String {
    let t = std::thread::current();
    let n = t.name().unwrap_or("anon");
    if n.starts_with("thrd-tantivy-index") {
        format!("worker{}", &n["thrd-tantivy-index".len()..])
    } else if n.starts_with("segment_updater") {
        "updater".to_string()
    } else if n.starts_with("merge_thread") {
        "merge".to_string()
    } else if n.starts_with("docstore-compressor") {
        "comp".to_string()
    } else {
        n.to_string()
    }
}

impl Tracer {
    pub fn to_file(path: &str) -> Tracer {
        let f = std::fs::File::create(path).unwrap_or_else(|e| panic!("create {path}: {e}"));
        Tracer::new(Box::new(std::io::BufWriter::with_capacity(1 << 16, f)))
    }
    pub fn sink() -> Tracer {
        Tracer::new(Box::new(std::io::sink()))
    }
    pub fn new(out: Box<dyn Write + Send>) -> Tracer {
        Tracer {
            inner: Arc::new(Mutex::new(Inner {
                out,
                seq: 0,
                canon: HashMap::new(),
                count: 0,
            })),
        }
    }
    /// Emit one event. `fields` must be a JSON object; `seq` and `th` are added.
    pub fn emit(&self, mut fields: Value) -> u64 {
        let mut g = self.inner.lock().unwrap();
        g.seq += 1;
        g.count += 1;
        let seq = g.seq;
        if let Value::Object(m) = &mut fields {
            m.insert("seq".into(), json!(seq));
            if !m.contains_key("th") {
                m.insert("th".into(), json!(role()));
            }
        }
        let s = serde_json::to_string(&fields).unwrap();
        g.out.write_all(s.as_bytes()).unwrap();
        g.out.write_all(b"\n").unwrap();
        seq
    }
    pub fn count(&self) -> u64 {
        self.inner.lock().unwrap().count
    }
    pub fn flush(&self) {
        self.inner.lock().unwrap().out.flush().unwrap();
    }
    /// Canonical small integer of a segment uuid (first-seen order), reset by `reset_canon`.
    pub fn seg(&self, uuid: &str) -> usize {
        let mut g = self.inner.lock().unwrap();
        let n = g.canon.len() + 1;
        *g.canon.entry(uuid.to_string()).or_insert(n)
    }
    pub fn reset_canon(&self) {
        self.inner.lock().unwrap().canon.clear();
    }
    /// Canonical name of a file path: `<32 hex>.ext` -> `s<N>.ext`
    pub fn path(&self, p: &std::path::Path) -> String {
        let s = p.to_string_lossy().to_string();
        if s.len() > 32 && s.as_bytes()[..32].iter().all(|b| b.is_ascii_hexdigit()) && s.as_bytes()[32] == b'.' {
            format!("s{}{}", self.seg(&s[..32]), &s[32..])
        } else {
            s
        }
    }
}

pub fn obj(pairs: &[(&str, Value)]) -> Value {
    let mut m = Map::new();
    for (k, v) in pairs {
        m.insert((*k).to_string(), v.clone());
    }
    Value::Object(m)
}
