//! The "world" used by the writer-protocol engines (C01, C02, C04, C05, C10, C11, C17, C18):
//! one index on a SimDirectory, one (optional) IndexWriter, readers; operations are executed on
//! the real API and every call is logged as an event with its result and, where the property
//! needs it, the content read back through a *fresh* `Index::open`.
use crate::simdir::SimDir;
use crate::trace::Tracer;
use serde_json::{json, Value};
use std::collections::HashMap;
use std::sync::{Arc, Mutex};
use tantivy::collector::DocSetCollector;
use tantivy::index::SegmentId;
use tantivy::indexer::{LogMergePolicy, MergeCandidate, MergePolicy, NoMergePolicy, UserOperation};
use tantivy::query::{AllQuery, Query, RangeQuery, TermQuery};
use tantivy::schema::*;
use tantivy::schema::Value as TValue;
use tantivy::{Index, IndexReader, IndexSettings, IndexSortByField, IndexWriter, Order, ReloadPolicy, SegmentMeta, TantivyDocument, Term};

#[derive(Clone, Debug)]
pub struct Cfg {
    pub threads: usize,
    pub flush_after: u32,
    pub merge: String,
    /// "", "v_asc", "v_desc"
    pub sorted: String,
    pub blocksize: usize,
}
impl Default for Cfg {
    fn default() -> Self {
        Cfg { threads: 1, flush_after: 0, merge: "none".into(), sorted: "".into(), blocksize: 0 }
    }
}
impl Cfg {
    pub fn to_json(&self) -> Value {
        json!({"threads":self.threads,"flush_after":self.flush_after,"merge":self.merge,"sorted":self.sorted,"blocksize":self.blocksize})
    }
}

/// Merge policy that proposes to merge any two mergeable segments (smallest ids first).
#[derive(Debug)]
pub struct AnyTwo;
impl MergePolicy for AnyTwo {
    fn compute_merge_candidates(&self, segments: &[SegmentMeta]) -> Vec<MergeCandidate> {
        let mut ids: Vec<SegmentId> = segments.iter().map(|s| s.id()).collect();
        ids.sort();
        ids.chunks(2).filter(|c| c.len() == 2).map(|c| MergeCandidate(c.to_vec())).collect()
    }
}

/// `lazy2`: merge any two mergeable segments, but only while an uncommitted delete is pending
/// (armed by `del`, disarmed by commit / rollback): policy merges then run in the middle of a
/// transaction, which is when a wrong merge target would publish uncommitted deletes.
pub static LAZY_ARMED: std::sync::atomic::AtomicBool = std::sync::atomic::AtomicBool::new(false);
#[derive(Debug)]
pub struct LazyTwo;
impl MergePolicy for LazyTwo {
    fn compute_merge_candidates(&self, segments: &[SegmentMeta]) -> Vec<MergeCandidate> {
        if !LAZY_ARMED.load(std::sync::atomic::Ordering::SeqCst) {
            return vec![];
        }
        AnyTwo.compute_merge_candidates(segments)
    }
}

pub struct Fields {
    pub id: Field,
    pub t: Field,
    pub v: Field,
    pub body: Field,
}

pub fn schema() -> (Schema, Fields) {
    let mut sb = Schema::builder();
    let id = sb.add_u64_field("id", STORED | FAST | INDEXED);
    let t = sb.add_text_field("t", STRING | STORED);
    let v = sb.add_i64_field("v", STORED | FAST | INDEXED);
    let body = sb.add_text_field("body", TEXT | STORED);
    (sb.build(), Fields { id, t, v, body })
}

pub struct World {
    pub dir: SimDir,
    pub tracer: Tracer,
    pub index: Index,
    pub writer: Option<IndexWriter>,
    pub f: Fields,
    pub cfg: Cfg,
    /// uuid strings of segments seen in the registers hook (uncommitted, committed)
    pub regs: Arc<Mutex<(Vec<String>, Vec<String>)>>,
    pub readers: Vec<IndexReader>,
    /// a second Index instance on the same directory (`open_second`), swapped in by `switch_index`
    pub other: Option<Index>,
}

pub fn body_of(id: u64, t: &str) -> String {
    // a few tokens, deterministic in (id, t): gives positions and frequencies something to do
    let mut s = String::new();
    for k in 0..(1 + id % 4) {
        if k > 0 {
            s.push(' ');
        }
        s.push_str(if (id + k) % 3 == 0 { "x" } else { t });
        s.push_str(if k % 2 == 0 { "" } else { "y" });
    }
    s
}

impl World {
    pub fn new(tracer: &Tracer, cfg: &Cfg) -> World {
        let dir = SimDir::new(tracer.clone());
        Self::on_dir(dir, tracer, cfg, true)
    }
    pub fn new_quiet(tracer: &Tracer, cfg: &Cfg, quiet: bool) -> World {
        let dir = SimDir::new(tracer.clone());
        dir.set_quiet(quiet);
        Self::on_dir(dir, tracer, cfg, true)
    }
    pub fn on_dir(dir: SimDir, tracer: &Tracer, cfg: &Cfg, create: bool) -> World {
        let (schema, f) = schema();
        let mut settings = IndexSettings::default();
        if cfg.sorted == "v_asc" {
            settings.sort_by_field = Some(IndexSortByField { field: "v".into(), order: Order::Asc });
        } else if cfg.sorted == "v_desc" {
            settings.sort_by_field = Some(IndexSortByField { field: "v".into(), order: Order::Desc });
        }
        if cfg.blocksize > 0 {
            settings.docstore_blocksize = cfg.blocksize;
        }
        let index = if create {
            Index::create(dir.clone(), schema, settings).expect("create index")
        } else {
            Index::open(dir.clone()).expect("open index")
        };
        tantivy::verif::set_flush_after_docs(cfg.flush_after);
        World { dir, tracer: tracer.clone(), index, writer: None, f, cfg: cfg.clone(), regs: Arc::new(Mutex::new((vec![], vec![]))), readers: vec![], other: None }
    }

    pub fn merge_policy(&self) -> Box<dyn MergePolicy> {
        match self.cfg.merge.as_str() {
            "none" => Box::new(NoMergePolicy),
            "any2" => Box::new(AnyTwo),
            "lazy2" => Box::new(LazyTwo),
            _ => {
                let mut p = LogMergePolicy::default();
                p.set_min_num_segments(2);
                p.set_min_layer_size(2);
                Box::new(p)
            }
        }
    }

    pub fn open_writer(&mut self) -> Result<(), String> {
        let r: tantivy::Result<IndexWriter> = self.index.writer_with_num_threads(self.cfg.threads, 15_000_000 * self.cfg.threads);
        match r {
            Ok(w) => {
                w.set_merge_policy(self.merge_policy());
                self.writer = Some(w);
                Ok(())
            }
            Err(e) => Err(errclass(&e)),
        }
    }

    pub fn doc(&self, id: u64, t: &str, v: i64) -> TantivyDocument {
        self.doc_padded(id, t, v, 0)
    }

    /// `pad` extra tokens in the body: large documents make the MEMORY BUDGET cut segments
    pub fn doc_padded(&self, id: u64, t: &str, v: i64, pad: u64) -> TantivyDocument {
        let mut d = TantivyDocument::default();
        d.add_u64(self.f.id, id);
        d.add_text(self.f.t, t);
        d.add_i64(self.f.v, v);
        let mut body = body_of(id, t);
        for k in 0..pad {
            body.push_str(&format!(" w{}x{}", id, k));
        }
        d.add_text(self.f.body, body);
        d
    }

    pub fn pred_query(&self, p: &Value) -> Box<dyn Query> {
        match p["k"].as_str().unwrap() {
            "term" => Box::new(TermQuery::new(Term::from_field_text(self.f.t, p["t"].as_str().unwrap()), IndexRecordOption::Basic)),
            "vrange" => {
                let lo = p["lo"].as_i64().unwrap();
                let hi = p["hi"].as_i64().unwrap();
                Box::new(RangeQuery::new(
                    std::ops::Bound::Included(Term::from_field_i64(self.f.v, lo)),
                    std::ops::Bound::Included(Term::from_field_i64(self.f.v, hi)),
                ))
            }
            "id" => Box::new(TermQuery::new(Term::from_field_u64(self.f.id, p["id"].as_u64().unwrap()), IndexRecordOption::Basic)),
            // boolean predicates (flat): term OR range, term AND NOT range - deletes go through
            // BooleanWeight::for_each_no_score instead of the single-term path
            "or" | "andnot" => {
                let term: Box<dyn Query> = self.pred_query(&json!({"k":"term","t":p["t"]}));
                let range: Box<dyn Query> = self.pred_query(&json!({"k":"vrange","lo":p["lo"],"hi":p["hi"]}));
                if p["k"] == "or" {
                    Box::new(tantivy::query::BooleanQuery::new(vec![(tantivy::query::Occur::Should, term), (tantivy::query::Occur::Should, range)]))
                } else {
                    Box::new(tantivy::query::BooleanQuery::new(vec![(tantivy::query::Occur::Must, term), (tantivy::query::Occur::MustNot, range)]))
                }
            }
            k => panic!("unknown predicate {k}"),
        }
    }

    /// The logical content of the index as a fresh `Index::open` + reader sees it.
    pub fn observe(&self) -> Value {
        observe_dir(&self.dir, &self.tracer)
    }

    /// segment ids (uuid strings) for canonical ids
    pub fn seg_ids(&self, sids: &[u64]) -> Vec<SegmentId> {
        // canonical ids are assigned by the tracer; find uuids by asking the tracer for each known one
        let mut known: Vec<String> = vec![];
        {
            let g = self.regs.lock().unwrap();
            known.extend(g.0.iter().cloned());
            known.extend(g.1.iter().cloned());
        }
        if let Ok(metas) = self.index.searchable_segment_metas() {
            for m in metas {
                known.push(m.id().uuid_string());
            }
        }
        let mut out = vec![];
        for sid in sids {
            for u in &known {
                if self.tracer.seg(u) as u64 == *sid {
                    if let Ok(id) = SegmentId::from_uuid_string(u) {
                        if !out.contains(&id) {
                            out.push(id);
                        }
                    }
                    break;
                }
            }
        }
        out
    }

    /// Execute one operation (a JSON object with "op") and log its event. Returns the event.
    pub fn exec(&mut self, op: &Value) -> Value {
        let name = op["op"].as_str().unwrap_or("?").to_string();
        let f0 = crate::simdir::THREAD_FAULTS.with(|c| c.get());
        let mut ev = self.exec_inner(&name, op);
        // nf: injected faults that fired on the calling thread during this call
        ev["nf"] = json!(crate::simdir::THREAD_FAULTS.with(|c| c.get()) - f0);
        self.tracer.emit(ev.clone());
        ev
    }

    fn exec_inner(&mut self, name: &str, op: &Value) -> Value {
        match name {
            "del" | "run" => LAZY_ARMED.store(true, std::sync::atomic::Ordering::SeqCst),
            "commit" | "prepare_commit" | "rollback" | "new_writer" | "drop_writer" => LAZY_ARMED.store(false, std::sync::atomic::Ordering::SeqCst),
            _ => {}
        }
        let nowriter = || json!({"ev":name,"ok":false,"err":"nowriter"});
        match name {
            "new_writer" => match self.open_writer() {
                Ok(()) => json!({"ev":"new_writer","ok":true,"commit_opstamp":self.writer.as_ref().map(|w| w.commit_opstamp())}),
                Err(e) => json!({"ev":"new_writer","ok":false,"err":e}),
            },
            // a second Index instance on the same directory, as another process (or another part of
            // this one) has: it reads meta.json and .managed.json NOW
            "open_second" => match Index::open(self.dir.clone()) {
                Ok(i) => {
                    self.other = Some(i);
                    json!({"ev":"open_second","ok":true})
                }
                Err(e) => json!({"ev":"open_second","ok":false,"err":errclass(&e)}),
            },
            // from now on the writer is created through the other instance (no writer may be open)
            "switch_index" => {
                if self.writer.is_some() || self.other.is_none() {
                    json!({"ev":"switch_index","ok":false})
                } else {
                    let o = self.other.take().unwrap();
                    self.other = Some(std::mem::replace(&mut self.index, o));
                    self.readers.clear();
                    json!({"ev":"switch_index","ok":true})
                }
            }
            "drop_writer" => {
                let had = self.writer.is_some();
                self.writer = None;
                json!({"ev":"drop_writer","ok":had,"locks":self.dir.lock_files()})
            }
            "add" => {
                let (id, t, v) = (op["id"].as_u64().unwrap(), op["t"].as_str().unwrap().to_string(), op["v"].as_i64().unwrap_or(0));
                let d = self.doc_padded(id, &t, v, op["pad"].as_u64().unwrap_or(0));
                let Some(w) = self.writer.as_ref() else { return nowriter() };
                match w.add_document(d) {
                    Ok(o) => json!({"ev":"add","ok":true,"id":id,"t":t,"v":v,"opstamp":o}),
                    Err(e) => json!({"ev":"add","ok":false,"id":id,"t":t,"v":v,"err":errclass(&e)}),
                }
            }
            "del" => {
                let q = self.pred_query(&op["pred"]);
                let Some(w) = self.writer.as_ref() else { return nowriter() };
                match w.delete_query(q) {
                    Ok(o) => json!({"ev":"del","ok":true,"pred":op["pred"],"opstamp":o}),
                    Err(e) => json!({"ev":"del","ok":false,"pred":op["pred"],"err":errclass(&e)}),
                }
            }
            "run" => {
                let mut uops: Vec<UserOperation> = vec![];
                for o in op["ops"].as_array().unwrap() {
                    if o["k"] == "add" {
                        uops.push(UserOperation::Add(self.doc_padded(o["id"].as_u64().unwrap(), o["t"].as_str().unwrap(), o["v"].as_i64().unwrap_or(0), o["pad"].as_u64().unwrap_or(0))));
                    } else {
                        uops.push(UserOperation::Delete(Term::from_field_text(self.f.t, o["t"].as_str().unwrap())));
                    }
                }
                let Some(w) = self.writer.as_ref() else { return nowriter() };
                match w.run(uops) {
                    Ok(o) => json!({"ev":"run","ok":true,"ops":op["ops"],"opstamp":o}),
                    Err(e) => json!({"ev":"run","ok":false,"ops":op["ops"],"err":errclass(&e)}),
                }
            }
            "delete_all" => {
                let Some(w) = self.writer.as_ref() else { return nowriter() };
                match w.delete_all_documents() {
                    Ok(o) => json!({"ev":"delete_all","ok":true,"opstamp":o}),
                    Err(e) => json!({"ev":"delete_all","ok":false,"err":errclass(&e)}),
                }
            }
            "commit" => {
                self.tracer.emit(json!({"ev":"call","api":"commit"}));
                let Some(w) = self.writer.as_mut() else { return nowriter() };
                let r = w.commit();
                let wop = self.writer.as_ref().map(|w| w.commit_opstamp());
                match r {
                    Ok(o) => json!({"ev":"commit","ok":true,"opstamp":o,"writer_commit_opstamp":wop,"obs":self.observe()}),
                    Err(e) => json!({"ev":"commit","ok":false,"err":errclass(&e),"obs":self.observe()}),
                }
            }
            "prepare_commit" => {
                // prepare_commit; [set_payload]; commit | abort   (the guard borrows the writer)
                self.tracer.emit(json!({"ev":"call","api":"commit"}));
                let abort = op["abort"].as_bool().unwrap_or(false);
                let payload = op["payload"].as_str().map(|s| s.to_string());
                let Some(w) = self.writer.as_mut() else { return nowriter() };
                let r = w.prepare_commit();
                match r {
                    Err(e) => json!({"ev":"prepare_commit","ok":false,"err":errclass(&e),"obs":self.observe()}),
                    Ok(mut pc) => {
                        let pop = pc.opstamp();
                        if let Some(p) = &payload {
                            pc.set_payload(p);
                        }
                        if abort {
                            let r2 = pc.abort();
                            match r2 {
                                Ok(o) => json!({"ev":"prepare_abort","ok":true,"prepared_opstamp":pop,"opstamp":o,"obs":self.observe()}),
                                Err(e) => json!({"ev":"prepare_abort","ok":false,"err":errclass(&e),"obs":self.observe()}),
                            }
                        } else {
                            let r2 = pc.commit();
                            match r2 {
                                Ok(o) => json!({"ev":"commit","ok":true,"prepared_opstamp":pop,"payload":payload,"opstamp":o,"obs":self.observe()}),
                                Err(e) => json!({"ev":"commit","ok":false,"err":errclass(&e),"obs":self.observe()}),
                            }
                        }
                    }
                }
            }
            "rollback" => {
                let Some(w) = self.writer.as_mut() else { return nowriter() };
                let r = w.rollback();
                if r.is_ok() {
                    let mp = self.merge_policy();
                    self.writer.as_ref().unwrap().set_merge_policy(mp);
                }
                match r {
                    Ok(o) => json!({"ev":"rollback","ok":true,"opstamp":o,"obs":self.observe()}),
                    Err(e) => json!({"ev":"rollback","ok":false,"err":errclass(&e),"obs":self.observe()}),
                }
            }
            "merge" => {
                // explicit merge of the given canonical segment ids (default: all searchable), waited for
                let ids: Vec<SegmentId> = match op.get("sids").and_then(|s| s.as_array()) {
                    Some(a) => self.seg_ids(&a.iter().filter_map(|x| x.as_u64()).collect::<Vec<_>>()),
                    None => self.index.searchable_segment_ids().unwrap_or_default(),
                };
                let sids: Vec<usize> = ids.iter().map(|i| self.tracer.seg(&i.uuid_string())).collect();
                if ids.is_empty() {
                    return json!({"ev":"merge","ok":false,"err":"nosegments","sids":sids});
                }
                let Some(w) = self.writer.as_mut() else { return nowriter() };
                let fut = w.merge(&ids);
                match fut.wait() {
                    Ok(m) => {
                        let res = m.map(|m| self.tracer.seg(&m.id().uuid_string()));
                        json!({"ev":"merge","ok":true,"sids":sids,"res":res,"obs":self.observe()})
                    }
                    Err(e) => json!({"ev":"merge","ok":false,"sids":sids,"err":errclass(&e),"obs":self.observe()}),
                }
            }
            "wait_uncommitted" => {
                // wait until the registers hold at least n uncommitted segments (workers cut them
                // asynchronously); an observation of the hook state, not a verdict
                let n = op["n"].as_u64().unwrap_or(1) as usize;
                let want_docs = op["docs"].as_u64().unwrap_or(0);
                let docs = || UNCOMMITTED_DOCS.load(std::sync::atomic::Ordering::SeqCst);
                let t0 = std::time::Instant::now();
                while (self.regs.lock().unwrap().0.len() < n || docs() < want_docs) && t0.elapsed() < std::time::Duration::from_secs(3) {
                    std::thread::sleep(std::time::Duration::from_millis(2));
                }
                let have = self.regs.lock().unwrap().0.len();
                json!({"ev":"wait_uncommitted","ok":have >= n && docs() >= want_docs,"n":have,"docs":docs()})
            }
            "merge_uncommitted" => {
                // IndexWriter::merge on the segments currently in the uncommitted register
                let uuids: Vec<String> = self.regs.lock().unwrap().0.clone();
                let ids: Vec<SegmentId> = uuids.iter().filter_map(|u| SegmentId::from_uuid_string(u).ok()).collect();
                let sids: Vec<usize> = ids.iter().map(|i| self.tracer.seg(&i.uuid_string())).collect();
                if ids.is_empty() {
                    return json!({"ev":"merge_uncommitted","ok":false,"err":"nosegments"});
                }
                let Some(w) = self.writer.as_mut() else { return nowriter() };
                match w.merge(&ids).wait() {
                    Ok(_) => json!({"ev":"merge_uncommitted","ok":true,"sids":sids}),
                    Err(e) => json!({"ev":"merge_uncommitted","ok":false,"sids":sids,"err":errclass(&e)}),
                }
            }
            "wait_merges" => {
                // consumes the writer; a new one is opened afterwards by a separate op
                let Some(w) = self.writer.take() else { return nowriter() };
                match w.wait_merging_threads() {
                    Ok(()) => json!({"ev":"wait_merges","ok":true,"obs":self.observe(),"locks":self.dir.lock_files()}),
                    Err(e) => json!({"ev":"wait_merges","ok":false,"err":errclass(&e),"obs":self.observe(),"locks":self.dir.lock_files()}),
                }
            }
            "gc" => {
                let Some(w) = self.writer.as_ref() else { return nowriter() };
                match w.garbage_collect_files().wait() {
                    Ok(r) => {
                        let mut del: Vec<String> = r.deleted_files.iter().map(|p| self.tracer.path(p)).collect();
                        del.sort();
                        let mut failed: Vec<String> = r.failed_to_delete_files.iter().map(|p| self.tracer.path(p)).collect();
                        failed.sort();
                        json!({"ev":"gc","ok":true,"deleted":del,"failed":failed,"listing":self.dir.listing(),"managed":self.managed()})
                    }
                    Err(e) => json!({"ev":"gc","ok":false,"err":errclass(&e)}),
                }
            }
            "reload" => {
                // a long-lived IndexReader on the writer's Index (subject to injected faults);
                // the content it exposes is read back quietly
                if self.readers.is_empty() {
                    let r: tantivy::Result<IndexReader> = self.index.reader_builder().reload_policy(ReloadPolicy::Manual).try_into();
                    match r {
                        Ok(r) => self.readers.push(r),
                        Err(e) => return json!({"ev":"reload","ok":false,"err":errclass(&e),"new":true}),
                    }
                }
                match self.readers[0].reload() {
                    Ok(()) => {
                        let s = self.readers[0].searcher();
                        let t = self.tracer.clone();
                        let obs = match crate::simdir::quietly(|| observe_searcher(&s, &t)) {
                            Ok(v) => v,
                            Err(e) => json!({"ok":false,"err":e}),
                        };
                        json!({"ev":"reload","ok":true,"obs":obs})
                    }
                    Err(e) => json!({"ev":"reload","ok":false,"err":errclass(&e)}),
                }
            }
            "observe" => json!({"ev":"observe","ok":true,"obs":self.observe()}),
            other => json!({"ev":other,"ok":false,"err":"unknown op"}),
        }
    }

    /// the persisted list of managed files (canonical names)
    pub fn managed(&self) -> Value {
        use tantivy::directory::Directory;
        let r = crate::simdir::quietly(|| self.dir.atomic_read(std::path::Path::new(".managed.json")));
        match r {
            Ok(b) => {
                let v: Value = serde_json::from_slice(&b).unwrap_or(Value::Null);
                let mut files: Vec<String> = v.as_array().map(|a| a.iter().filter_map(|x| x.as_str()).map(|s| self.tracer.path(std::path::Path::new(s))).collect()).unwrap_or_default();
                files.sort();
                json!(files)
            }
            Err(_) => Value::Null,
        }
    }
}

pub fn errclass(e: &tantivy::TantivyError) -> String {
    let s = format!("{e:?}");
    let head: String = s.chars().take_while(|c| c.is_alphanumeric()).collect();
    let detail: String = s.chars().take(160).collect();
    format!("{head}: {detail}")
}

/// Open the index on `dir` from scratch and read everything back.
/// {"ok":true,"metaop":..,"payload":..,"segs":[{"sid","max_doc","docs":[[id,t,v,fid,fv],...]}],
///  "byterm":{"a":[ids...]}, "n": total alive}
pub fn observe_dir(dir: &SimDir, tracer: &Tracer) -> Value {
    let r = std::panic::catch_unwind(std::panic::AssertUnwindSafe(|| crate::simdir::quietly(|| observe_dir_inner(dir, tracer))));
    match r {
        Ok(Ok(v)) => v,
        Ok(Err(e)) => json!({"ok":false,"err":e}),
        Err(_) => json!({"ok":false,"err":"panic"}),
    }
}

fn observe_dir_inner(dir: &SimDir, tracer: &Tracer) -> Result<Value, String> {
    let index = Index::open(dir.clone()).map_err(|e| format!("open: {}", errclass(&e)))?;
    let metas = index.load_metas().map_err(|e| format!("load_metas: {}", errclass(&e)))?;
    let reader: IndexReader = index.reader_builder().reload_policy(ReloadPolicy::Manual).try_into().map_err(|e: tantivy::TantivyError| format!("reader: {}", errclass(&e)))?;
    let s = reader.searcher();
    let mut v = observe_searcher(&s, tracer)?;
    v["metaop"] = json!(metas.opstamp);
    v["payload"] = json!(metas.payload);
    Ok(v)
}

/// Read everything back through a given searcher (no metadata: a searcher does not know them).
pub fn observe_searcher(s: &tantivy::Searcher, tracer: &Tracer) -> Result<Value, String> {
    let schema = s.schema().clone();
    let idf = schema.get_field("id").unwrap();
    let tf = schema.get_field("t").unwrap();
    let vf = schema.get_field("v").unwrap();
    let mut segs = vec![];
    let mut terms: std::collections::BTreeSet<String> = Default::default();
    let mut n = 0u64;
    for (ord, sr) in s.segment_readers().iter().enumerate() {
        let store = sr.get_store_reader(1).map_err(|e| format!("store: {e}"))?;
        let ff = sr.fast_fields();
        let idcol = ff.u64("id").map_err(|e| format!("fast id: {}", errclass(&e)))?;
        let vcol = ff.i64("v").map_err(|e| format!("fast v: {}", errclass(&e)))?;
        let mut docs = vec![];
        for d in 0..sr.max_doc() {
            if sr.is_deleted(d) {
                continue;
            }
            let doc: TantivyDocument = store.get(d).map_err(|e| format!("doc({ord},{d}): {}", errclass(&e)))?;
            let id = doc.get_first(idf).and_then(|v| v.as_u64()).ok_or_else(|| "no id".to_string())?;
            let t = doc.get_first(tf).and_then(|v| v.as_str().map(|s| s.to_string())).ok_or_else(|| "no t".to_string())?;
            let v = doc.get_first(vf).and_then(|v| v.as_i64()).ok_or_else(|| "no v".to_string())?;
            let fid: Vec<u64> = idcol.values_for_doc(d).collect();
            let fv: Vec<i64> = vcol.values_for_doc(d).collect();
            terms.insert(t.clone());
            docs.push(json!([id, t, v, fid, fv]));
            n += 1;
        }
        segs.push(json!({"sid": tracer.seg(&sr.segment_id().uuid_string()), "max_doc": sr.max_doc(), "ndel": sr.num_deleted_docs(), "docs": docs}));
    }
    // term queries through the inverted index, for every term seen and the standard ones
    for t in ["a", "b", "c"] {
        terms.insert(t.to_string());
    }
    let mut byterm = serde_json::Map::new();
    for t in terms {
        let q = TermQuery::new(Term::from_field_text(tf, &t), IndexRecordOption::Basic);
        let addrs = s.search(&q, &DocSetCollector).map_err(|e| format!("search: {}", errclass(&e)))?;
        let mut ids = vec![];
        for a in addrs {
            let sr = s.segment_reader(a.segment_ord);
            let idcol = sr.fast_fields().u64("id").map_err(|e| format!("fast id: {}", errclass(&e)))?;
            ids.extend(idcol.values_for_doc(a.doc_id));
        }
        ids.sort();
        byterm.insert(t, json!(ids));
    }
    let all = s.search(&AllQuery, &tantivy::collector::Count).map_err(|e| format!("count: {}", errclass(&e)))?;
    Ok(json!({"ok":true,"segs":segs,"byterm":Value::Object(byterm),"n":n,"count_all":all}))
}

/// keep `regs` current from the registers hook (called by the sink wrapper)
pub fn track_registers(regs: &Arc<Mutex<(Vec<String>, Vec<String>)>>, v: &Value) {
    let get = |k: &str| -> Vec<String> { v[k].as_array().map(|a| a.iter().filter_map(|e| e["seg"].as_str().map(|s| s.to_string())).collect()).unwrap_or_default() };
    let mut g = regs.lock().unwrap();
    g.0 = get("uncommitted");
    g.1 = get("committed");
    let docs: u64 = v["uncommitted"].as_array().map(|a| a.iter().map(|e| e["max_doc"].as_u64().unwrap_or(0)).sum()).unwrap_or(0);
    UNCOMMITTED_DOCS.store(docs, std::sync::atomic::Ordering::SeqCst);
}

/// documents (max_doc) in the segments of the uncommitted register, as the last `registers` hook event showed it
pub static UNCOMMITTED_DOCS: std::sync::atomic::AtomicU64 = std::sync::atomic::AtomicU64::new(0);

/// Install a sink that both tracks the registers (raw uuids) and logs canonicalised events.
/// merges started and not yet ended (hook events `merge_start` / `registers` after end_merge);
/// a merge that is abandoned never decrements it, so it is only used for bounded waits
pub static MERGES_IN_FLIGHT: std::sync::atomic::AtomicI64 = std::sync::atomic::AtomicI64::new(0);

/// wait (at most `max_ms`) until no started merge is still running
pub fn settle_merges(max_ms: u64) {
    let t0 = std::time::Instant::now();
    while MERGES_IN_FLIGHT.load(std::sync::atomic::Ordering::SeqCst) > 0 && t0.elapsed() < std::time::Duration::from_millis(max_ms) {
        std::thread::sleep(std::time::Duration::from_millis(1));
    }
}

pub fn install_sink(tracer: &Tracer, regs: Arc<Mutex<(Vec<String>, Vec<String>)>>, extra: Option<Arc<dyn Fn(&'static str, &Value) + Send + Sync>>) {
    let t = tracer.clone();
    MERGES_IN_FLIGHT.store(0, std::sync::atomic::Ordering::SeqCst);
    UNCOMMITTED_DOCS.store(0, std::sync::atomic::Ordering::SeqCst);
    tantivy::verif::set_sink(Some(Arc::new(move |name, mut v| {
        if name == "registers" {
            track_registers(&regs, &v);
            if v["after"] == json!("end_merge") {
                MERGES_IN_FLIGHT.fetch_sub(1, std::sync::atomic::Ordering::SeqCst);
            }
        } else if name == "merge_start" {
            MERGES_IN_FLIGHT.fetch_add(1, std::sync::atomic::Ordering::SeqCst);
        }
        crate::canon_value(&t, &mut v);
        if let Value::Object(m) = &mut v {
            m.insert("ev".into(), json!("hook"));
            m.insert("name".into(), json!(name));
        }
        if let Some(x) = &extra {
            x(name, &v);
        }
        t.emit(v);
    })));
}

pub type OpMap = HashMap<String, Value>;


/// Recover a crash image with the real code: open, checksum, read back, then writer + add +
/// commit + gc, listing.  Everything is an observation; nothing is judged here.
pub fn recover_image(img: crate::simdir::Fs, visible_managed: &[String], probe_id: u64) -> Value {
    let sink = Tracer::sink();
    let dir = SimDir::from_image(img, sink.clone());
    dir.set_quiet(true);
    let r = std::panic::catch_unwind(std::panic::AssertUnwindSafe(|| -> Value {
        let obs = observe_dir(&dir, &sink);
        if obs["ok"] != json!(true) {
            return json!({"obs": obs});
        }
        let index = match Index::open(dir.clone()) {
            Ok(i) => i,
            Err(e) => return json!({"obs": obs, "reopen_err": errclass(&e)}),
        };
        let damaged: Value = match index.validate_checksum() {
            Ok(set) => {
                let mut v: Vec<String> = set.iter().map(|p| p.to_string_lossy().to_string()).collect();
                v.sort();
                json!(v)
            }
            Err(e) => json!([format!("ERR {}", errclass(&e))]),
        };
        // the recovered index accepts a writer, a commit and a garbage collection
        let cfg = Cfg::default();
        let mut w = World::on_dir(dir.clone(), &sink, &cfg, false);
        let mut after = serde_json::Map::new();
        match w.open_writer() {
            Err(e) => {
                after.insert("writer".into(), json!(e));
            }
            Ok(()) => {
                after.insert("writer".into(), json!("ok"));
                let a = w.exec(&json!({"op":"add","id":probe_id,"t":"zz","v":0}));
                after.insert("add".into(), a["ok"].clone());
                let c = w.exec(&json!({"op":"commit"}));
                after.insert("commit".into(), c["ok"].clone());
                let g = w.exec(&json!({"op":"gc"}));
                after.insert("gc".into(), g["ok"].clone());
                let wm = w.exec(&json!({"op":"wait_merges"}));
                after.insert("wait".into(), wm["ok"].clone());
                let obs2 = observe_dir(&dir, &sink);
                let mut metafiles: Vec<String> = vec![];
                if let Ok(metas) = Index::open(dir.clone()).and_then(|i| i.searchable_segment_metas()) {
                    for m in metas {
                        for f in m.list_files() {
                            metafiles.push(f.to_string_lossy().to_string());
                        }
                    }
                }
                let listing: Vec<String> = dir.raw_listing().iter().map(|p| p.to_string_lossy().to_string()).collect();
                let orphans: Vec<Value> = listing.iter().filter(|p| !metafiles.contains(p)).map(|p| json!([p, visible_managed.contains(p)])).collect();
                after.insert("obs".into(), obs2);
                after.insert("orphans".into(), json!(orphans));
                after.insert("locks".into(), json!(dir.lock_files()));
            }
        }
        json!({"obs": obs, "damaged": damaged, "after": Value::Object(after)})
    }));
    match r {
        Ok(v) => v,
        Err(_) => json!({"panic": true}),
    }
}
